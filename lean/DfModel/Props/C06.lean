/-
  C06 — grouped aggregation is exact under every aggregation strategy.

  Spec: `specAgg a rows k` — group-by as a function of the rows: `none` if no row has key `k`, else the
  aggregate of exactly that group's rows.  Keys are arbitrary (`DecidableEq`), so multi-column keys with
  NULL cells (NULL = its own group) are covered.  Theorems are universal in the accumulator (any `Acc`
  satisfying the merge laws of C07 — all 13 modelled functions do), the rows, the partitioning, the
  routing function, the spill schedule.
-/
import DfModel.Mech.GroupAgg
import DfModel.Proofs.C06c
import DfModel.Proofs.C07b
namespace DfModel.Props.C06
open DfModel.Mech.AggAcc DfModel.Mech.GroupAgg DfModel.Proofs.C06 DfModel.Proofs.C07

variable {K σ ρ S : Type} [DecidableEq K] [DecidableEq S]

/-- single-stage hash aggregation: one output row per distinct key, carrying exactly that group's aggregate -/
theorem single_eq_spec (a : Acc σ ρ) (rows : List (Row K)) :
    ((singleAgg a rows).map (·.1)).Nodup ∧ ∀ k, lookupOut (singleAgg a rows) k = specAgg a rows k :=
  ⟨singleAgg_nodup a rows, singleAgg_spec a rows⟩

/-- **two_stage_eq_single**: partial aggregation per input partition, hash repartition of the state rows
    by ANY routing function into `nOut > 0` partitions, final aggregation per partition — the union of
    the outputs gives, for every key, what single-stage aggregation of all rows gives; for an
    order-insensitive function this holds for ANY distribution of the rows over the input partitions. -/
theorem two_stage_eq_single {I : σ → Prop} (a : Acc σ ρ) (hl : MergeLaws a I) (hc : StepComm a)
    (route : K → Nat) (nOut : Nat) (hn : 0 < nOut) (rows : List (Row K)) (parts : List (List (Row K)))
    (hp : parts.flatten.Perm rows) (k : K) :
    lookupOut (twoStage a route nOut parts) k = lookupOut (singleAgg a rows) k := by
  rw [twoStage_lookup a hl route nOut hn parts k, singleAgg_spec, specAgg_perm a hc hp]

/-- … and for every function (order-sensitive ones included) when the partitions are consecutive
    pieces of the input -/
theorem two_stage_eq_single_inorder {I : σ → Prop} (a : Acc σ ρ) (hl : MergeLaws a I)
    (route : K → Nat) (nOut : Nat) (hn : 0 < nOut) (parts : List (List (Row K))) (k : K) :
    lookupOut (twoStage a route nOut parts) k = lookupOut (singleAgg a parts.flatten) k := by
  rw [twoStage_lookup a hl route nOut hn parts k, singleAgg_spec]

/-- **spill_merge_eq**: for every spill schedule, emitting the table as a run under memory pressure and
    merging all runs per key at the end gives the single-stage result, for every function -/
theorem spill_merge_eq {I : σ → Prop} (a : Acc σ ρ) (hl : MergeLaws a I) (sched : List Bool)
    (rows : List (Row K)) (k : K) :
    lookupOut (spillAgg a sched rows) k = lookupOut (singleAgg a rows) k := by
  rw [spillAgg, singleAgg, lookupOut_finalize, lookupOut_finalize, lookup_finalAgg a hl, segments_flatten]

/-- **early_emit_complete_groups**: for input ordered on (a projection `sk` of) the group key — an earlier
    sort key never comes back — a group emitted when its sort-key run ends never receives a later row
    (no key occurs in two runs), and the early-emitting stream computes the specification -/
theorem early_emit_complete_groups (a : Acc σ ρ) (sk : K → S) (rows : List (Row K))
    (hc : Clustered (rows.map (fun r => sk r.1))) (k : K) :
    ((runsOn sk rows).map runRows).Pairwise
      (fun p q => ¬ (p.any (fun r => r.1 = k) = true ∧ q.any (fun r => r.1 = k) = true)) ∧
    lookupOut (orderedAgg a sk rows) k = specAgg a rows k :=
  ⟨emitted_group_complete sk rows hc k, orderedAgg_spec a sk rows hc k⟩

/-- the laws needed above hold for the modelled functions (from C07) -/
theorem modelled_functions_satisfy_laws :
    MergeLaws count NoInv ∧ MergeLaws sum NoInv ∧ MergeLaws min NoInv ∧ MergeLaws max NoInv ∧
    MergeLaws avg NoInv ∧ MergeLaws bitAnd NoInv ∧ MergeLaws bitOr NoInv ∧ MergeLaws bitXor NoInv ∧
    MergeLaws first FirstInv ∧ MergeLaws last NoInv ∧ MergeLaws countDistinct NoInv ∧
    StepComm count ∧ StepComm sum ∧ StepComm min ∧ StepComm max ∧ StepComm avg :=
  ⟨count_laws, sum_laws, min_laws, max_laws, avg_laws, bitAnd_laws, bitOr_laws, bitXor_laws, first_laws,
   last_laws, countDistinct_laws, count_comm, sum_comm, min_comm, max_comm, avg_comm⟩

-- keys are (nullable) integers here; NULL is its own group; two partitions, two output partitions
example : twoStage sum (fun k : Option Nat => k.getD 7) 2
    [[(some 1, some 10#64), (none, some 1#64), (some 2, none)], [(none, some 2#64), (some 1, some 5#64)]]
    = [(some 2, none), (some 1, some 15#64), (none, some 3#64)] := by decide
example : singleAgg sum
    [(some 1, some 10#64), (none, some 1#64), (some 2, none), (none, some 2#64), (some 1, some 5#64)]
    = [(some 1, some 15#64), (none, some 3#64), (some 2, none)] := by decide
-- spilling after the 2nd and 4th row
example : spillAgg count [false, true, false, true]
    [((1 : Int), some 1#64), (2, none), (1, some 3#64), (2, some 4#64), (1, some 5#64)]
    = [(1, 3), (2, 1)] := by decide
-- ordered on the first key column: groups (1,_) are emitted before (2,_) is seen
example : orderedAgg count (fun k : Int × Int => k.1)
    [((1, 7), some 1#64), ((1, 8), some 1#64), ((1, 7), none), ((2, 7), some 1#64)]
    = [((1, 7), 1), ((1, 8), 1), ((2, 7), 1)] := by decide
-- the hypothesis matters: on unordered input early emission splits a group
example : orderedAgg count (fun k : Int => k) [(1, some 1#64), (2, some 1#64), (1, some 1#64)]
    = [(1, 1), (2, 1), (1, 1)] := by decide

end DfModel.Props.C06
