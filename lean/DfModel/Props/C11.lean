/-
  C11 — Hash partition index equals hash modulo partition count.

  Theorems are stated about `DfModel.Gen.SR.*`, which is REGENERATED from
  `datafusion/physical-plan/src/repartition/mod.rs` by translator T1 on every run.
-/
import DfModel.Gen.SR
import DfModel.Proofs.C11
namespace DfModel.Props.C11
open DfModel DfModel.Gen.SR DfModel.Proofs.C11

theorem isPow2_spec {w x : Nat} (h : U.isPow2 w x = true) : ∃ k, k < w ∧ x = 2 ^ k := by
  unfold U.isPow2 at h
  rw [List.any_eq_true] at h
  obtain ⟨k, hk, hx⟩ := h
  exact ⟨k, List.mem_range.mp hk, by simpa using hx⟩

/-- `quotient v r = ⌊v·r / 2^128⌋`, and none of its intermediates overflows its Rust type. -/
theorem quotient_limbs (v r : Nat) (hv : v < 2 ^ 64) (hr : r < 2 ^ 128) :
    quotient v r = v * r / 2 ^ 128 ∧ quotient_noovf v r := by
  have hrl : r % 2 ^ 64 < 2 ^ 64 := Nat.mod_lt _ (Nat.two_pow_pos 64)
  have hrh : r / 2 ^ 64 < 2 ^ 64 := by
    apply Nat.div_lt_of_lt_mul
    have : (2:Nat) ^ 64 * 2 ^ 64 = 2 ^ 128 := by rw [← Nat.pow_add]
    omega
  have hdecomp : r = (r / 2 ^ 64) * 2 ^ 64 + r % 2 ^ 64 := by
    have := Nat.div_add_mod r (2 ^ 64); rw [Nat.mul_comm] at this; omega
  have mul64 : ∀ a b, a < 2 ^ 64 → b < 2 ^ 64 → a * b < 2 ^ 128 := by
    intro a b ha hb
    have : (2:Nat) ^ 64 * 2 ^ 64 = 2 ^ 128 := by rw [← Nat.pow_add]
    cases Nat.eq_zero_or_pos b with
    | inl h0 => subst h0; simp
    | inr hpos =>
      calc a * b < 2 ^ 64 * b := Nat.mul_lt_mul_of_pos_right ha hpos
        _ ≤ 2 ^ 64 * 2 ^ 64 := Nat.mul_le_mul_left _ (by omega)
        _ = 2 ^ 128 := this
  have hlp := mul64 v (r % 2 ^ 64) hv hrl
  have hhp := mul64 v (r / 2 ^ 64) hv hrh
  have hL := limbs v (r % 2 ^ 64) (r / 2 ^ 64) hrl
  rw [← hdecomp] at hL
  -- bounds on the pieces
  have hlpq : v * (r % 2 ^ 64) / 2 ^ 64 < 2 ^ 64 := by
    apply Nat.div_lt_of_lt_mul
    have : (2:Nat) ^ 64 * 2 ^ 64 = 2 ^ 128 := by rw [← Nat.pow_add]
    omega
  have hhpq : v * (r / 2 ^ 64) / 2 ^ 64 < 2 ^ 64 := by
    apply Nat.div_lt_of_lt_mul
    have : (2:Nat) ^ 64 * 2 ^ 64 = 2 ^ 128 := by rw [← Nat.pow_add]
    omega
  have hhpm : v * (r / 2 ^ 64) % 2 ^ 64 < 2 ^ 64 := Nat.mod_lt _ (Nat.two_pow_pos 64)
  have hres : v * r / 2 ^ 128 < 2 ^ 64 := by
    apply Nat.div_lt_of_lt_mul
    have : (2:Nat) ^ 128 * 2 ^ 64 = 2 ^ 64 * 2 ^ 128 := Nat.mul_comm _ _
    rw [this]
    exact Nat.mul_lt_mul_of_lt_of_lt hv hr
  have p64 : (2:Nat) ^ 64 = 18446744073709551616 := by decide
  have p128 : (2:Nat) ^ 128 = 340282366920938463463374607431768211456 := by decide
  have hand : v * (r / 2 ^ 64) % 2 ^ 128 &&& (2 ^ 64 - 1) = v * (r / 2 ^ 64) % 2 ^ 64 := by
    rw [Nat.mod_eq_of_lt hhp, Nat.and_two_pow_sub_one_eq_mod]
  constructor
  · unfold quotient U.cast U.shr U.mul U.add U.band
    simp only [Nat.shiftRight_eq_div_pow]
    rw [Nat.mod_eq_of_lt hrh, hand, Nat.mod_eq_of_lt hhp, Nat.mod_eq_of_lt hlp]
    have hsum : v * (r / 2 ^ 64) % 2 ^ 64 + v * (r % 2 ^ 64) / 2 ^ 64 < 2 ^ 128 := by omega
    rw [Nat.mod_eq_of_lt hsum]
    have hc : (v * (r / 2 ^ 64) % 2 ^ 64 + v * (r % 2 ^ 64) / 2 ^ 64) / 2 ^ 64 < 2 ^ 64 := by
      apply Nat.div_lt_of_lt_mul; omega
    have hsum2 : v * (r / 2 ^ 64) / 2 ^ 64
        + (v * (r / 2 ^ 64) % 2 ^ 64 + v * (r % 2 ^ 64) / 2 ^ 64) / 2 ^ 64 < 2 ^ 128 := by omega
    rw [Nat.mod_eq_of_lt hsum2, ← hL, Nat.mod_eq_of_lt hres]
  · unfold quotient_noovf U.cast U.shr U.mul U.add U.band
    simp only [Nat.shiftRight_eq_div_pow]
    rw [Nat.mod_eq_of_lt hrh, hand, Nat.mod_eq_of_lt hhp, Nat.mod_eq_of_lt hlp]
    have hsum : v * (r / 2 ^ 64) % 2 ^ 64 + v * (r % 2 ^ 64) / 2 ^ 64 < 2 ^ 128 := by omega
    rw [Nat.mod_eq_of_lt hsum]
    have hc : (v * (r / 2 ^ 64) % 2 ^ 64 + v * (r % 2 ^ 64) / 2 ^ 64) / 2 ^ 64 < 2 ^ 64 := by
      apply Nat.div_lt_of_lt_mul; omega
    refine ⟨by omega, hlp, hhp, by omega, hsum, by omega, by omega, ?_⟩
    omega

/-- **C11.**  For every 64-bit hash `v` and every partition count `0 < d < 2^64` the bucket a row
    is appended to by `StrengthReducedU64::new(d).partition_indices` is `v % d`; the constructor
    and the reduction never overflow an intermediate (no debug-build panic). -/
theorem c11_bucket (v d : Nat) (hv : v < 2 ^ 64) (hd : 0 < d) (hd64 : d < 2 ^ 64) :
    partition_indices_bucket (new' d) v = v % d
    ∧ partition_indices_bucket_noovf (new' d) v
    ∧ new'_noovf d ∧ (new' d).wf := by
  by_cases hp : U.isPow2 64 d = true
  · obtain ⟨k, hk, rfl⟩ := isPow2_spec hp
    have h1 : U.sub 64 (2 ^ k) 1 = 2 ^ k - 1 := by
      unfold U.sub
      have : 1 ≤ 2 ^ k := Nat.one_le_two_pow
      rw [show 2 ^ k + 2 ^ 64 - 1 = (2 ^ k - 1) + 2 ^ 64 by omega, Nat.add_mod_right]
      exact Nat.mod_eq_of_lt (by omega)
    have hnew : new' (2 ^ k) = StrengthReducedU64.PowerOfTwo (2 ^ k - 1) := by
      unfold new'; rw [if_pos hp, h1]
    rw [hnew]
    refine ⟨?_, trivial, ?_, ?_⟩
    · simp only [partition_indices_bucket, U.band, Nat.and_two_pow_sub_one_eq_mod]
    · unfold new'_noovf; rw [if_pos hp]; exact Nat.one_le_two_pow
    · simp only [StrengthReducedU64.wf]; omega
  · obtain ⟨e, he, hre⟩ := recip_spec d hd
    have hd2 : 2 ≤ d := by
      rcases Nat.lt_or_ge d 2 with h | h
      · have : d = 1 := by omega
        subst this
        exact absurd (by decide : U.isPow2 64 1 = true) hp
      · exact h
    have hq0 : (2 ^ 128 - 1) / d + 1 < 2 ^ 128 := by
      have : (2 ^ 128 - 1) / d ≤ (2 ^ 128 - 1) / 2 := Nat.div_le_div_left hd2 (by decide)
      omega
    have hr : U.add 128 (U.div 128 (2 ^ 128 - 1) d) 1 = (2 ^ 128 - 1) / d + 1 := by
      unfold U.add U.div; exact Nat.mod_eq_of_lt hq0
    have hnew : new' d = StrengthReducedU64.Reciprocal d ((2 ^ 128 - 1) / d + 1) := by
      unfold new'; rw [if_neg hp, hr]
    rw [hnew]
    obtain ⟨hq, hqn⟩ := quotient_limbs v ((2 ^ 128 - 1) / d + 1) hv hq0
    have hqe := quot_exact v d _ e hd hre he hv hd64
    have hqd : v / d * d ≤ v := Nat.div_mul_le_self v d
    have hmod : v / d * d % 2 ^ 64 = v / d * d := Nat.mod_eq_of_lt (by omega)
    refine ⟨?_, ?_, ?_, ?_⟩
    · simp only [partition_indices_bucket, hq, hqe, U.mul, U.sub, hmod]
      have := Nat.div_add_mod v d
      rw [Nat.mul_comm] at this
      rw [show v + 2 ^ 64 - v / d * d = v % d + 2 ^ 64 by omega, Nat.add_mod_right]
      exact Nat.mod_eq_of_lt (by have := Nat.mod_lt v hd; omega)
    · simp only [partition_indices_bucket_noovf, hq, hqe, U.mul, hmod]
      exact ⟨hqn, by omega, hqd, trivial⟩
    · unfold new'_noovf; rw [if_neg hp]
      exact ⟨by omega, by unfold U.div; exact hq0⟩
    · simp only [StrengthReducedU64.wf]; exact ⟨hd64, hq0⟩

/-- the bucket index is always in range, so `indices[..]` never goes out of bounds. -/
theorem c11_index_lt (v d : Nat) (hv : v < 2 ^ 64) (hd : 0 < d) (hd64 : d < 2 ^ 64) :
    partition_indices_bucket (new' d) v < d := by
  rw [(c11_bucket v d hv hd hd64).1]; exact Nat.mod_lt v hd

/-- the `#[cfg(test)] remainder` helper agrees with the production loop. -/
theorem c11_remainder (v d : Nat) (hv : v < 2 ^ 64) (hd : 0 < d) (hd64 : d < 2 ^ 64) :
    remainder (new' d) v = v % d := by
  have h := (c11_bucket v d hv hd hd64).1
  have : remainder (new' d) v = partition_indices_bucket (new' d) v := by
    unfold remainder partition_indices_bucket; cases new' d <;> rfl
  rw [this, h]

-- non-vacuity: concrete instances of the hypotheses, on both branches
example : partition_indices_bucket (new' 7) (2 ^ 64 - 1) = 1 := by decide
example : partition_indices_bucket (new' 8) 12345 = 1 := by decide

end DfModel.Props.C11
