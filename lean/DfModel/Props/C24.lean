/-
  C24 — Parquet scans with pruning / pushdown return exactly the matching rows.

  Proved: the `RowSelection` algebra against its set-of-indices (mask) meaning, and the refinement
  argument of `ParquetAccessPlan`: sound per-container verdicts (row-group statistics — C22 —, bloom
  filters, page index) combined by `scan_selection`/`intersection`, concatenated by
  `into_overall_row_selection`, followed by late-materialised row filters in any order, lose no
  matching row, and filtering the rows read gives exactly `filter p allRows`.
  Sampled (harness): the real scan — Parquet decoder, metadata reader, statistics, page index and bloom
  filter contents are a trusted crate; their verdicts enter the theorems as the soundness hypotheses.
-/
import DfModel.Mech.AccessPlan
import DfModel.Proofs.C24
namespace DfModel.Props.C24
open DfModel.Mech.AccessPlan DfModel.Proofs.C24

/-- **row_selection_ops_spec.** Each operation of the selection algebra against the mask meaning:
    normalisation (`FromIterator`) keeps the mask; `intersection` is the pointwise AND (the tail of the
    longer selection passes through); `split_off n` is `take n` / `drop n`; `limit k` keeps the mask up to
    the k-th selected row; `offset k` deselects the first k selected rows (or empties the selection if there
    are at most k); `and_then` (when it does not panic) is the composition "other is applied to the
    rows self selected". -/
theorem row_selection_ops_spec (a b : Sel) (n k : Nat) :
    mask (normalize a) = mask a ∧
    mask (intersection a b) = zipTail (mask a) (mask b) ∧
    (mask (splitOff a n).1 = (mask a).take n ∧ mask (splitOff a n).2 = (mask a).drop n) ∧
    mask (limitSel a k) = takeTrues (mask a) k ∧
    mask (offsetSel a k) = (if countTrue (mask a) ≤ k then [] else clearTrues (mask a) k) ∧
    (∀ c, andThen a b = some c → compose (mask a) (mask b) = some (mask c)) :=
  ⟨mask_normalize a, mask_intersection a b, mask_splitOff a n, mask_limit a k, mask_offset a k,
   fun c h => mask_andThen a b c h⟩

/-- what a row group contributes to the scan under an access, given the verdicts that produced it -/
def accessSound {α : Type} (p : α → Bool) (rows : List α) (a : Access) : Prop :=
  soundMask p (accessMask rows.length a) rows = true

/-- `scan_selection` with a sound page-index selection keeps a sound access sound -/
theorem scanSelection_sound {α : Type} (p : α → Bool) (rows : List α) (a : Access) (s : Sel)
    (ha : accessSound p rows a) (hs : soundMask p (mask s) rows = true) :
    accessSound p rows (scanSelection a s) := by
  cases a with
  | skip => exact ha
  | scan => exact hs
  | selection e =>
    simp only [accessSound, scanSelection, accessMask, mask_intersection] at *
    exact soundMask_zipTail p _ _ rows ha hs

/-- **refine_keeps_matching.** If every row group's access is sound (a row group is skipped only when
    none of its rows matches — statistics / bloom filter verdicts —, a page selection deselects no
    matching row), the overall selection of the file keeps every matching row. -/
theorem refine_keeps_matching {α : Type} (p : α → Bool) (groups : List (List α × Access))
    (h : ∀ g ∈ groups, accessSound p g.1 g.2) :
    soundMask p (planMask (groups.map (fun g => (g.1.length, g.2)))) (groups.map (·.1)).flatten = true := by
  induction groups with
  | nil => rfl
  | cons g gs ih =>
    simp only [List.map_cons, planMask, List.flatten_cons]
    exact soundMask_append p _ _ _ _ (h g (by simp)) (ih (fun x hx => h x (by simp [hx])))

/-- **scan_eq_filter_all.** Reading the rows of the final plan and filtering them gives exactly
    "scan everything + filter" -/
theorem scan_eq_filter_all {α : Type} (p : α → Bool) (groups : List (List α × Access))
    (h : ∀ g ∈ groups, accessSound p g.1 g.2) :
    (selectRows (planMask (groups.map (fun g => (g.1.length, g.2)))) (groups.map (·.1)).flatten).filter p
      = ((groups.map (·.1)).flatten).filter p :=
  filter_selectRows p _ _ (refine_keeps_matching p groups h)

/-- **conjunct_reorder_irrelevant.** Late-materialised (error-free) row filters applied one after the
    other give the conjunction, in either order -/
theorem conjunct_reorder_irrelevant {α : Type} (p q : α → Bool) (rows : List α) :
    (rows.filter p).filter q = (rows.filter q).filter p ∧ (rows.filter p).filter q = rows.filter (fun r => p r && q r) := by
  constructor
  · simp only [List.filter_filter]; congr 1; funext r; exact Bool.and_comm _ _
  · simp only [List.filter_filter]; congr 1; funext r; exact Bool.and_comm _ _

/-- a row filter evaluated on the rows a selection kept is the composed selection (`and_then`) -/
theorem late_materialisation {α : Type} (a b c : Sel) (rows : List α) (h : andThen a b = some c)
    (hl : (mask a).length = rows.length) :
    selectRows (mask c) rows = selectRows (mask b) (selectRows (mask a) rows) :=
  selectRows_compose _ _ _ rows (mask_andThen a b c h) hl

/-- skipping a row group is sound exactly under the pruning hypothesis of C22 -/
theorem skip_sound_of_no_match {α : Type} (p : α → Bool) (rows : List α) (h : ∀ r ∈ rows, p r = false) :
    accessSound p rows .skip := soundMask_all_false p rows h

theorem scan_always_sound {α : Type} (p : α → Bool) (rows : List α) : accessSound p rows .scan :=
  soundMask_all_true p rows

/-! ### non-vacuity (tests) -/
example : mask [select 2, skipRun 3, select 1] = [true, true, false, false, false, true] := by decide
example : normalize [select 2, select 0, select 1, skipRun 2, skipRun 1] = [select 3, skipRun 3] := by decide
example : splitOff [select 2, skipRun 3, select 1] 3 = ([select 2, skipRun 1], [skipRun 2, select 1]) := by decide
example : limitSel [skipRun 1, select 2, skipRun 3, select 4] 3 = [skipRun 1, select 2, skipRun 3, select 1] := by decide
-- two row groups, predicate "v = 7": group 1 skipped by statistics, group 2 read through a page selection
example : (selectRows (planMask [(3, Access.skip), (4, Access.selection [skipRun 2, select 2])])
    [1, 2, 3, 5, 6, 7, 7]).filter (· == 7) = [7, 7] := by decide
-- an UNSOUND verdict (skipping a group that contains a match) is rejected by the hypothesis
example : soundMask (· == 7) (accessMask 3 Access.skip) [1, 7, 3] = false := by decide

end DfModel.Props.C24
