/-
  C43 — configuration options round-trip through their text form.

  Model: `DfModel.Text.Config` (per-kind `parse` / `show`, `set` on a keyed configuration with the
  `Option<F>` blanket impl and the `enable_dynamic_filter_pushdown` fan-out, `entries`).

  RESULT.  `parse k (show k v) = v` for every kind and every valid value (decimal text of *all*
  naturals / integers by induction; every enum table by exhaustive check), hence re-setting an
  option from its reported text is the identity — except for the master switch
  `datafusion.optimizer.enable_dynamic_filter_pushdown`, whose `set` also overwrites four other
  options (`set_shown_not_identity_with_fanout`, reproduced on the real code, open finding).
  A rejected value leaves the configuration unchanged, for EVERY option (`invalid_rejected_unchanged`,
  about `set true` = the code after /repo 32d6403).  In the pinned upstream code (`set false`) this
  was false for an `Option<F>` that is currently `None`: the blanket impl left `Some(F::default())`
  behind (`invalid_value_changes_none_option`, kept as the witness of the repaired defect).
-/
import DfModel.Text.Config
import DfModel.Proofs.C43
namespace DfModel.Props.C43
open DfModel.Text.Config DfModel.Proofs.C43

/-- **Decimal text of every natural number parses back** (`usize`, `u64`, `u32` fields). -/
theorem nat_text_roundtrip (max n : Nat) (h : n ≤ max) : parseUnsigned max (showNat n) = some n :=
  parseUnsigned_showNat max n h

/-- **Decimal text of every integer parses back** (`i32`, `i64` fields). -/
theorem int_text_roundtrip (lo hi v : Int) (h1 : lo ≤ v) (h2 : v ≤ hi) :
    parseSigned lo hi (showInt v) = some v :=
  parseSigned_showInt lo hi v h1 h2

/-- **Per kind**: the text a valid value is reported as parses back to exactly that value. -/
theorem parse_show (k : Kind) (v : Val) (t : List Char) (hv : Valid k v) (hs : «show» k v = some t) :
    parse k t = some v :=
  Proofs.C43.parse_show k v t hv hs

/-- executable check that no variant's displayed name is captured by an earlier variant -/
def tableOk (t : EnumTable) : Bool :=
  (List.range t.length).all fun i =>
    match enumShow t i with
    | some c => enumFind c t 0 == some i && trimBlanks c == c
    | none => false

theorem enum_valid (t : EnumTable) (tr : Bool) (h : tableOk t = true) (i : Nat) (hi : i < t.length) :
    Valid (.enum t tr) (.e i) := by
  simp only [tableOk, List.all_eq_true, List.mem_range] at h
  have := h i hi
  cases hc : enumShow t i with
  | none => simp [hc] at this
  | some c =>
    simp only [hc, Bool.and_eq_true, beq_iff_eq] at this
    exact ⟨c, hc, this.1, this.2⟩

/-- every enum of `ConfigOptions` (whole tables, by evaluation): all variants are valid, so each
    variant's `Display` text parses back to the variant -/
theorem enum_tables_ok :
    tableOk dialectTable = true ∧ tableOk spillCompressionTable = true ∧ tableOk mapKeyDedupTable = true
    ∧ tableOk explainFormatTable = true ∧ tableOk metricTypeTable = true
    ∧ tableOk writerVersionTable = true ∧ tableOk durationFormatTable = true := by decide

/-- the statement of the property, first half: re-setting any reported value changes nothing -/
def set_shown_is_identity_statement : Prop :=
  ∀ (cfg : Config) (e : Entry) (t : List Char), e ∈ cfg → (cfg.map (·.key)).Nodup →
    (∀ x ∈ cfg, Valid x.kind x.val) → «show» e.kind e.val = some t → Text.Config.set true cfg e.key t = (cfg, true)

/-- **proved part**: for every option that does not fan out.  Missing: the one option that does
    (`enable_dynamic_filter_pushdown`), for which the statement is false. -/
theorem set_shown_is_identity_partial (cfg : Config) (e : Entry) (t : List Char) (hmem : e ∈ cfg)
    (hnd : (cfg.map (·.key)).Nodup) (hv : Valid e.kind e.val) (hs : «show» e.kind e.val = some t)
    (hf : e.fanout = []) (repaired : Bool := true) : Text.Config.set repaired cfg e.key t = (cfg, true) := by
  unfold Text.Config.set
  rw [find_key_eq cfg e hmem hnd]
  simp only [Proofs.C43.parse_show e.kind e.val t hv hs, hf]
  rw [assign_self cfg e hmem hnd]

/-- master switch `true`, `enable_topk_dynamic_filter_pushdown` individually switched off:
    re-setting the master switch from its own reported text `true` switches topk back on. -/
theorem set_shown_not_identity_with_fanout : ¬ set_shown_is_identity_statement := by
  intro h
  have := h [⟨0, .strictBool, .b true, [1]⟩, ⟨1, .bool, .b false, []⟩] ⟨0, .strictBool, .b true, [1]⟩
    "true".toList (by simp) (by decide) (by
      intro x hx
      simp only [List.mem_cons, List.not_mem_nil, or_false] at hx
      rcases hx with rfl | rfl <;> simp [Valid]) (by decide)
  have h2 := congrArg (fun p => entries p.1) this
  revert h2
  decide

/-- the statement of the property, last part: a rejected value changes nothing -/
def invalid_rejected_unchanged_statement (repaired : Bool) : Prop :=
  ∀ (cfg : Config) (key : Nat) (t : List Char),
    (Text.Config.set repaired cfg key t).2 = false → (Text.Config.set repaired cfg key t).1 = cfg

/-- **C43, last part, in full for the current code** (after /repo 32d6403): whatever the
    configuration, key and text — unknown key, any kind, `Option<F>` currently `None` included — a
    `set` that returns an error leaves the whole configuration exactly as it was. -/
theorem invalid_rejected_unchanged : invalid_rejected_unchanged_statement true := by
  intro cfg key t h
  unfold Text.Config.set at h ⊢
  cases hf : cfg.find? (fun e => e.key == key) with
  | none => rfl
  | some e =>
    simp only [hf] at h ⊢
    cases hp : parse e.kind t with
    | some v => simp [hp] at h
    | none => simp

/-- the same for the upstream code, restricted to options that are not a currently-`None`
    `Option<F>` (this was all that held before the repair) -/
theorem invalid_rejected_unchanged_partial (cfg : Config) (key : Nat) (t : List Char)
    (hopt : ∀ e ∈ cfg, e.key = key → ∀ k, e.kind = .opt k → e.val ≠ .none)
    (h : (Text.Config.set false cfg key t).2 = false) : (Text.Config.set false cfg key t).1 = cfg := by
  unfold Text.Config.set at h ⊢
  cases hf : cfg.find? (fun e => e.key == key) with
  | none => rfl
  | some e =>
    have hmem : e ∈ cfg := List.mem_of_find?_eq_some hf
    have hkey : e.key = key := by simpa using List.find?_some hf
    simp only [hf] at h ⊢
    cases hp : parse e.kind t with
    | some v => simp [hp] at h
    | none =>
      simp only [hp, Bool.false_eq_true, if_false]
      split
      · rename_i k hk hv
        exact absurd hv (hopt e hmem hkey k hk)
      · rfl

/-- **the repaired defect** (upstream code, `set false`): `bloom_filter_ndv: Option<u64>` is `None`;
    `SET … = 'abc'` is rejected, and afterwards the option reports `0`. -/
theorem invalid_value_changes_none_option : ¬ invalid_rejected_unchanged_statement false := by
  intro h
  have := h [⟨0, .opt (.uint (2 ^ 64 - 1)), .none, []⟩] 0 "abc".toList (by decide)
  have h2 := congrArg entries this
  revert h2
  decide

/-- …and the same history on the repaired code leaves the option unset. -/
example : entries (Text.Config.set true [⟨0, .opt (.uint (2 ^ 64 - 1)), .none, []⟩] 0 "abc".toList).1
    = [(0, none)] := by decide

/-- **`datafusion.explain.analyze_categories`**: every value the option can hold without adjacent
    duplicates among `All`, `Only([])` and `Only(l)` for all 64 ordered selections of distinct
    categories (so all 16 subsets, in every order) is reported as a text that parses back to exactly
    that value — in particular the full list does NOT collapse to `All`.  By evaluation of the whole table. -/
theorem categories_roundtrip : ∀ v ∈ allCats, parseCats (showCats v) = some v := by decide

example : allCats.length = 66 := by decide
example : showCats (.only [0, 1, 2, 3]) = "rows,bytes,timing,uncategorized".toList := by decide
-- what `dedup` does to a held value with adjacent duplicates: its text parses to a different list
example : parseCats (showCats (.only [0, 0])) = some (.only [0]) := by decide
example : parseCats " Rows , BYTES,rows ".toList = some (.only [0, 1, 0]) ∧ parseCats "rows,".toList = none := by decide

/-! ### non-vacuity -/

example : showNat 1234 = "1234".toList := by
  rw [showNat]; simp; rw [showNat]; simp; rw [showNat]; simp; rw [showNat]; simp; decide
example : parse (.uint (2 ^ 64 - 1)) (showNat 18446744073709551615) = some (.n 18446744073709551615) :=
  parse_show _ (.n _) _ (by simp [Valid]) rfl
example : parse (.uint (2 ^ 64 - 1)) "18446744073709551616".toList = none := by decide
example : parse (.int (-(2 ^ 31)) (2 ^ 31 - 1)) (showInt (-2147483648)) = some (.i (-2147483648)) :=
  parse_show _ (.i _) _ (by simp [Valid]) rfl
example : parse .bool "TRUE".toList = some (.b true) ∧ parse .strictBool "TRUE".toList = none := by decide
example : parse (.enum dialectTable false) "Postgres".toList = some (.e 2)
    ∧ «show» (.enum dialectTable false) (.e 2) = some "postgresql".toList := by decide
example : Valid (.enum spillCompressionTable false) (.e 2) :=
  enum_valid _ _ enum_tables_ok.2.1 2 (by decide)
-- a table in which an alias of an earlier variant shadows a later canonical name is rejected
example : tableOk (tbl [["a", "b"], ["b"]]) = false := by decide

end DfModel.Props.C43
