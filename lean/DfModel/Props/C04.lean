/-
  C04 — expression simplification never changes a value.

  Rule models: each theorem is one rewrite `lhs ⟶ rhs` of `expr_simplifier.rs` / `utils.rs` /
  `unwrap_cast.rs` (datafusion/optimizer/src/simplify_expressions), stated as
  `Refines lhs rhs`: on every row on which `lhs` evaluates without error, `rhs` evaluates to the
  same value, NULL included.  NULL-sensitive rules carry exactly the guard the code has
  (`!info.nullable(A)` ↦ `NonNull A`), and for each of them a kernel-checked witness shows that
  the rule is FALSE without the guard.  What the engine's simplifier actually outputs is compared
  with its input by exhaustive evaluation on a small domain in the correspondence (harness c04.rs).
-/
import DfModel.Mech.Simplify
namespace DfModel.Props.C04
open DfModel DfModel.Simp

macro "unfold_eval" : tactic =>
  `(tactic| simp only [eval_bin, eval_not, eval_neg, eval_lit, eval_is, eval_cast, eval_between, eval_inList,
      evalList_nil, evalList_cons] at *)
macro "ev_simp" : tactic =>
  `(tactic| simp_all [bind, Except.bind, pure, Except.pure, okB, evalBin, evalNot, evalNeg, evalIs, Val.isNull,
      Tri.ofVal?, Tri.or, Tri.and, Tri.not, Tri.toVal, Tri.ofBool, sameKind, ordIs, eqNullSafe, eqTri, inListTri,
      cmpVal, cmpBool, cmpInt_laws.refl, cmpChars_laws.refl, Except.map])

/-- one operand: split on error / NULL / int / false / true / string -/
macro "cases1" a:term : tactic =>
  `(tactic| (cases ha : $a with
    | error e => ev_simp
    | ok x => rcases x with _ | ⟨w, s, n⟩ | ⟨_ | _⟩ | cs <;> ev_simp <;> (try rfl)))

/-- two operands -/
macro "cases2" a:term "," b:term : tactic =>
  `(tactic| (cases ha : $a with
    | error e => ev_simp
    | ok x =>
      cases hb : $b with
      | error e => ev_simp
      | ok y =>
        rcases x with _ | ⟨w, s, n⟩ | ⟨_ | _⟩ | cs <;> rcases y with _ | ⟨w', s', n'⟩ | ⟨_ | _⟩ | cs' <;> ev_simp <;> (try rfl)))

/-! ## `A = A` -/

/-- `A = A ⟶ A IS NOT NULL OR NULL` (TRUE for a non-NULL value, NULL for NULL — never FALSE) -/
theorem eq_self (a : Expr) : Refines (.bin .eq a a) (.bin .or (.is .null true a) (.lit .null)) := by
  intro ρ env h; unfold_eval; cases1 (eval a ρ env)

/-- `A = A ⟶ true` under the guard "A not nullable" -/
theorem eq_self_nonnull (a : Expr) (hn : NonNull a) : Refines (.bin .eq a a) (.lit (.bool true)) := by
  intro ρ env h; have := hn ρ env; unfold_eval; cases1 (eval a ρ env)

/-- … and the guard is needed: for a NULL column `A = A` is NULL, not TRUE -/
theorem eq_self_unguarded_unsound : ¬ Refines (.bin .eq (.col 0) (.col 0)) (.lit (.bool true)) := by
  intro h
  have := h [.null] {} (by decide)
  revert this; decide

/-! ## comparisons with boolean literals -/

theorem eq_true (a : Expr) : Refines (.bin .eq a (.lit (.bool true))) a := by
  intro ρ env h; unfold_eval; cases1 (eval a ρ env)
theorem eq_false (a : Expr) : Refines (.bin .eq a (.lit (.bool false))) (.not a) := by
  intro ρ env h; unfold_eval; cases1 (eval a ρ env)
theorem ne_true (a : Expr) : Refines (.bin .ne a (.lit (.bool true))) (.not a) := by
  intro ρ env h; unfold_eval; cases1 (eval a ρ env)
theorem ne_false (a : Expr) : Refines (.bin .ne a (.lit (.bool false))) a := by
  intro ρ env h; unfold_eval; cases1 (eval a ρ env)

/-! ## AND / OR with literals, complements (guarded) -/

theorem or_true (a : Expr) : Refines (.bin .or a (.lit (.bool true))) (.lit (.bool true)) := by
  intro ρ env h; unfold_eval; cases1 (eval a ρ env)
theorem or_false (a : Expr) : Refines (.bin .or a (.lit (.bool false))) a := by
  intro ρ env h; unfold_eval; cases1 (eval a ρ env)
theorem and_true (a : Expr) : Refines (.bin .and a (.lit (.bool true))) a := by
  intro ρ env h; unfold_eval; cases1 (eval a ρ env)
theorem and_false (a : Expr) : Refines (.bin .and a (.lit (.bool false))) (.lit (.bool false)) := by
  intro ρ env h; unfold_eval; cases1 (eval a ρ env)

/-- `A OR NOT A ⟶ true` only when `A` cannot be NULL -/
theorem or_not_self (a : Expr) (hn : NonNull a) : Refines (.bin .or a (.not a)) (.lit (.bool true)) := by
  intro ρ env h; have := hn ρ env; unfold_eval; cases1 (eval a ρ env)
/-- `A AND NOT A ⟶ false` only when `A` cannot be NULL -/
theorem and_not_self (a : Expr) (hn : NonNull a) : Refines (.bin .and a (.not a)) (.lit (.bool false)) := by
  intro ρ env h; have := hn ρ env; unfold_eval; cases1 (eval a ρ env)

theorem and_not_self_unguarded_unsound :
    ¬ Refines (.bin .and (.col 0) (.not (.col 0))) (.lit (.bool false)) := by
  intro h
  have := h [.null] {} (by decide)
  revert this; decide

/-- absorption: `A OR (A AND B) ⟶ A`, `A AND (A OR B) ⟶ A` hold in Kleene logic without any guard -/
theorem or_absorb (a b : Expr) : Refines (.bin .or a (.bin .and a b)) a := by
  intro ρ env h; unfold_eval; cases2 (eval a ρ env), (eval b ρ env)
theorem and_absorb (a b : Expr) : Refines (.bin .and a (.bin .or a b)) a := by
  intro ρ env h; unfold_eval; cases2 (eval a ρ env), (eval b ρ env)

/-! ## negation: De Morgan, `Operator::negate`, IS [NOT] -/

theorem not_not (a : Expr) : Refines (.not (.not a)) a := by
  intro ρ env h; unfold_eval; cases1 (eval a ρ env)
theorem not_and_demorgan (a b : Expr) : Refines (.not (.bin .and a b)) (.bin .or (.not a) (.not b)) := by
  intro ρ env h; unfold_eval; cases2 (eval a ρ env), (eval b ρ env)
theorem not_or_demorgan (a b : Expr) : Refines (.not (.bin .or a b)) (.bin .and (.not a) (.not b)) := by
  intro ρ env h; unfold_eval; cases2 (eval a ρ env), (eval b ρ env)

/-- the comparison table: the negated operator holds exactly when the operator does not -/
theorem ordIs_negate (op op' : BinOp) (h : negateOp op = some op') (hc : op ≠ .distinct ∧ op ≠ .notDistinct)
    (o : Ordering) : ordIs op' o = !ordIs op o := by
  cases op <;> simp [negateOp] at h <;> subst h <;> cases o <;> simp_all [ordIs]

/-- on values: negating a comparison's result = applying the negated operator (NULL stays NULL,
    ill-typed stays ill-typed) -/
theorem evalBin_negate (op op' : BinOp) (x y : Val) (h : negateOp op = some op') :
    (evalBin op x y >>= evalNot) = evalBin op' x y := by
  cases op <;> simp [negateOp] at h <;> subst h <;>
    rcases x with _ | ⟨w, s, n⟩ | ⟨_ | _⟩ | cs <;> rcases y with _ | ⟨w', s', n'⟩ | ⟨_ | _⟩ | cs' <;>
    simp [bind, Except.bind, evalBin, evalNot, sameKind, eqNullSafe, Except.map, Tri.ofVal?, Tri.not, Tri.toVal,
      cmpVal, cmpBool, ordIs] <;>
    first
    | rfl
    | (generalize cmpInt n n' = o; cases o <;> rfl)
    | (generalize cmpChars cs cs' = o; cases o <;> rfl)
    | skip

/-- `NOT (a op b) ⟶ a negate(op) b` for every operator that `Operator::negate` maps
    (= ≠ < ≤ > ≥, IS [NOT] DISTINCT FROM): NULL operands give NULL on both sides for the
    three-valued comparisons, and the two-valued DISTINCT forms swap exactly -/
theorem not_cmp_negate (op op' : BinOp) (a b : Expr) (h : negateOp op = some op') :
    Refines (.not (.bin op a b)) (.bin op' a b) := by
  intro ρ env hok
  unfold_eval
  cases ha : eval a ρ env with
  | error e => ev_simp
  | ok x =>
    cases hb : eval b ρ env with
    | error e => ev_simp
    | ok y =>
      simp only [bind, Except.bind]
      exact (evalBin_negate op op' x y h).symm

/-- `NOT (A IS [NOT] k) ⟶ A IS [NOT]' k` -/
theorem not_is (k : IsKind) (n : Bool) (a : Expr) : Refines (.not (.is k n a)) (.is k (!n) a) := by
  intro ρ env h; unfold_eval
  cases k <;> cases n <;> cases1 (eval a ρ env)

/-! ## BETWEEN -/

theorem between_expand (a lo hi : Expr) :
    Refines (.between false a lo hi) (.bin .and (.bin .ge a lo) (.bin .le a hi)) := by
  intro ρ env h
  unfold_eval
  cases ha : eval a ρ env with
  | error e => ev_simp
  | ok x =>
    cases hl : eval lo ρ env with
    | error e => ev_simp
    | ok l =>
      cases hh : eval hi ρ env with
      | error e => ev_simp
      | ok u =>
        simp only [ha, hl, hh, bind, Except.bind, pure, Except.pure] at h ⊢
        cases h1 : evalBin .ge x l with
        | error e => simp [h1, okB] at h
        | ok c1 =>
          cases h2 : evalBin .le x u with
          | error e => simp
          | ok c2 => cases h3 : evalBin .and c1 c2 <;> simp [h3]

/-! ## arithmetic identities (integers) -/

theorem wrap_wf (w : Nat) (s : Bool) (n : Int) (h : Val.wf (.int w s n) = true) : wrapInt w s n = n := by
  simp only [Val.wf, Bool.and_eq_true, decide_eq_true_eq] at h
  exact wrapInt_of_inRange w s n h.1 h.2

theorem wrap_zero (w : Nat) (s : Bool) (hw : 0 < w) : wrapInt w s 0 = 0 := by
  apply wrapInt_of_inRange w s 0 hw
  have hp : (0 : Int) < 2 ^ (w - 1) := Int.pow_pos (by decide)
  have hp2 : (0 : Int) < 2 ^ w := Int.pow_pos (by decide)
  cases s <;> simp [inRange, intMin, intMax] <;> omega

/-- `A * 1 ⟶ A` (A of the literal's integer type, holding in-range values) -/
theorem mul_one (a : Expr) (w : Nat) (s : Bool) (hwf : Wf a) :
    Refines (.bin .mul a (.lit (.int w s 1))) a := by
  intro ρ env h
  unfold_eval
  cases ha : eval a ρ env with
  | error e => ev_simp
  | ok x =>
    have hx := hwf ρ env x ha
    rcases x with _ | ⟨w', s', n⟩ | ⟨_ | _⟩ | cs
    · ev_simp
    · simp only [ha, bind, Except.bind, evalBin] at h ⊢
      by_cases hws : w' = w ∧ s' = s
      · obtain ⟨rfl, rfl⟩ := hws
        simp [wrap_wf _ _ _ hx]
      · simp [hws, okB] at h
    · ev_simp
    · ev_simp
    · ev_simp

/-- `A / 1 ⟶ A` -/
theorem div_one (a : Expr) (w : Nat) (s : Bool) : Refines (.bin .div a (.lit (.int w s 1))) a := by
  intro ρ env h
  unfold_eval
  cases ha : eval a ρ env with
  | error e => ev_simp
  | ok x =>
    rcases x with _ | ⟨w', s', n⟩ | ⟨_ | _⟩ | cs
    · ev_simp
    · simp only [ha, bind, Except.bind, evalBin] at h ⊢
      by_cases hws : w' = w ∧ s' = s
      · obtain ⟨rfl, rfl⟩ := hws
        simp [intDiv]
      · simp [hws, okB] at h
    · ev_simp
    · ev_simp
    · ev_simp

/-- `A * 0 ⟶ 0` only when `A` cannot be NULL (NULL * 0 is NULL) -/
theorem mul_zero (a : Expr) (w : Nat) (s : Bool) (hw : 0 < w) (hn : NonNull a) :
    Refines (.bin .mul a (.lit (.int w s 0))) (.lit (.int w s 0)) := by
  intro ρ env h
  have := hn ρ env
  unfold_eval
  cases ha : eval a ρ env with
  | error e => ev_simp
  | ok x =>
    rcases x with _ | ⟨w', s', n⟩ | ⟨_ | _⟩ | cs
    · ev_simp
    · simp only [ha, bind, Except.bind, evalBin] at h ⊢
      by_cases hws : w' = w ∧ s' = s
      · obtain ⟨rfl, rfl⟩ := hws
        simp [wrap_zero _ _ hw]
      · simp [hws, okB] at h
    · ev_simp
    · ev_simp
    · ev_simp

theorem mul_zero_unguarded_unsound :
    ¬ Refines (.bin .mul (.col 0) (.lit (.int 64 true 0))) (.lit (.int 64 true 0)) := by
  intro h
  have := h [.null] {} (by decide)
  revert this; decide

/-- `A % 1 ⟶ 0` only when `A` cannot be NULL -/
theorem mod_one (a : Expr) (w : Nat) (s : Bool) (hn : NonNull a) :
    Refines (.bin .mod a (.lit (.int w s 1))) (.lit (.int w s 0)) := by
  intro ρ env h
  have := hn ρ env
  unfold_eval
  cases ha : eval a ρ env with
  | error e => ev_simp
  | ok x =>
    rcases x with _ | ⟨w', s', n⟩ | ⟨_ | _⟩ | cs
    · ev_simp
    · simp only [ha, bind, Except.bind, evalBin] at h ⊢
      by_cases hws : w' = w ∧ s' = s
      · obtain ⟨rfl, rfl⟩ := hws
        simp [intMod]
      · simp [hws, okB] at h
    · ev_simp
    · ev_simp
    · ev_simp

/-! ## IN lists -/

/-- `NULL IN (non-empty list) ⟶ NULL` -/
theorem null_in_list (l : List Expr) (n : Bool) (hne : l ≠ []) :
    Refines (.inList n (.lit .null) l) (.lit .null) := by
  intro ρ env h
  unfold_eval
  cases hl : evalList l ρ env with
  | error e => ev_simp
  | ok vs =>
    have hvs : vs ≠ [] := by
      intro e; subst e
      cases l with
      | nil => exact hne rfl
      | cons x xs =>
        rw [evalList_cons] at hl
        simp only [bind, Except.bind, pure, Except.pure] at hl
        split at hl
        · cases hl
        · split at hl <;> cases hl
    have key : ∀ vs : List Val, vs ≠ [] → inListTri .null vs = .ok .u := by
      intro vs
      induction vs with
      | nil => intro h; exact absurd rfl h
      | cons v vs ih =>
        intro _
        cases vs with
        | nil => simp [inListTri, eqTri, bind, Except.bind, pure, Except.pure, Tri.or]
        | cons v2 vs2 =>
          have := ih (by simp)
          simp only [inListTri, eqTri, bind, Except.bind, pure, Except.pure] at this ⊢
          simp only [this]
          rfl
    simp only [hl, key vs hvs, bind, Except.bind, pure, Except.pure]
    cases n <;> rfl

/-! ## unwrapping casts in comparisons -/

/-- `CAST(c AS wide) op lit ⟶ c op lit'` where `lit'` is the literal in `c`'s own (narrower) type:
    sound for every comparison operator when the cast cannot fail, i.e. `c`'s type `(w, s)` fits in
    the cast's target `(W, S)` — whether written CAST or TRY_CAST. -/
theorem unwrap_cast_cmp (op : BinOp) (hop : op = .eq ∨ op = .ne ∨ op = .lt ∨ op = .le ∨ op = .gt ∨ op = .ge)
    (c : Expr) (w : Nat) (s : Bool) (W : Nat) (S : Bool) (try_ : Bool) (m : Int)
    (hc : HasIntTy c w s) (hfit : ∀ n, inRange w s n = true → inRange W S n = true) :
    Refines (.bin op (.cast (.int W S) try_ c) (.lit (.int W S m))) (.bin op c (.lit (.int w s m))) := by
  intro ρ env h
  unfold_eval
  cases ha : eval c ρ env with
  | error e => ev_simp
  | ok x =>
    rcases hc ρ env x ha with rfl | ⟨n, rfl, hn⟩
    · rcases hop with rfl | rfl | rfl | rfl | rfl | rfl <;>
        simp [bind, Except.bind, evalCast, castVal, evalBin]
    · have := hfit n hn
      rcases hop with rfl | rfl | rfl | rfl | rfl | rfl <;>
        simp [bind, Except.bind, evalCast, castVal, evalBin, this, sameKind, cmpVal]

/-- The same rewrite applied to a NARROWING `TRY_CAST` is unsound: `TRY_CAST(c AS INT) = 5` is NULL
    for `c = 2^40` (the cast fails → NULL), the rewritten `c = 5` is FALSE.
    (`unwrap_cast.rs` does not check the direction of the cast — see notes/C04.md.) -/
theorem unwrap_try_cast_narrowing_unsound :
    ¬ Refines (.bin .eq (.cast (.int 32 true) true (.col 0)) (.lit (.int 32 true 5)))
              (.bin .eq (.col 0) (.lit (.int 64 true 5))) := by
  intro h
  have := h [.int 64 true 1099511627776] {} (by decide)
  revert this; decide

example : eval (.bin .eq (.cast (.int 32 true) true (.col 0)) (.lit (.int 32 true 5))) [.int 64 true 1099511627776] = .ok .null := by
  decide

end DfModel.Props.C04
