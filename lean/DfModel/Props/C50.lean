/-
  C50 — queries accepted over unbounded inputs keep producing results.

  PARTIAL BY NATURE: "eventually delivered" is a liveness statement about the runtime; what is
  proved here is (A) the prefix semantics is monotone — nothing delivered for a prefix is ever
  retracted or reordered by more input — and each operator's progress law (when exactly a row
  determined by a prefix is due), and (B) the acceptance test is sound for the modelled operator
  set: an accepted plan contains no operator that must see the end of an unbounded input.
  The converse of (B) is FALSE for the code (it rejects more), shown by a witness.
-/
import DfModel.Mech.Streaming
namespace DfModel.Props.C50
open DfModel.Mech.Streaming

/-! ## A. prefix semantics -/

theorem aggGo_append (xs ys : List Row) : ∀ g : Option Row,
    aggGo g (xs ++ ys) = aggGo g xs ++ aggGo (aggOpen g xs) ys := by
  induction xs with
  | nil => intro g; cases g <;> simp [aggGo, aggOpen]
  | cons r rs ih =>
    intro g
    cases g with
    | none => simp [aggGo, aggOpen, ih]
    | some g =>
      by_cases h : r.k = g.k <;> simp [aggGo, aggOpen, h, ih]

theorem take_prefix {α} {l1 l2 : List α} (h : l1 <+: l2) (n : Nat) : l1.take n <+: l2.take n := by
  obtain ⟨t, rfl⟩ := h
  rw [List.take_append]
  exact ⟨_, rfl⟩

/-- **prefix_monotone.** For every UNION-free query shape: what the query must have delivered
    after a prefix `xs` of the input is a prefix of what it must have delivered after any longer
    prefix `ys` — nothing delivered is ever wrong later, whatever rows follow. -/
theorem prefix_monotone (op : Op) (hl : linear op = true) {xs ys : List Row} (h : xs <+: ys) :
    out op xs <+: out op ys := by
  induction op with
  | source => exact h
  | filter lo i ih => exact List.IsPrefix.filter _ (ih (by simpa [linear] using hl))
  | project a i ih => exact List.IsPrefix.map _ (ih (by simpa [linear] using hl))
  | limit n i ih => exact take_prefix (ih (by simpa [linear] using hl)) n
  | agg i ih =>
    obtain ⟨t, ht⟩ := ih (by simpa [linear] using hl)
    simp only [out, ← ht, aggGo_append]
    exact ⟨_, rfl⟩
  | union a b _ _ => simp [linear] at hl

/-- with UNION ALL (inputs interleave freely) the delivered rows still only grow: the rows due
    after `xs` are a sub-sequence of the rows due after `ys`, for every covered shape -/
theorem sublist_monotone (op : Op) (hc : covered op = true) {xs ys : List Row} (h : xs <+: ys) :
    (out op xs).Sublist (out op ys) := by
  induction op with
  | source => exact h.sublist
  | filter lo i ih => exact List.Sublist.filter _ (ih (by simpa [covered] using hc))
  | project a i ih => exact List.Sublist.map _ (ih (by simpa [covered] using hc))
  | limit n i _ =>
    simp only [covered, Bool.and_eq_true] at hc
    exact (prefix_monotone (.limit n i) (by simpa [linear] using hc.2) h).sublist
  | agg i _ =>
    simp only [covered, Bool.and_eq_true] at hc
    exact (prefix_monotone (.agg i) (by simpa [linear] using hc.1.2) h).sublist
  | union a b iha ihb =>
    simp only [covered, Bool.and_eq_true] at hc
    exact List.Sublist.append (iha hc.1) (ihb hc.2)

/-- **progress** (general form): the rows due after `xs` are exactly the first rows due after any
    extension — so a consumer that has received them never has to wait for the end of input -/
theorem progress (op : Op) (hl : linear op = true) {xs ys : List Row} (h : xs <+: ys) :
    (out op ys).take (out op xs).length = out op xs := by
  obtain ⟨t, ht⟩ := prefix_monotone op hl h
  rw [← ht]; simp

/-- a row passing the filter is due as soon as it has arrived -/
theorem filter_immediate (lo : Int) (xs : List Row) (r : Row) (h : lo ≤ r.v) :
    out (.filter lo .source) (xs ++ [r]) = out (.filter lo .source) xs ++ [r] := by
  simp [out, List.filter_append, h]

theorem project_immediate (a : Int) (xs : List Row) (r : Row) :
    out (.project a .source) (xs ++ [r]) = out (.project a .source) xs ++ [⟨r.k, r.v + a⟩] := by
  simp [out]

/-- a group is due exactly when the ordering key advances: appending one row `r` closes the open
    group iff `r.k` differs from it, and closes nothing else -/
theorem agg_emits_on_key_advance (xs : List Row) (r : Row) :
    out (.agg .source) (xs ++ [r]) = out (.agg .source) xs ++
      (match aggOpen none xs with
       | some g => if r.k = g.k then [] else [g]
       | none => []) := by
  simp only [out, aggGo_append]
  cases hg : aggOpen none xs with
  | none => simp [aggGo]
  | some g => by_cases h : r.k = g.k <;> simp [aggGo, h]

/-- once LIMIT n is reached the answer is final -/
theorem limit_final (n : Nat) (i : Op) (hl : linear i = true) {xs ys : List Row} (h : xs <+: ys)
    (hn : n ≤ (out i xs).length) : out (.limit n i) ys = out (.limit n i) xs := by
  obtain ⟨t, ht⟩ := prefix_monotone i hl h
  simp only [out, ← ht]
  rw [List.take_append_of_le_length hn]

/-! ### the filter's output coalescer: a liveness gap in the code as it is

`filter_immediate` says when a passing row is DUE.  The real `FilterExec` hands rows on only in
completed batches (`filterDelivered`), so a passing row that is followed only by rows that do not
pass is never delivered, however long the input continues.  The property ("rows passing a filter
… eventually delivered while the input continues") is therefore false for the code as it is;
`filter_coalescer_starves` is the kernel-checked witness on the model, the harness reproduces it on
the real operator (oracle `held-back`, known finding). -/

theorem filter_replicate_fail (lo : Int) (n : Nat) (r : Row) (h : ¬ lo ≤ r.v) :
    (List.replicate n r).filter (fun x => decide (lo ≤ x.v)) = [] := by
  induction n with
  | zero => rfl
  | succ n ih => simp [List.replicate_succ, List.filter_cons, h, ih]

/-- what the property demands of a filter: every due row is delivered after SOME further input -/
def filter_progress_statement (bs : Nat) : Prop :=
  ∀ (lo : Int) (xs : List Row) (f : Nat → Row), ∃ n,
    (out (.filter lo .source) xs).length ≤
      (filterDelivered bs lo (xs ++ (List.range n).map f)).length

theorem filter_coalescer_starves (bs : Nat) (hbs : 2 ≤ bs) (lo : Int) (r q : Row) (hr : lo ≤ r.v)
    (hq : ¬ lo ≤ q.v) (n : Nat) :
    out (.filter lo .source) ([r] ++ List.replicate n q) = [r] ∧
    filterDelivered bs lo ([r] ++ List.replicate n q) = [] := by
  have ho : out (.filter lo .source) ([r] ++ List.replicate n q) = [r] := by
    simp [out, List.filter_cons, hr, filter_replicate_fail lo n q hq]
  refine ⟨ho, ?_⟩
  simp only [filterDelivered, ho, List.length_singleton]
  have : 1 / bs = 0 := Nat.div_eq_of_lt (by omega)
  simp [this]

/-- the demanded progress law is FALSE for every batch size ≥ 2 (with batch size 1 it holds) -/
theorem filter_progress_fails (bs : Nat) (hbs : 2 ≤ bs) : ¬ filter_progress_statement bs := by
  intro h
  obtain ⟨n, hn⟩ := h 0 [⟨0, 0⟩] (fun _ => ⟨1, -1⟩)
  have hrep : (List.range n).map (fun _ => (⟨1, -1⟩ : Row)) = List.replicate n ⟨1, -1⟩ := by
    simp [List.map_const']
  rw [hrep, (filter_coalescer_starves bs hbs 0 ⟨0, 0⟩ ⟨1, -1⟩ (by decide) (by decide) n).2] at hn
  simp [out] at hn

-- tests / non-vacuity
example : out (.agg (.filter 0 .source)) [⟨1, 5⟩, ⟨1, -2⟩, ⟨1, 3⟩, ⟨2, 7⟩, ⟨3, 1⟩, ⟨3, 1⟩]
    = [⟨1, 8⟩, ⟨2, 7⟩] := by decide
example : out (.limit 2 (.project 10 .source)) [⟨1, 5⟩, ⟨1, 6⟩, ⟨2, 7⟩] = [⟨1, 15⟩, ⟨1, 16⟩] := by decide
/-- LIMIT over a UNION is not covered because it is NOT monotone in this sense -/
example : ¬ (out (.limit 1 (.union (.filter 5 .source) .source)) [⟨1, 1⟩]).Sublist
            (out (.limit 1 (.union (.filter 5 .source) .source)) [⟨1, 1⟩, ⟨2, 9⟩]) := by decide

/-! ## B. boundedness × emission algebra and the acceptance test -/

theorem bndGo_spec (bs : List Bnd) : ∀ seen : Bool,
    bndGo seen bs = if Bnd.unbounded true ∈ bs then .unbounded true
                    else if seen || decide (Bnd.unbounded false ∈ bs) then .unbounded false else .bounded := by
  induction bs with
  | nil => intro seen; cases seen <;> simp [bndGo]
  | cons b bs ih =>
    intro seen
    cases b with
    | bounded => simp [bndGo, ih]
    | unbounded m => cases m <;> cases seen <;> simp [bndGo, ih]

/-- `boundedness_from_children` is the maximum under bounded < unbounded(finite mem) <
    unbounded(infinite mem), for any number of children in any order -/
theorem bndFromChildren_spec (bs : List Bnd) :
    bndFromChildren bs = if Bnd.unbounded true ∈ bs then .unbounded true
                         else if Bnd.unbounded false ∈ bs then .unbounded false else .bounded := by
  simp [bndFromChildren, bndGo_spec]

theorem emiGo_spec (es : List Emi) : ∀ seen : Bool,
    emiGo seen es = if Emi.final ∈ es then .final
                    else if seen || decide (Emi.both ∈ es) then .both else .incremental := by
  induction es with
  | nil => intro seen; cases seen <;> simp [emiGo]
  | cons e es ih => intro seen; cases e <;> cases seen <;> simp [emiGo, ih]

/-- `emission_type_from_children` is the maximum under incremental < both < final -/
theorem emiFromChildren_spec (es : List Emi) :
    emiFromChildren es = if Emi.final ∈ es then .final
                         else if Emi.both ∈ es then .both else .incremental := by
  simp [emiFromChildren, emiGo_spec]

/-- the whole acceptance table (finite: proved by `decide`) -/
theorem nodeAccepted_table :
    ∀ (b : Bnd) (e : Emi), nodeAccepted b e = false ↔
      (b = .unbounded true ∨ (b = .unbounded false ∧ e = .final)) := by
  intro b e
  cases b with
  | bounded => cases e <;> decide
  | unbounded m => cases m <;> cases e <;> decide

theorem unb_pair (a b : Bnd) :
    (bndFromChildren [a, b]).isUnbounded = (a.isUnbounded || b.isUnbounded) := by
  cases a with
  | bounded => cases b with
    | bounded => rfl
    | unbounded m => cases m <;> rfl
  | unbounded m => cases m <;> cases b with
    | bounded => rfl
    | unbounded m' => cases m' <;> rfl

theorem rejected_of_unb_final (b : Bnd) (h : b.isUnbounded = true) : nodeAccepted b .final = false := by
  cases b with
  | bounded => simp [Bnd.isUnbounded] at h
  | unbounded m => cases m <;> rfl

mutual
/-- **accepted_sound.** A plan that `SanityCheckPlan` accepts contains no operator that can only
    answer at the end of an unbounded input (unsatisfied sort, hash aggregation, unbounded-frame
    window, cross join) — for every plan over the modelled operators. -/
theorem accepted_sound : (p : Plan) → accepted p = true → needsEnd p = false
  | .stream _, _ => rfl
  | .mem, _ => rfl
  | .pass i, h => by
      simp only [accepted, Bool.and_eq_true] at h
      simpa [needsEnd] using accepted_sound i h.1
  | .limit i, h => by
      simp only [accepted, Bool.and_eq_true] at h
      simpa [needsEnd] using accepted_sound i h.1
  | .sort sat f i, h => by
      simp only [accepted, Bool.and_eq_true] at h
      have hi := accepted_sound i h.1
      cases sat with
      | true => simp [needsEnd, hi]
      | false =>
        simp only [needsEnd, hi, Bool.false_or, Bool.not_false, Bool.true_and]
        cases hb : (props i).1 with
        | bounded => rfl
        | unbounded m =>
          have := h.2
          simp [props, hb, nodeAccepted] at this
  | .agg lin i, h => by
      simp only [accepted, Bool.and_eq_true] at h
      have hi := accepted_sound i h.1
      cases lin with
      | false => simp [needsEnd, hi]
      | true =>
        simp only [needsEnd, hi, Bool.false_or, Bool.true_and]
        cases hb : (props i).1.isUnbounded with
        | false => rfl
        | true =>
          have := h.2
          simp only [props, if_true] at this
          rw [rejected_of_unb_final _ hb] at this
          cases this
  | .windowAgg i, h => by
      simp only [accepted, Bool.and_eq_true] at h
      have hi := accepted_sound i h.1
      simp only [needsEnd, hi, Bool.false_or]
      cases hb : (props i).1.isUnbounded with
      | false => rfl
      | true =>
        have := h.2
        simp only [props] at this
        rw [rejected_of_unb_final _ hb] at this
        cases this
  | .union is, h => by
      simp only [accepted, Bool.and_eq_true] at h
      simpa [needsEnd] using acceptedL_sound is h.1
  | .cross l r, h => by
      simp only [accepted, Bool.and_eq_true] at h
      have hl := accepted_sound l h.1.1
      have hr := accepted_sound r h.1.2
      simp only [needsEnd, hl, hr, Bool.false_or]
      cases hb : ((props l).1.isUnbounded || (props r).1.isUnbounded) with
      | false => simpa using hb
      | true =>
        have := h.2
        simp only [props] at this
        rw [rejected_of_unb_final _ (by rw [unb_pair]; exact hb)] at this
        cases this
theorem acceptedL_sound : (ps : List Plan) → acceptedL ps = true → needsEndL ps = false
  | [], _ => rfl
  | p :: ps, h => by
      simp only [acceptedL, Bool.and_eq_true] at h
      simp [needsEndL, accepted_sound p h.1, acceptedL_sound ps h.2]
end

/-- the statement DESIGN.md hoped for — acceptance IFF no operator needs the end of an unbounded
    input — is kept here as a definition … -/
def rejected_iff_needs_end_statement : Prop := ∀ p : Plan, accepted p = true ↔ needsEnd p = false

/-- … its "only if" half is `accepted_sound`; the "if" half is FALSE for the code: a UNION ALL of
    a sorted bounded table with an endless stream is rejected (emission `Final` of the bounded
    branch wins in `emission_type_from_children`, boundedness `Unbounded` of the other) although
    nothing has to wait for the end of the stream.  The property allows rejecting more. -/
theorem over_rejection_witness : ¬ rejected_iff_needs_end_statement := by
  intro h
  have := (h (.union [.sort false false .mem, .stream true])).mpr (by decide)
  revert this
  decide

-- tests: the shapes of the property's quantifier
example : accepted (.pass (.pass (.stream true))) = true := by decide                       -- filter/project
example : accepted (.union [.pass (.stream true), .stream true]) = true := by decide         -- union
example : accepted (.agg false (.pass (.stream true))) = true := by decide                   -- ordered aggregation
example : accepted (.agg true (.stream true)) = false := by decide                           -- hash aggregation
example : accepted (.sort false false (.stream true)) = false := by decide                   -- ORDER BY unsorted
example : accepted (.sort false true (.stream true)) = false := by decide                    -- TopK over unsorted
example : accepted (.sort true true (.stream true)) = true := by decide                      -- ORDER BY satisfied
example : accepted (.sort false false (.limit (.stream true))) = true := by decide           -- sort after LIMIT
example : accepted (.limit (.agg true (.stream true))) = false := by decide                  -- LIMIT does not rescue
example : accepted (.windowAgg (.stream true)) = false := by decide
example : accepted (.cross .mem (.stream true)) = false := by decide

end DfModel.Props.C50
