/-
  C18 — memory-limited queries are exact or fail cleanly, and release everything.

  Model: `Mech/ReserveOrSpill.lean` — the external sort (`ExternalSorter` + `MultiLevelMergeBuilder`)
  run against an adversarial environment: every `try_grow` may be denied (`grant`), every spill write
  may hit the disk limit (`diskOk`), the stream may be dropped at every await point (`cancel`).
  The theorems quantify over ALL environments, configurations, size functions and inputs.
  The other spilling operators (aggregation, sort-merge join, nested-loop join, repartition) are
  covered by the implementation-level oracle of the harness only (see notes/C18.md).
-/
import DfModel.Mech.ReserveOrSpill
import DfModel.Proofs.C18b
namespace DfModel.Props.C18
open DfModel.Mech.ReserveOrSpill DfModel.Proofs.C18

/-- **exact or resources.** With any pool oracle and any disk oracle (no cancellation), the
    external sort returns exactly the sorted input, or fails with `ResourcesExhausted` — never a
    wrong result, never an internal error / panic (`split().unwrap()`, `assert_eq!` on the
    reservation size, "Should be called after `spill_append`", …). Termination (no hang) is
    built in: `run` is a total function (the multi-level merge's recursion is well-founded). -/
theorem extSort_exact_or_resources (cfg : Cfg) (env : Env) (hc : ∀ n, env.cancel n = false)
    (input : List Batch) :
    (run cfg env input).1 = .rows (sortRows input.flatten) ∨ (run cfg env input).1 = .err .resources := by
  have h := extSort_spec cfg env input
  unfold run
  cases hr : extSort cfg env input {} with
  | ok out t => rw [hr] at h; simp only [sat_ok] at h; left; simp [h]
  | fail e t =>
    rw [hr] at h; simp only [sat_fail] at h
    rcases h with h | ⟨_, n, hn⟩
    · right; simp [h]
    · rw [hc n] at hn; cases hn

/-- the same with cancellation allowed: the only additional outcome is "dropped", and only when the
    environment really dropped the stream -/
theorem extSort_exact_or_resources_or_dropped (cfg : Cfg) (env : Env) (input : List Batch) :
    (run cfg env input).1 = .rows (sortRows input.flatten) ∨ (run cfg env input).1 = .err .resources ∨
    ((run cfg env input).1 = .err .cancelled ∧ ∃ n, env.cancel n = true) := by
  have h := extSort_spec cfg env input
  unfold run
  cases hr : extSort cfg env input {} with
  | ok out t => rw [hr] at h; simp only [sat_ok] at h; left; simp [h]
  | fail e t =>
    rw [hr] at h; simp only [sat_fail] at h
    rcases h with h | ⟨h, hn⟩
    · right; left; simp [h]
    · right; right; exact ⟨by simp [h], hn⟩

/-- no environment can drive the operator into one of its panics / internal errors -/
theorem never_internal (cfg : Cfg) (env : Env) (input : List Batch) :
    (run cfg env input).1 ≠ .err .internal := by
  rcases extSort_exact_or_resources_or_dropped cfg env input with h | h | ⟨h, _⟩ <;> rw [h] <;> simp

/-- the rows of a successful run are sorted and a permutation of the input -/
theorem rows_sorted_perm (cfg : Cfg) (env : Env) (input : List Batch) (xs : List Row)
    (h : (run cfg env input).1 = .rows xs) : Sorted xs ∧ xs.Perm input.flatten := by
  rcases extSort_exact_or_resources_or_dropped cfg env input with h' | h' | ⟨h', _⟩ <;> rw [h'] at h
  · cases h; exact ⟨sorted_sortRows _, sortRows_perm _⟩
  · cases h
  · cases h

/-- **ledger invariant at the end.** Whatever happened — finished, failed at any `try_grow` / spill
    write, or dropped at any await point — the pool's counter equals the sum of the reservations
    the operator (or its output stream) still holds, the number of live temp files equals the
    number of spill files it holds, and no counter ever underflowed. -/
theorem ledger_consistent (cfg : Cfg) (env : Env) (input : List Batch) :
    LInv (run cfg env input).2 := linv_run cfg env input

/-- **ledger balanced.** Once the operator / its output stream is dropped (each reservation frees its
    own size, each spill file it holds is deleted), `pool.reserved() = 0`, no temp file is left, and
    no counter underflowed — for every pool oracle, every disk oracle, every drop point. -/
theorem ledger_balanced (cfg : Cfg) (env : Env) (input : List Batch) :
    (dropAll (run cfg env input).2).pool = 0 ∧ (dropAll (run cfg env input).2).disk = 0 ∧
    (dropAll (run cfg env input).2).bad = false :=
  dropAll_zero _ (linv_run cfg env input)

/-! ### non-vacuity (tests on concrete environments) -/

def cfgEx : Cfg :=
  { sz := fun b => 10 + 2 * b.length, msz := fun b => 5 + b.length, batchSize := 3, spillReserve := 7,
    inPlaceThreshold := 30, fanIn := 2, diskEnabled := true }
def inpEx : List Batch := [[5, 3, 9], [1, 8], [], [7, 7, 2, 0], [4], [6, -1]]


/-- an environment satisfying the hypothesis of `extSort_exact_or_resources` -/
def envDenyAll : Env := { grant := fun _ => false, diskOk := fun _ => true, cancel := fun _ => false }
example : ∀ n, envDenyAll.cancel n = false := fun _ => rfl

-- (tests, by kernel evaluation) the `Err Resources` branch is taken when the pool denies the first
-- request, the `dropped` branch when the stream is dropped at the first await point …
example : (run cfgEx envDenyAll inpEx).1 = .err .resources := by decide
example : (run cfgEx { grant := fun _ => true, diskOk := fun _ => true, cancel := fun n => n == 0 } inpEx).1
    = .err .cancelled := by decide
-- the building blocks on concrete data
example : chunks 3 [1, 2, 3, 4, 5, 6, 7] = [[1, 2, 3], [4, 5, 6], [7]] := by decide
example : halveRun [[1, 2, 3, 4, 5], [6]] = [[1, 2], [3, 4, 5], [6]] := by decide
example : shrinkAll 10 [3, 4, 3] = (0, false) ∧ shrinkAll 10 [3, 8] = (7, true) := by decide
-- (the rows branch, with spills and a multi-level merge, is exercised through the compiled driver:
--  `C18 extsort …` requests in the correspondence run; `decide` cannot unfold `List.mergeSort`.)

end DfModel.Props.C18
