/-
  C38 — SQL generated from a plan means the same as the plan.

  The unparser (datafusion/sql/src/unparser, ~9 k lines) and the SQL planner it feeds are NOT
  modelled; the property is checked on the real code by translation validation (harness:
  plan_to_sql → text → SessionContext::sql in a fresh session → both plans executed, rows and
  logical types compared; other dialects' text must parse).  What Lean carries is the judge that
  compares the exported plan BEFORE and AFTER (`judge_sound`, from C35): the answer `same` means
  equal results on EVERY database.  The re-planned statement typically differs from the original
  plan only by aliases and derived-table wrappers — which the positional export removes — and by
  the re-spellings normalised by `normPlan` (e.g. an explicit `LIMIT` node without skip/fetch).

  "For all plans the unparser accepts" is SAMPLED by the harness.
-/
import DfModel.Sql.Judge
import DfModel.Proofs.C35Beq
import DfModel.Proofs.C35Plan
namespace DfModel.Props.C38
open DfModel DfModel.Judge

theorem judge_sound (p q : Plan) (h : normPlan p = normPlan q) (db : Db) (env : Env) :
    evalPlan p db env = evalPlan q db env := by
  rw [← Proofs.C35Plan.normPlan_eval db p env, ← Proofs.C35Plan.normPlan_eval db q env, h]

theorem same_sound (p q : Plan) (h : same p q = true) (db : Db) (env : Env) :
    evalPlan p db env = evalPlan q db env :=
  judge_sound p q (Proofs.C35Beq.beqPlan_sound _ _ h) db env

/-- an explicit no-op `LIMIT` (skip 0, no fetch) that a re-planned statement may gain or lose does
    not change any result -/
theorem noop_limit_exact (p : Plan) (db : Db) (env : Env) : evalPlan (.limit 0 none p) db env = evalPlan p db env := by
  have h := Proofs.C35Plan.normPlan_eval db (.limit 0 none p) env
  simp only [normPlan, mkLimit] at h
  rw [← h, Proofs.C35Plan.normPlan_eval db p env]

/-- but a LIMIT that does cut is seen by the semantics (the judge's conclusion is not vacuous) -/
example : evalPlan (.limit 0 (some 1) (.values 1 [[.null], [.null]])) {} ≠ evalPlan (.values 1 [[.null], [.null]]) {} := by decide

end DfModel.Props.C38
