/-
  C15 (fine-grained addendum) — what changes when `Drop for DistributionSender` is not atomic.

  `Sm.ChanFine` splits the last-sender drop into `fetch_sub` and the later locked region.  If the
  receiver of the same (empty) channel is dropped in between, NEITHER side decrements
  `empty_channels` (the receiver sees `n_senders == 0`, the sender then sees `data == None`), so
  the counter stays one too high for ever: the gate can never close again (lost back-pressure,
  unbounded buffering on the remaining channels).  It is the harmless direction for liveness — the
  counter is never too LOW, so no sender is blocked without reason — and it does not contradict
  any of the four claims of property C15; it contradicts the documented meaning of
  `empty_channels` ("number of open, empty channels; gate closed when 0").

  Proved here: the split refines the coarse operation when nothing interleaves; the witness; a
  finite table over all interleavings of one last-sender drop with one receiver drop.  The
  universal statement for the two-phase model is kept as `fine_counter_statement` (not proved).
-/
import DfModel.Sm.ChanFine
import DfModel.Proofs.C15
namespace DfModel.Props.C15Fine
open DfModel.Sm.Chan DfModel.Sm.ChanFine DfModel.Proofs.C15

/-- with nothing in between, begin + finish is exactly the coarse (atomic) `dropTx` -/
theorem split_drop_refines_coarse (s : St) (c : Nat) (hc : c < s.n) (h1 : (s.chan c).nSenders = 1) :
    (frun ⟨s, []⟩ [.dropTxBegin c, .dropTxFinish c]).2 = [⟨.done, []⟩, (step s (.dropTx c)).2] ∧
    (frun ⟨s, []⟩ [.dropTxBegin c, .dropTxFinish c]).1.s.empty = (step s (.dropTx c)).1.empty ∧
    (frun ⟨s, []⟩ [.dropTxBegin c, .dropTxFinish c]).1.s.sendWakers = (step s (.dropTx c)).1.sendWakers ∧
    (∀ i, (frun ⟨s, []⟩ [.dropTxBegin c, .dropTxFinish c]).1.s.chan i = (step s (.dropTx c)).1.chan i) ∧
    (frun ⟨s, []⟩ [.dropTxBegin c, .dropTxFinish c]).1.fin = [] := by
  simp only [frun, fstep, step, hc, h1, Nat.lt_irrefl, if_false, List.contains_cons, beq_self_eq_true,
    Bool.true_or, if_true, finishDrop, dropSender, Nat.lt_succ_self, and_self, Nat.sub_self,
    setChan_chan_same, gt_iff_lt]
  cases hw : (s.chan c).recvWakers with
  | none => simp [setChan]
  | some ws =>
    by_cases hd : (s.chan c).data = some []
    · simp [hd, setChan]
    · simp [hd, setChan]

/-- **witness.** `channels(2)`; the only sender of channel 0 starts to drop (`fetch_sub` → 0), the
    receiver of channel 0 is dropped, the sender drop finishes.  Channel 1 is the only open-and-empty
    channel (true count 1) but `empty_channels` is 2. -/
theorem drop_race_leaks_counter :
    let f := (frun (finit 2) [.dropTxBegin 0, .atomic (.dropRx 0), .dropTxFinish 0]).1
    f.s.empty = 2 ∧ trueCount f.s = 1 ∧ f.fin = [] := by decide

/-- … consequently the gate never closes again: channel 1 accepts any number of elements although
    every open channel is non-empty (the atomic order blocks the second send) -/
theorem drop_race_loses_backpressure :
    ((frun (finit 2) [.dropTxBegin 0, .atomic (.dropRx 0), .dropTxFinish 0,
        .atomic (.send 1 0 7), .atomic (.send 1 0 8), .atomic (.send 1 0 9)]).2.map (·.res))
      = [.done, .done, .done, .sendOk, .sendOk, .sendOk] ∧
    ((frun (finit 2) [.dropTxBegin 0, .dropTxFinish 0, .atomic (.dropRx 0),
        .atomic (.send 1 0 7), .atomic (.send 1 0 8)]).2.map (·.res))
      = [.done, .done, .done, .sendOk, .sendPending] := by decide

/-- finite table (a test over all interleavings of ONE last-sender drop with ONE receiver drop of
    the same channel, queue empty or not): the counter is never below the true count, and exceeds
    it only in the interleaving begin / dropRx / finish on an empty queue -/
theorem drop_race_table :
    let scheds : List (List FOp) :=
      [[.dropTxBegin 0, .dropTxFinish 0, .atomic (.dropRx 0)],
       [.dropTxBegin 0, .atomic (.dropRx 0), .dropTxFinish 0],
       [.atomic (.dropRx 0), .dropTxBegin 0, .dropTxFinish 0]]
    let pre : List (List FOp) := [[], [.atomic (.send 0 0 7)]]
    (pre.flatMap (fun p => scheds.map (fun sc =>
        let f := (frun (finit 2) (p ++ sc)).1
        (f.s.empty, trueCount f.s)))) = [(1, 1), (2, 1), (1, 1), (1, 1), (1, 1), (1, 1)] := by decide

/-- the statement one would like for the two-phase model (NOT proved; what is missing: the
    invariant proof of `Proofs/C15.lean` redone with `nSenders = 0 ↔ recvWakers = none ∨ c ∈ fin`):
    the counter never undercounts, and a closed gate still means counter 0 — which is all the
    no-lost-wakeup argument needs. -/
def fine_counter_statement : Prop :=
  ∀ (n : Nat) (ops : List FOp), n ≤ usizeMax →
    let f := (frun (finit n) ops).1
    trueCount f.s ≤ f.s.empty ∧ (f.s.sendWakers ≠ none → f.s.empty = 0)

/-- exactness of the counter, true for the coarse model (`Props.C15.gate_counter_exact`), is FALSE
    for the two-phase model -/
theorem fine_counter_not_exact :
    ¬ (∀ (ops : List FOp), ((frun (finit 2) ops).1.s.empty = trueCount (frun (finit 2) ops).1.s)) := by
  intro h
  have := h [.dropTxBegin 0, .atomic (.dropRx 0), .dropTxFinish 0]
  revert this
  decide

/-- partial: on histories without a split drop (every op atomic) the two-phase model is the coarse
    model, so all of `Props.C15` applies -/
theorem fine_counter_partial (n : Nat) (hn : n ≤ usizeMax) (ops : List Op) :
    let f := (frun (finit n) (ops.map .atomic)).1
    f.s.empty = trueCount f.s ∧ f.fin = [] := by
  have key : ∀ (s : St) (ops : List Op),
      (frun ⟨s, []⟩ (ops.map .atomic)).1 = ⟨(run s ops).1, []⟩ := by
    intro s ops
    induction ops generalizing s with
    | nil => rfl
    | cons op ops ih =>
      simp only [List.map_cons, frun, fstep, run]
      exact ih _
  have hk := key (init n) ops
  show (frun (finit n) (ops.map .atomic)).1.s.empty = trueCount (frun (finit n) (ops.map .atomic)).1.s ∧
    (frun (finit n) (ops.map .atomic)).1.fin = []
  unfold finit
  rw [hk]
  exact ⟨(inv_run _ ops (inv_init n hn)).core.cnt, rfl⟩

/-! ### "never too LOW" — the direction that matters for deadlocks

  A counter that is too low closes the gate although an open channel is empty; the senders of the
  other channels then park while that channel's sender and receiver wait for each other.  For the
  two-phase-drop model the counter can only be too HIGH (see above).  The universal statement is
  `fine_counter_never_low` below; it is NOT proved (same missing invariant as
  `fine_counter_statement`, of which it is the first half).  What is kernel-checked here is the
  statement for all two-phase histories of length ≤ 3 (full alphabet) and ≤ 4 (core alphabet) over
  two channels (bounded tests, 2 955 + 11 111 histories), and the real code is probed for it by the race sweeps of `harness/hplan/src/rt15.rs`. -/

/-- the counter never undercounts the open-and-empty channels, under every interleaving of the two
    phases of a sender drop with everything else -/
def fine_counter_never_low : Prop :=
  ∀ (n : Nat) (ops : List FOp), n ≤ usizeMax →
    trueCount (frun (finit n) ops).1.s ≤ (frun (finit n) ops).1.s.empty

/-- alphabet of the bounded check (one waiter id / value per op is enough: neither influences the
    counter) -/
def alphabet2 : List FOp :=
  [0, 1].flatMap (fun c =>
    [.atomic (.send c c 7), .atomic (.recv c (2 + c)), .atomic (.clone c), .atomic (.dropTx c),
     .atomic (.dropRx c), .dropTxBegin c, .dropTxFinish c])

/-- the same without `clone` and without the atomic sender drop (= begin; finish back to back) -/
def alphabet2core : List FOp :=
  [0, 1].flatMap (fun c =>
    [.atomic (.send c c 7), .atomic (.recv c (2 + c)), .atomic (.dropRx c), .dropTxBegin c,
     .dropTxFinish c])

def seqsOver (al : List FOp) : Nat → List (List FOp)
  | 0 => [[]]
  | k + 1 => [] :: al.flatMap (fun a => (seqsOver al k).map (a :: ·))

def seqsUpTo (k : Nat) : List (List FOp) := seqsOver alphabet2 k

def neverLowOn (ops : List FOp) : Bool :=
  let f := (frun (finit 2) ops).1
  decide (trueCount f.s ≤ f.s.empty) && (f.s.sendWakers.isNone || f.s.empty == 0)

/-- bounded test of `fine_counter_never_low` (and of "gate closed ⇒ counter 0"): every two-phase
    history of length ≤ 3 over two channels with the full alphabet (2 955 histories), and of length
    ≤ 4 with the core alphabet send / recv / dropRx / dropTxBegin / dropTxFinish (11 111 histories) -/
theorem fine_counter_never_low_upto3 : (seqsUpTo 3).all neverLowOn = true := by decide +kernel

theorem fine_counter_never_low_core_upto4 : (seqsOver alphabet2core 4).all neverLowOn = true := by
  decide +kernel

/-- … while "never too HIGH" already fails at length 3 (the witness above) -/
theorem fine_counter_too_high_at3 :
    (seqsUpTo 3).any (fun ops => let f := (frun (finit 2) ops).1; decide (trueCount f.s < f.s.empty)) = true := by
  decide +kernel

end DfModel.Props.C15Fine
