/-
  C45 — Components passed through the foreign-function interface behave as native.

  PARTIAL BY NATURE (level `translation_validation`): the substance of the property is ABI
  marshalling and memory safety of the `FFI_*` wrappers, which no Lean model here exhibits.  What is
  proved is the table part: every field-less enum that crosses the FFI boundary is converted by a
  pair of `From` impls; those impls are REGENERATED from datafusion/ffi/src/**.rs by translator T2 on
  every run (`DfModel.Gen.Ffi*`), and the theorems below say that each pair is a bijection that
  preserves the variant (so no declared property — volatility, insert mode, table type, emission
  type, filter push-down class, expression placement, metric type/category, ratio merge strategy,
  aggregate order sensitivity — is altered by wrapping).  The behavioural half (wrapped functions
  and tables give the same results, schemas and failures) is an implementation-level oracle in the
  harness: native vs foreign, no model.
-/
import DfModel.Gen.FfiInsertOp
import DfModel.Gen.FfiVolatility
import DfModel.Gen.FfiPlanProps
import DfModel.Gen.FfiTableSource
import DfModel.Gen.FfiPlacement
import DfModel.Gen.FfiMetrics
import DfModel.Gen.FfiUdaf
namespace DfModel.Props.C45
open DfModel.Gen.FfiInsertOp DfModel.Gen.FfiVolatility DfModel.Gen.FfiPlanProps DfModel.Gen.FfiTableSource
open DfModel.Gen.FfiPlacement DfModel.Gen.FfiMetrics DfModel.Gen.FfiUdaf

/-- **native → FFI → native is the identity** for every generated enum pair (whole domain). -/
theorem ffi_enum_roundtrip :
    (∀ x, conv_FFI_InsertOp_InsertOp (conv_InsertOp_FFI_InsertOp x) = x) ∧
    (∀ x, conv_FFI_Volatility_Volatility (conv_Volatility_FFI_Volatility x) = x) ∧
    (∀ x, conv_FFI_EmissionType_EmissionType (conv_EmissionType_FFI_EmissionType x) = x) ∧
    (∀ x, conv_FFI_TableType_TableType (conv_TableType_FFI_TableType x) = x) ∧
    (∀ x, conv_FFI_TableProviderFilterPushDown_TableProviderFilterPushDown
            (conv_TableProviderFilterPushDown_FFI_TableProviderFilterPushDown x) = x) ∧
    (∀ x, conv_FFI_ExpressionPlacement_ExpressionPlacement (conv_ExpressionPlacement_FFI_ExpressionPlacement x) = x) ∧
    (∀ x, conv_FFI_MetricType_MetricType (conv_MetricType_FFI_MetricType x) = x) ∧
    (∀ x, conv_FFI_MetricCategory_MetricCategory (conv_MetricCategory_FFI_MetricCategory x) = x) ∧
    (∀ x, conv_FFI_RatioMergeStrategy_RatioMergeStrategy (conv_RatioMergeStrategy_FFI_RatioMergeStrategy x) = x) ∧
    (∀ x, conv_FFI_AggregateOrderSensitivity_AggregateOrderSensitivity
            (conv_AggregateOrderSensitivity_FFI_AggregateOrderSensitivity x) = x) := by
  refine ⟨?_, ?_, ?_, ?_, ?_, ?_, ?_, ?_, ?_, ?_⟩ <;> intro x <;> cases x <;> rfl

/-- **FFI → native → FFI is the identity** too (the wrapper enum has no extra variant). -/
theorem ffi_enum_roundtrip_back :
    (∀ x, conv_InsertOp_FFI_InsertOp (conv_FFI_InsertOp_InsertOp x) = x) ∧
    (∀ x, conv_Volatility_FFI_Volatility (conv_FFI_Volatility_Volatility x) = x) ∧
    (∀ x, conv_EmissionType_FFI_EmissionType (conv_FFI_EmissionType_EmissionType x) = x) ∧
    (∀ x, conv_TableType_FFI_TableType (conv_FFI_TableType_TableType x) = x) ∧
    (∀ x, conv_TableProviderFilterPushDown_FFI_TableProviderFilterPushDown
            (conv_FFI_TableProviderFilterPushDown_TableProviderFilterPushDown x) = x) ∧
    (∀ x, conv_ExpressionPlacement_FFI_ExpressionPlacement (conv_FFI_ExpressionPlacement_ExpressionPlacement x) = x) ∧
    (∀ x, conv_MetricType_FFI_MetricType (conv_FFI_MetricType_MetricType x) = x) ∧
    (∀ x, conv_MetricCategory_FFI_MetricCategory (conv_FFI_MetricCategory_MetricCategory x) = x) ∧
    (∀ x, conv_RatioMergeStrategy_FFI_RatioMergeStrategy (conv_FFI_RatioMergeStrategy_RatioMergeStrategy x) = x) ∧
    (∀ x, conv_AggregateOrderSensitivity_FFI_AggregateOrderSensitivity
            (conv_FFI_AggregateOrderSensitivity_AggregateOrderSensitivity x) = x) := by
  refine ⟨?_, ?_, ?_, ?_, ?_, ?_, ?_, ?_, ?_, ?_⟩ <;> intro x <;> cases x <;> rfl

/-- **The conversion keeps the variant's name** (it is not merely a bijection: `Stable` stays
    `Stable`, `Overwrite` stays `Overwrite`, …). -/
theorem ffi_enum_preserves_name :
    (∀ x, (conv_InsertOp_FFI_InsertOp x).name = x.name) ∧
    (∀ x, (conv_Volatility_FFI_Volatility x).name = x.name) ∧
    (∀ x, (conv_EmissionType_FFI_EmissionType x).name = x.name) ∧
    (∀ x, (conv_TableType_FFI_TableType x).name = x.name) ∧
    (∀ x, (conv_TableProviderFilterPushDown_FFI_TableProviderFilterPushDown x).name = x.name) ∧
    (∀ x, (conv_ExpressionPlacement_FFI_ExpressionPlacement x).name = x.name) ∧
    (∀ x, (conv_MetricType_FFI_MetricType x).name = x.name) ∧
    (∀ x, (conv_MetricCategory_FFI_MetricCategory x).name = x.name) ∧
    (∀ x, (conv_RatioMergeStrategy_FFI_RatioMergeStrategy x).name = x.name) ∧
    (∀ x, (conv_AggregateOrderSensitivity_FFI_AggregateOrderSensitivity x).name = x.name) := by
  refine ⟨?_, ?_, ?_, ?_, ?_, ?_, ?_, ?_, ?_, ?_⟩ <;> intro x <;> cases x <;> rfl

/-- `to` is injective (a consequence of the round trip), stated for the record. -/
theorem ffi_volatility_injective (x y : Volatility)
    (h : conv_Volatility_FFI_Volatility x = conv_Volatility_FFI_Volatility y) : x = y := by
  have := congrArg conv_FFI_Volatility_Volatility h
  rwa [ffi_enum_roundtrip.2.1, ffi_enum_roundtrip.2.1] at this

-- non-vacuity / tests
example : conv_Volatility_FFI_Volatility .Stable = .Stable := rfl
example : Volatility.all.length = 3 ∧ InsertOp.all.length = 3 ∧ ExpressionPlacement.all.length = 4 := by decide

end DfModel.Props.C45
