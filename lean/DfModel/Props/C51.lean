/-
  C51 — the command-line client splits scripts at semicolons outside literals / quoted
  identifiers, and its CSV / TSV / JSON / NDJSON encodings can be parsed back.

  Models: `Text.Split` (split_from_semicolon as coded + specification lexer), `Text.Csv`
  (csv-core writer as configured by arrow-csv + reference reader), `Text.Json` (serde_json string
  escaping + reference string decoder).
-/
import DfModel.Text.Split
import DfModel.Text.Csv
import DfModel.Text.Json
import DfModel.Proofs.C51Split
import DfModel.Proofs.C51Csv
import DfModel.Proofs.C51Json
namespace DfModel.Props.C51
open DfModel.Text

/-! ### (a) statement splitting -/

/-- **The toggle automaton of `split_from_semicolon` is the SQL lexer.**  For every script
    (any characters, unterminated literals included) the statements it produces are exactly
    those of the specification lexer that tracks `'…'` literals with `''` escapes and `"…"`
    identifiers with `""` escapes: a doubled quote toggles twice, a quote of the other kind
    inside a literal does not toggle. -/
theorem split_eq_spec (s : List Char) : Split.splitFromSemicolon s = Split.specSplit s :=
  (Proofs.C51Split.go_eq_spec s.length s (Nat.le_refl _) []).1

/-- **Nothing but white space and semicolons is lost, duplicated or reordered**: the
    significant characters of the pieces, in order, are those of the script. -/
theorem split_preserves_content (s : List Char) :
    (Split.splitFromSemicolon s).flatten.filter Split.significant = s.filter Split.significant := by
  have := Proofs.C51Split.go_content s false false []
  simpa [Split.splitFromSemicolon] using this

/-- every piece is a non-blank trimmed statement followed by one `;` (no empty statements) -/
theorem split_pieces_wellformed (s : List Char) :
    ∀ p ∈ Split.splitFromSemicolon s, ∃ x, p = Split.trim x ++ [';'] ∧ Split.trim x ≠ [] := by
  intro p hp
  obtain ⟨x, hx, hne⟩ := Proofs.C51Split.go_pieces s false false [] p hp
  exact ⟨x, hx, by intro h; simp [h] at hne⟩

-- non-vacuity / tests: semicolons inside literals and quoted identifiers, doubled quotes,
-- a quote of the other kind inside a literal, blank statements, unterminated literal
example : Split.splitFromSemicolon "select ';' ; select \"a;b\" ;; x".toList
    = ["select ';';".toList, "select \"a;b\";".toList, "x;".toList] := by decide
example : Split.splitFromSemicolon "select 'it''s;' ; select '\";' ; 'open ; x".toList
    = ["select 'it''s;';".toList, "select '\";';".toList, "'open ; x;".toList] := by decide

/-! ### (b) CSV / TSV -/

/-- **CSV/TSV text round trip**: for every table of strings (any characters: delimiters, quotes,
    CR, LF, empty strings, non-ASCII), every row having at least one column, the reference
    reader applied to the writer's output returns the table. -/
theorem csv_roundtrip (d : Char) (hd : Proofs.C51Csv.DelimOk d) (rows : List (List (List Char)))
    (hne : ∀ r ∈ rows, r ≠ []) : Csv.decodeRecords d (Csv.encodeRecords d rows) = rows :=
  Proofs.C51Csv.records_roundtrip d hd rows hne

theorem csv_roundtrip_comma (rows : List (List (List Char))) (hne : ∀ r ∈ rows, r ≠ []) :
    Csv.decodeRecords ',' (Csv.encodeRecords ',' rows) = rows :=
  csv_roundtrip ',' Proofs.C51Csv.delimOk_comma rows hne

theorem tsv_roundtrip (rows : List (List (List Char))) (hne : ∀ r ∈ rows, r ≠ []) :
    Csv.decodeRecords '\t' (Csv.encodeRecords '\t' rows) = rows :=
  csv_roundtrip '\t' Proofs.C51Csv.delimOk_tab rows hne

/-- The property for result sets with NULLs: the output determines the result set. -/
def csv_cells_faithful_statement (d : Char) : Prop :=
  ∀ rows rows' : List (List (Option (List Char))),
    Csv.encodeCells d rows = Csv.encodeCells d rows' → rows = rows'

/-- proved part: parsing the output yields every cell's text, NULL read as the empty string -/
theorem csv_cells_roundtrip_partial (d : Char) (hd : Proofs.C51Csv.DelimOk d)
    (rows : List (List (Option (List Char)))) (hne : ∀ r ∈ rows, r ≠ []) :
    Csv.decodeRecords d (Csv.encodeCells d rows) = rows.map (·.map Csv.cellText) := by
  unfold Csv.encodeCells
  apply csv_roundtrip d hd
  intro r hr
  simp only [List.mem_map] at hr
  obtain ⟨r0, h0, rfl⟩ := hr
  have := hne r0 h0
  intro h
  exact this (by simpa using h)

/-- **…and the full statement is false**: a NULL string and an empty string print the same, in
    every position (alone in a row the record is `""`, otherwise an empty field). -/
theorem csv_null_empty_collision (d : Char) : ¬ csv_cells_faithful_statement d := by
  intro h
  have := h [[none]] [[some []]] (by simp [Csv.encodeCells, Csv.cellText])
  simp at this

example : Csv.encodeCells ',' [[some "a,b".toList, none, some "say \"hi\"\n".toList], [some [], some "é".toList, none]]
    = "\"a,b\",,\"say \"\"hi\"\"\n\"\n,é,\n".toList := by decide
example : Csv.encodeCells ',' [[none]] = "\"\"\n".toList := by decide

/-! ### (c) JSON strings -/

/-- **JSON string round trip**: for every string (quotes, backslashes, all control characters,
    non-ASCII) the reference JSON string decoder applied to the escaped text returns the string
    and stops exactly after the closing quote. -/
theorem json_string_roundtrip (s rest : List Char) :
    Json.decodeString (Json.encodeString s ++ rest) = some (s, rest) :=
  Proofs.C51Json.decodeString_encodeString s rest

/-- the escaped text never contains a raw control character (so an NDJSON line is one line) -/
theorem json_escaped_printable (s : List Char) : ∀ x ∈ Json.escapeBody s, 32 ≤ x.toNat := by
  intro x hx
  simp only [Json.escapeBody, List.mem_flatMap] at hx
  obtain ⟨c, _, hc⟩ := hx
  exact Proofs.C51Json.escapeChar_printable c x hc

example : Json.encodeString ['a', '"', '\\', '\n', Char.ofNat 1, 'é'] = "\"a\\\"\\\\\\n\\u0001é\"".toList := by
  decide

end DfModel.Props.C51
