/-
  C29 — statistics reported as exact are exact (the `Precision` layer).

  Abstract-interpretation soundness of every `Precision<usize>` combinator (`Exact n` claims the
  value is `n`, `Inexact`/`Absent` claim nothing) and exactness of `Statistics::with_fetch`'s row
  count against the rows a LIMIT really produces.  The node-by-node check of real operators
  (`Exact ⇒ equals what the executed plan produces`) is the implementation-level oracle in
  `harness/hfull/src/c29.rs`.
-/
import DfModel.Mech.Precision
namespace DfModel.Props.C29
open DfModel.Mech.Precision

theorem add_sound (a b : P) (x y : Nat) (hx : a.claims x) (hy : b.claims y) :
    (a.add b).claims (x + y) := by
  cases a with
  | exact n =>
    cases b with
    | exact m =>
      simp only [P.claims] at hx hy; subst hx hy
      simp only [P.add]; split <;> simp [P.claims]
    | inexact m => simp [P.add, P.claims]
    | absent => simp [P.add, P.claims]
  | inexact n => cases b <;> simp [P.add, P.claims]
  | absent => cases b <;> simp [P.add, P.claims]

theorem sub_sound (a b : P) (x y : Nat) (hx : a.claims x) (hy : b.claims y) (hle : y ≤ x) :
    (a.sub b).claims (x - y) := by
  cases a with
  | exact n =>
    cases b with
    | exact m =>
      simp only [P.claims] at hx hy; subst hx hy
      simp only [P.sub]; split
      · simp [P.claims]
      · omega
    | inexact m => simp [P.sub, P.claims]
    | absent => simp [P.sub, P.claims]
  | inexact n => cases b <;> simp [P.sub, P.claims]
  | absent => cases b <;> simp [P.sub, P.claims]

theorem mul_sound (a b : P) (x y : Nat) (hx : a.claims x) (hy : b.claims y) :
    (a.mul b).claims (x * y) := by
  cases a with
  | exact n =>
    cases b with
    | exact m =>
      simp only [P.claims] at hx hy; subst hx hy
      simp only [P.mul]; split <;> simp [P.claims]
    | inexact m => simp [P.mul, P.claims]
    | absent => simp [P.mul, P.claims]
  | inexact n => cases b <;> simp [P.mul, P.claims]
  | absent => cases b <;> simp [P.mul, P.claims]

theorem min_sound (a b : P) (x y : Nat) (hx : a.claims x) (hy : b.claims y) :
    (a.min b).claims (Nat.min x y) := by
  cases a with
  | exact n =>
    cases b with
    | exact m =>
      simp only [P.claims] at hx hy; subst hx hy
      simp only [P.min, P.claims, Nat.min_def]; split <;> split <;> omega
    | inexact m => simp [P.min, P.claims]
    | absent => simp [P.min, P.claims]
  | inexact n => cases b <;> simp [P.min, P.claims]
  | absent => cases b <;> simp [P.min, P.claims]

theorem max_sound (a b : P) (x y : Nat) (hx : a.claims x) (hy : b.claims y) :
    (a.max b).claims (Nat.max x y) := by
  cases a with
  | exact n =>
    cases b with
    | exact m =>
      simp only [P.claims] at hx hy; subst hx hy
      simp only [P.max, P.claims, Nat.max_def]; split <;> split <;> omega
    | inexact m => simp [P.max, P.claims]
    | absent => simp [P.max, P.claims]
  | inexact n => cases b <;> simp [P.max, P.claims]
  | absent => cases b <;> simp [P.max, P.claims]

theorem to_inexact_sound (a : P) (x : Nat) : a.toInexact.claims x := by
  cases a <;> simp [P.toInexact, P.claims]

/-- **`precision_ops_sound`**: if the operands' claims hold of `x` and `y`, the result's claim
    holds of the true result — for add, sub (where the true difference is non-negative), multiply,
    min, max, and `to_inexact` — including the overflow branches (which must demote to Inexact). -/
theorem precision_ops_sound (a b : P) (x y : Nat) (hx : a.claims x) (hy : b.claims y) :
    (a.add b).claims (x + y) ∧
    (y ≤ x → (a.sub b).claims (x - y)) ∧
    (a.mul b).claims (x * y) ∧
    (a.min b).claims (Nat.min x y) ∧
    (a.max b).claims (Nat.max x y) ∧
    a.toInexact.claims x :=
  ⟨add_sound a b x y hx hy, sub_sound a b x y hx hy, mul_sound a b x y hx hy,
   min_sound a b x y hx hy, max_sound a b x y hx hy, to_inexact_sound a x⟩

/-- subtraction that would go negative is never reported exact -/
theorem sub_underflow_not_exact (a b : Nat) (h : a < b) : (P.exact a).sub (.exact b) = .inexact 0 := by
  simp only [P.sub]; split <;> first | omega | rfl

/-- an overflowing sum / product is never reported exact -/
theorem add_overflow_not_exact (a b : Nat) (h : usizeMax < a + b) :
    (P.exact a).add (.exact b) = .inexact usizeMax := by
  simp only [P.add]; split <;> first | omega | rfl

theorem length_limitRows {α : Type} (l : List α) (fetch : Option Nat) (skip : Nat) :
    (limitRows l fetch skip).length =
      match fetch with
      | some f => Nat.min f (l.length - skip)
      | none => l.length - skip := by
  cases fetch <;> simp [limitRows, Nat.min_def]

/-- **`with_fetch_exact`**: with one partition (every caller in physical-plan passes 1), an exact
    input row count gives an exact output row count equal to the number of rows
    `LIMIT fetch OFFSET skip` really produces — for every fetch (incl. none), skip and input. -/
theorem with_fetch_exact {α : Type} (l : List α) (fetch : Option Nat) (skip : Nat)
    (hlen : l.length ≤ usizeMax) (hf : ∀ f, fetch = some f → f ≤ usizeMax) :
    withFetchRows (.exact l.length) fetch skip 1 = .exact (limitRows l fetch skip).length := by
  rw [length_limitRows]
  cases fetch with
  | none =>
    by_cases hs : skip = 0
    · subst hs; simp [withFetchRows]
    · have hs' : (skip == 0) = false := by simpa using hs
      by_cases h1 : l.length ≤ skip
      · have h0 : l.length - skip = 0 := by omega
        simp [withFetchRows, hs', h1, checkNumRows, h0]
      · have h3 : l.length - skip ≤ usizeMax := by omega
        simp [withFetchRows, hs', h1, h3, checkNumRows, checkedMul]
  | some f =>
    have hfm := hf f rfl
    by_cases h1 : l.length ≤ skip
    · have h0 : l.length - skip = 0 := by omega
      simp [withFetchRows, h1, checkNumRows, h0, Nat.min_def]
    · by_cases hs : skip = 0
      · subst hs
        by_cases h2 : l.length ≤ f
        · have : ¬ l.length ≤ 0 := by omega
          simp [withFetchRows, this, h2]
        · have h4 : ¬ l.length ≤ 0 := by omega
          simp [withFetchRows, h4, h2, checkNumRows, checkedMul, hfm, Nat.min_def]
          omega
      · have hs' : (skip == 0) = false := by simpa using hs
        by_cases h3 : l.length - skip ≤ f
        · have h5 : l.length - skip ≤ usizeMax := by omega
          simp [withFetchRows, hs', h1, h3, checkNumRows, checkedMul, h5]
        · simp [withFetchRows, hs', h1, h3, checkNumRows, checkedMul, hfm, Nat.min_def]
          omega

/-- an inexact or absent input never becomes exact through `with_fetch` -/
theorem with_fetch_never_invents_exactness (rows : P) (fetch : Option Nat) (skip nPart : Nat)
    (h : ∀ n, rows ≠ .exact n) : ∀ n, withFetchRows rows fetch skip nPart ≠ .exact n := by
  intro n hEq
  cases rows with
  | exact m => exact h m rfl
  | inexact m =>
    unfold withFetchRows at hEq
    simp only [checkNumRows] at hEq
    repeat' split at hEq
    all_goals (first | (cases hEq; done) | (cases hEq; contradiction) | (simp at hEq; done) | simp_all)
  | absent =>
    unfold withFetchRows at hEq
    simp only [checkNumRows] at hEq
    repeat' split at hEq
    all_goals (first | (cases hEq; done) | (cases hEq; contradiction) | (simp at hEq; done) | simp_all)

-- non-vacuity / tests on literals
example : withFetchRows (.exact 10) (some 3) 2 1 = .exact 3 := by decide
example : withFetchRows (.exact 10) (some 30) 2 1 = .exact 8 := by decide
example : withFetchRows (.exact 10) none 12 1 = .exact 0 := by decide
example : withFetchRows (.inexact 10) (some 3) 0 1 = .inexact 3 := by decide
example : (P.exact 3).add (.inexact 4) = .inexact 7 := by decide
example : (P.exact (2 ^ 64 - 1)).mul (.exact 2) = .inexact usizeMax := by decide

end DfModel.Props.C29
