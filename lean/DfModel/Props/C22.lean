/-
  C22 — statistics-based pruning never skips a container that holds a matching row.

  Model: `Mech/Pruning.lean` — `prunePred` mirrors `build_predicate_expression`
  (datafusion/pruning/src/pruning_predicate.rs) on the fragment
  comparisons `col op lit` / `lit op col` (with `reverse_operator`), `=`/`≠`, `IS [NOT] NULL`,
  boolean column / `NOT column`, general `NOT` (unhandled ⇒ true), `AND`/`OR` with the constant
  folding, IN / NOT IN lists (≤ `max_in_list_size`), `IS [NOT] DISTINCT FROM` a literal (incl. NULL),
  column-vs-column and other unhandled shapes
  ⇒ `true`; `evalS` evaluates the rewritten predicate over one container's statistics in SQL
  three-valued logic with unknown statistics as NULL; `keep = (result ≠ false)`.
-/
import DfModel.Mech.Pruning
import DfModel.Proofs.C22
namespace DfModel.Props.C22
open DfModel.Mech.Pruning DfModel.Proofs.C22

theorem countNulls_pos {rows : List Row} {c : Nat} {r : Row} (hr : r ∈ rows)
    (hv : r.iv c = none) : 0 < countNulls rows c := by
  unfold countNulls
  apply List.length_pos_of_mem (a := r)
  simp [List.mem_filter, hr, hv]

/-- the rewritten predicate is never definitely FALSE on a container that has a matching row -/
theorem prune_nf {s : CStats} {rows : List Row} (hs : ValidStats s rows) (p : Expr) :
    (∃ r ∈ rows, eval p r = some true) → nf (evalS (prunePred p) s) := by
  induction p with
  | lit b =>
    rintro ⟨r, _, h⟩
    simp only [eval] at h
    subst h
    simp [prunePred, evalS, nf]
  | cmp op c l =>
    rintro ⟨r, hr, h⟩
    exact statsCmp_nf hs op c l hr h
  | cmpR op l c =>
    rintro ⟨r, hr, h⟩
    simp only [eval] at h
    exact statsCmp_nf hs op.swap c l hr (by rw [cmp3_swap]; exact h)
  | cmpCC op a b => intro _; simp [prunePred, evalS, nf]
  | isNull c =>
    rintro ⟨r, hr, h⟩
    simp only [eval, Option.some.injEq, Option.isNone_iff_eq_none] at h
    simp only [prunePred, evalS, STerm.eval]
    cases hn : (s.ic c).nulls with
    | none => simp [cmp3, nf]
    | some n =>
      have := hs.nulls_ok c n hn
      have := countNulls_pos hr h
      simp [cmp3, Cmp.holds, nf]
      omega
  | isNotNull c =>
    rintro ⟨r, hr, h⟩
    simp only [eval, Option.some.injEq, Option.isSome_iff_exists] at h
    obtain ⟨v, hv⟩ := h
    exact hasNonNulls_nf hs hr hv
  | bcol c =>
    rintro ⟨r, hr, h⟩
    simp only [eval] at h
    simp only [prunePred, evalS]
    apply nf_or3_right
    intro hm
    have := hs.bmax_ok c hm r hr true h
    cases this
  | not e _ =>
    rintro ⟨r, hr, h⟩
    cases e with
    | bcol c =>
      simp only [eval] at h
      have hv : r.bv c = some false := by
        rcases hb : r.bv c with _ | _ | _ <;> simp_all [not3]
      simp only [prunePred, evalS]
      intro hf
      have h1 : and3 (s.bc c).min (s.bc c).max = some true := by
        rcases ha : and3 (s.bc c).min (s.bc c).max with _ | _ | _ <;> simp_all [not3]
      have := hs.bmin_ok c (and3_true h1).1 r hr false hv
      cases this
    | _ => simp [prunePred, evalS, nf]
  | and a b iha ihb =>
    rintro ⟨r, hr, h⟩
    simp only [eval] at h
    obtain ⟨h1, h2⟩ := and3_true h
    simp only [prunePred]
    rw [evalS_simpAnd]
    exact nf_and3 (iha ⟨r, hr, h1⟩) (ihb ⟨r, hr, h2⟩)
  | or a b iha ihb =>
    rintro ⟨r, hr, h⟩
    simp only [eval] at h
    simp only [prunePred]
    rw [evalS_simpOr]
    rcases or3_true h with h1 | h1
    · exact nf_or3_left (iha ⟨r, hr, h1⟩)
    · exact nf_or3_right (ihb ⟨r, hr, h1⟩)
  | inList c ls neg =>
    rintro ⟨r, hr, h⟩
    simp only [prunePred]
    split
    · cases ls with
      | nil => simp [inListS, evalS, nf]
      | cons l rest =>
        cases neg with
        | false =>
          simp only [eval, Bool.false_eq_true, if_false, inList3] at h
          simp only [inListS, Bool.false_eq_true, if_false]
          apply inListS_or_nf
          rcases inList3_true h with h0 | ⟨l', hl', h1⟩
          · cases h0
          · rcases List.mem_cons.mp hl' with h2 | h2
            · subst h2; left; exact statsCmp_nf hs .eq c l' hr h1
            · right; exact ⟨l', h2, statsCmp_nf hs .eq c l' hr h1⟩
        | true =>
          simp only [eval, if_true] at h
          have hf : inList3 (r.iv c) (l :: rest) = some false := by
            rcases hx : inList3 (r.iv c) (l :: rest) with _ | _ | _ <;> simp_all [not3]
          unfold inList3 at hf
          obtain ⟨_, hall⟩ := inList3_false hf
          simp only [inListS, if_true]
          apply inListS_and_nf
          · exact statsCmp_nf hs .ne c l hr (hall l List.mem_cons_self)
          · intro l' hl'
            exact statsCmp_nf hs .ne c l' hr (hall l' (List.mem_cons_of_mem _ hl'))
    · simp [evalS, nf]
  | distinct neg c l =>
    rintro ⟨r, hr, h⟩
    simp only [eval, Option.some.injEq] at h
    cases neg with
    | false =>
      simp only [Bool.false_eq_true, if_false, decide_eq_true_eq] at h
      simp only [prunePred, Bool.false_eq_true, if_false, distinctS, evalS]
      cases l with
      | none =>
        cases hv : r.iv c with
        | none => exact absurd hv h
        | some v =>
          apply nf_or3_left
          exact nf_and3 (by simp [nf]) (hasNonNulls_nf hs hr hv)
      | some y =>
        apply nf_or3_right
        apply nf_and3 (by simp [nf])
        cases hv : r.iv c with
        | none => exact nf_or3_left (hasNulls_nf hs hr hv)
        | some v =>
          apply nf_or3_right
          exact neStats_nf hs c hr hv (by intro e; apply h; rw [hv, e])
    | true =>
      simp only [if_true, decide_eq_true_eq] at h
      simp only [prunePred, if_true, notDistinctS, evalS]
      cases l with
      | none =>
        apply nf_or3_left
        exact nf_and3 (by simp [nf]) (hasNulls_nf hs hr h)
      | some y =>
        apply nf_or3_right
        apply nf_and3 (by simp [nf])
        exact nf_and3 (hasNonNulls_nf hs hr h) (eqStats_nf hs c hr h)

/-- **C22.** If the statistics are valid for the container's rows (min/max bound the non-null
    values, null/row counts exact, anything may be unknown) and some row of the container
    satisfies the predicate, the container is kept — for every predicate of the fragment, by
    structural induction. -/
theorem prune_sound {s : CStats} {rows : List Row} (hs : ValidStats s rows) (p : Expr)
    (h : ∃ r ∈ rows, eval p r = some true) : keep (prunePred p) s = true := by
  have := prune_nf hs p h
  unfold keep
  rcases hx : evalS (prunePred p) s with _ | _ | _ <;> simp_all [nf]

/-- contrapositive, the form the property is stated in: a skipped container has no matching row -/
theorem skip_implies_no_match {s : CStats} {rows : List Row} (hs : ValidStats s rows) (p : Expr)
    (h : keep (prunePred p) s = false) : ∀ r ∈ rows, eval p r ≠ some true := by
  intro r hr he
  have := prune_sound hs p ⟨r, hr, he⟩
  rw [h] at this
  cases this

/-! ### non-vacuity -/

def exStats : CStats :=
  { ic := fun _ => ⟨some 3, some 9, some 1⟩, bc := fun _ => ⟨none, none⟩, rows := some 3 }
def exRows : List Row :=
  [⟨fun _ => some 3, fun _ => none⟩, ⟨fun _ => none, fun _ => none⟩, ⟨fun _ => some 9, fun _ => none⟩]

example : ValidStats exStats exRows := by
  refine ⟨?_, ?_, ?_, ?_, ?_, ?_⟩ <;> simp [exStats, exRows, countNulls] <;> omega

-- the model does prune: `c0 > 9`, `c0 = 2`, `c0 IN (1, 10)`, `c0 > 20 OR c0 < 1` are skipped …
example : keep (prunePred (.cmp .gt 0 (some 9))) exStats = false := by decide
example : keep (prunePred (.cmpR .eq (some 2) 0)) exStats = false := by decide
example : keep (prunePred (.inList 0 [some 1, some 10] false)) exStats = false := by decide
example : keep (prunePred (.or (.cmp .gt 0 (some 20)) (.cmp .lt 0 (some 1)))) exStats = false := by decide
-- … while matching predicates are kept, and an unknown statistic keeps
example : keep (prunePred (.and (.cmp .ge 0 (some 9)) (.isNull 0))) exStats = true := by decide
example : keep (prunePred (.cmp .gt 0 (some 9)))
    { exStats with ic := fun _ => ⟨some 3, none, some 1⟩ } = true := by decide
-- IS [NOT] DISTINCT FROM: `c0 IS DISTINCT FROM 5` is kept when NULLs exist even if min = max = 5,
-- skipped when there are none; `c0 IS NOT DISTINCT FROM NULL` is skipped without NULLs
example : keep (prunePred (.distinct false 0 (some 5)))
    { ic := fun _ => ⟨some 5, some 5, some 1⟩, bc := fun _ => ⟨none, none⟩, rows := some 3 } = true := by
  decide
example : keep (prunePred (.distinct false 0 (some 5)))
    { ic := fun _ => ⟨some 5, some 5, none⟩, bc := fun _ => ⟨none, none⟩, rows := some 3 } = true := by
  decide
example : keep (prunePred (.distinct false 0 (some 5)))
    { ic := fun _ => ⟨some 5, some 5, some 0⟩, bc := fun _ => ⟨none, none⟩, rows := some 3 } = false := by
  decide
example : keep (prunePred (.distinct true 0 none))
    { ic := fun _ => ⟨some 5, some 7, some 0⟩, bc := fun _ => ⟨none, none⟩, rows := some 3 } = false := by
  decide
-- an all-NULL column is skipped by the null-count wrap even though min/max are unknown
example : keep (prunePred (.cmp .eq 0 (some 5)))
    { ic := fun _ => ⟨none, none, some 4⟩, bc := fun _ => ⟨none, none⟩, rows := some 4 } = false := by
  decide

end DfModel.Props.C22
