/-
  C33 — expression evaluation strategies agree with the row-by-row semantics.

  `eval` (L1) is the row semantics; `DfModel.Strat` (L3) models the column-at-a-time strategies of
  the physical expressions.  Each theorem says: the strategy computes, for every row, what `eval`
  computes on that row alone.
-/
import DfModel.Mech.ExprStrat
import DfModel.Proofs.C33
namespace DfModel.Props.C33
open DfModel DfModel.Strat DfModel.Proofs.C33

/-! ## IN list -/

/-- the row semantics of `x IN (list)` over integers, spelled out: TRUE if found, else UNKNOWN if
    the list contains a NULL, else FALSE; UNKNOWN for a NULL needle (non-empty list) -/
theorem inListTri_ints (w : Nat) (n : Int) (hay : List (Option Int)) :
    inListTri (.int w true n) (hay.map (optVal w)) =
      .ok (if n ∈ nonNull hay then .t else if hasNull hay then .u else .f) := by
  induction hay with
  | nil => rfl
  | cons h hs ih =>
    simp only [List.map_cons, inListTri, ih, bind, Except.bind, pure, Except.pure]
    cases h with
    | none =>
      simp only [optVal, eqTri, nonNull, hasNull, List.filterMap_cons, List.any_cons, Option.isNone_none,
        Bool.true_or, if_true, id]
      by_cases hm : n ∈ List.filterMap id hs <;> by_cases hb : hs.any Option.isNone = true <;> simp [hm, hb, Tri.or]
    | some m =>
      simp only [optVal, eqTri, sameKind, if_true, cmpVal, nonNull, hasNull, List.filterMap_cons,
        List.any_cons, Option.isNone_some, Bool.false_or, id, List.mem_cons]
      by_cases hnm : n = m
      · subst hnm
        simp [cmpInt, Tri.ofBool, Tri.or]
      · have : cmpInt n m ≠ .eq := fun h => hnm ((cmpInt_eq_iff n m).1 h)
        have h2 : (cmpInt n m == Ordering.eq) = false := by simpa using this
        simp only [h2, Tri.ofBool, Bool.false_eq_true, if_false, hnm, false_or]
        by_cases hm : n ∈ List.filterMap id hs <;> by_cases hb : hs.any Option.isNone = true <;> simp [hm, hb, Tri.or]

theorem inListTri_null' (vs : List Val) : inListTri .null vs = .ok (if vs.isEmpty then .f else .u) := by
  induction vs with
  | nil => rfl
  | cons v vs ih =>
    simp only [inListTri, ih, eqTri, bind, Except.bind, pure, Except.pure, List.isEmpty_cons]
    cases vs.isEmpty <;> rfl

theorem inListTri_null (w : Nat) (hay : List (Option Int)) (hne : hay ≠ []) :
    inListTri .null (hay.map (optVal w)) = .ok .u := by
  rw [inListTri_null']
  cases hay with
  | nil => exact absurd rfl hne
  | cons h hs => rfl

theorem foldl_or_contains (vs : List Int) (x : Int) (a : Bool) :
    vs.foldl (fun acc v => acc || v == x) a = (a || vs.contains x) := by
  induction vs generalizing a with
  | nil => simp
  | cons v vs ih =>
    simp only [List.foldl_cons, ih, List.contains_cons, Bool.or_assoc]
    by_cases h : v = x
    · subst h; simp
    · have h1 : (v == x) = false := by simpa using h
      have h2 : (x == v) = false := by simpa using fun e => h (Eq.symm e)
      simp [h1, h2]

theorem testBit_bitmap (w : Nat) (vs : List Int) (b i : Nat) :
    (vs.foldl (fun b v => b ||| (1 <<< bitIndex w v)) b).testBit i = (b.testBit i || vs.any (fun v => bitIndex w v == i)) := by
  induction vs generalizing b with
  | nil => simp
  | cons v vs ih =>
    rw [List.foldl_cons, ih, Nat.testBit_or, List.any_cons, Nat.one_shiftLeft, Nat.testBit_two_pow,
      Bool.or_assoc]
    by_cases h : bitIndex w v = i
    · simp [h]
    · have h1 : (bitIndex w v == i) = false := by simpa using h
      simp [h, h1]

/-- in-range values of a `w`-bit signed type have different bit patterns -/
theorem bitIndex_inj (w : Nat) (hw : 0 < w) (x y : Int) (hx : inRange w true x = true) (hy : inRange w true y = true)
    (h : bitIndex w x = bitIndex w y) : x = y := by
  have hp : (0 : Int) < 2 ^ w := Int.pow_pos (by decide)
  have h2 : (2 : Int) ^ w = 2 * 2 ^ (w - 1) := by
    obtain ⟨k, rfl⟩ : ∃ k, w = k + 1 := ⟨w - 1, by omega⟩
    simp [Int.pow_succ, Int.mul_comm]
  simp only [inRange, intMin, intMax, if_true, Bool.and_eq_true, decide_eq_true_eq] at hx hy
  simp only [bitIndex] at h
  have hx0 := Int.emod_nonneg x (Int.ne_of_gt hp)
  have hy0 := Int.emod_nonneg y (Int.ne_of_gt hp)
  have hxy : x % (2 : Int) ^ w = y % (2 : Int) ^ w := by
    have := congrArg (fun n : Nat => (n : Int)) h
    simp only [Int.toNat_of_nonneg hx0, Int.toNat_of_nonneg hy0] at this
    exact this
  have hd := Int.emod_emod_of_dvd x (Int.dvd_refl ((2 : Int) ^ w))
  have : (x - y) % (2 : Int) ^ w = 0 := by
    rw [Int.sub_emod, hxy]; simp
  obtain ⟨k, hk⟩ := Int.dvd_of_emod_eq_zero this
  -- |x - y| < 2^w and 2^w ∣ x - y
  have hk0 : k = 0 := by
    by_cases hpos : 0 < k
    · have : (2 : Int) ^ w * k ≥ 2 ^ w := by
        have := Int.mul_le_mul_of_nonneg_left (show (1 : Int) ≤ k by omega) (Int.le_of_lt hp)
        simpa using this
      omega
    · by_cases hneg : k < 0
      · have : (2 : Int) ^ w * k ≤ -(2 ^ w) := by
          have := Int.mul_le_mul_of_nonneg_left (show k ≤ (-1 : Int) by omega) (Int.le_of_lt hp)
          simpa using this
        omega
      · omega
  subst hk0
  omega

/-- every membership strategy decides membership in the set of non-NULL list values -/
theorem contains_iff (s : Strategy) (vs : List Int) (x : Int)
    (hr : ∀ w, s = .bitmap w → 0 < w ∧ inRange w true x = true ∧ ∀ v ∈ vs, inRange w true v = true) :
    containsBy s vs x = true ↔ x ∈ vs := by
  cases s with
  | branchless => simp [containsBy, foldl_or_contains]
  | hashSet => simp [containsBy]
  | bitmap w =>
    obtain ⟨hw, hx, hv⟩ := hr w rfl
    simp only [containsBy, bitmapOf, testBit_bitmap, Nat.zero_testBit, Bool.false_or, List.any_eq_true,
      beq_iff_eq]
    constructor
    · rintro ⟨v, hvm, hi⟩
      have := bitIndex_inj w hw v x (hv v hvm) hx hi
      exact this ▸ hvm
    · intro hm; exact ⟨x, hm, rfl⟩

/-- **IN-list strategies agree**: the static filter (branch-free OR-reduction, bitmap, hash set —
    whichever the engine picks for the list's type and length) with the `build_result_from_contains`
    table gives, for every needle (NULL included), every non-empty constant list (NULLs included)
    and both `IN` and `NOT IN`, exactly the Kleene OR-chain `x = v₁ OR … OR x = vₙ` of the row
    semantics.  (Bitmap filters exist for 8/16-bit types only: values are in range.) -/
theorem inlist_strategies_agree (s : Strategy) (w : Nat) (hay : List (Option Int)) (negated : Bool)
    (x : Option Int) (hne : hay ≠ [])
    (hr : ∀ w', s = .bitmap w' → 0 < w' ∧ (∀ n, x = some n → inRange w' true n = true) ∧
      ∀ v ∈ nonNull hay, inRange w' true v = true) :
    (inListTri (optVal w x) (hay.map (optVal w))).map (fun r => if negated then r.not else r)
      = .ok (staticIn s hay negated x) := by
  cases x with
  | none =>
    simp only [optVal, inListTri_null w hay hne, Except.map, staticIn, buildInResult, if_true]
    cases negated <;> rfl
  | some n =>
    have hc := contains_iff s (nonNull hay) n (by
      intro w' hs
      obtain ⟨h1, h2, h3⟩ := hr w' hs
      exact ⟨h1, h2 n rfl, h3⟩)
    simp only [optVal, inListTri_ints, Except.map, staticIn, buildInResult, Bool.false_eq_true, if_false]
    by_cases hm : n ∈ nonNull hay
    · have : containsBy s (nonNull hay) n = true := hc.2 hm
      simp only [hm, if_true, this]
      cases hasNull hay <;> cases negated <;> rfl
    · have : containsBy s (nonNull hay) n = false := by
        cases h : containsBy s (nonNull hay) n
        · rfl
        · exact absurd (hc.1 h) hm
      simp only [hm, if_false, this]
      cases hasNull hay <;> cases negated <;> rfl

example : staticIn (.bitmap 8) [some 3, none, some (-128)] true (some (-128)) = .f := by decide
example : staticIn .branchless [some 3, none] true (some 4) = .u := by decide

/-! ## CASE -/

/-- **CASE by sequential masks = CASE row by row**: the batch strategy succeeds exactly when every
    row's own evaluation succeeds, and then returns every row's own value. -/
theorem case_strategy_rowwise (whens : List (Expr × Expr)) (els : Option Expr) (env : Env) (rows : List Row) :
    okOf (caseBatch whens els env rows) = okOf (rows.mapM (fun r => eval (.case none whens els) r env)) := by
  unfold caseBatch
  rw [okOf_caseGo, List.mapM_map]
  congr 2
  funext r
  exact rowGo_eq_eval whens els env r

theorem mapM_ok_of_forall {α β : Type} (f : α → Except RtErr β) (l : List α) (h : ∀ a ∈ l, ∃ b, f a = .ok b) :
    ∃ bs, l.mapM f = .ok bs := by
  induction l with
  | nil => exact ⟨[], rfl⟩
  | cons a l ih =>
    obtain ⟨b, hb⟩ := h a (by simp)
    obtain ⟨bs, hbs⟩ := ih (fun x hx => h x (by simp [hx]))
    exact ⟨b :: bs, by rw [List.mapM_cons, hb, hbs]; rfl⟩

/-- **No spurious error**: if, row by row, the CASE expression evaluates (each row only looks at
    the WHENs up to its first TRUE one and at that branch's THEN), then the batch evaluation does
    not fail either — whatever the THEN/ELSE expressions of *other* branches would do on that row
    (e.g. `CASE WHEN b <> 0 THEN a / b ELSE 0 END` with rows where `b = 0`). -/
theorem case_no_spurious_error (whens : List (Expr × Expr)) (els : Option Expr) (env : Env) (rows : List Row)
    (h : ∀ r ∈ rows, ∃ v, eval (.case none whens els) r env = .ok v) :
    ∃ vs, caseBatch whens els env rows = .ok vs ∧
      rows.mapM (fun r => eval (.case none whens els) r env) = .ok vs := by
  obtain ⟨vs, hvs⟩ := mapM_ok_of_forall _ rows h
  refine ⟨vs, ?_, hvs⟩
  have := case_strategy_rowwise whens els env rows
  rw [hvs] at this
  exact (okOf_eq_some _ _).1 this

/-- a branch whose WHEN is TRUE on no remaining row does not evaluate its THEN at all: the step
    succeeds and changes nothing, for every THEN expression (failing ones included) -/
theorem case_unselected_branch_not_evaluated (w t : Expr) (env : Env) (st : CaseSt) (cs : List (Option Tri))
    (hw : whenPhase w env st = .ok cs) (hnone : cs.any (· == some .t) = false) :
    branchStep w t env st = .ok st := by
  simp [branchStep, hw, bind, Except.bind, hnone, pure, Except.pure]

example : caseBatch [(.bin .ne (.col 0) (.lit (.int 64 true 0)), .bin .div (.lit (.int 64 true 6)) (.col 0))]
    (some (.lit (.int 64 true 0))) {} [[.int 64 true 0], [.int 64 true 3], [.null]]
    = .ok [.int 64 true 0, .int 64 true 2, .int 64 true 0] := by decide

/-! ## evaluate_selection -/

theorem selection_core (f : Row → Except RtErr Val) (e : Expr) (env : Env) (hf : f = fun r => eval e r env)
    (rows : List Row) (mask : List Bool) (hlen : mask.length = rows.length) :
    ((filterByMask rows mask).mapM f >>= fun vs => pure (scatter mask vs)) = selectionSpec e env rows mask := by
  subst hf
  induction rows generalizing mask with
  | nil =>
    cases mask with
    | nil => rfl
    | cons m ms => simp at hlen
  | cons r rs ih =>
    cases mask with
    | nil => simp at hlen
    | cons m ms =>
      have hl : ms.length = rs.length := by simpa using hlen
      have ih' := ih ms hl
      cases m with
      | false =>
        simp only [filterByMask, selectionSpec, ← ih']
        cases (filterByMask rs ms).mapM (fun r => eval e r env) <;> rfl
      | true =>
        simp only [filterByMask, selectionSpec, ← ih']
        rw [List.mapM_cons]
        cases eval e r env with
        | error x => rfl
        | ok v =>
          cases (filterByMask rs ms).mapM (fun r => eval e r env) <;> rfl

theorem selection_all (e : Expr) (env : Env) (rows : List Row) (mask : List Bool)
    (hlen : mask.length = rows.length) (hall : mask.all id = true) :
    rows.mapM (fun r => eval e r env) = selectionSpec e env rows mask := by
  induction rows generalizing mask with
  | nil => cases mask <;> rfl
  | cons r rs ih =>
    cases mask with
    | nil => simp at hlen
    | cons m ms =>
      simp only [List.all_cons, Bool.and_eq_true, id] at hall
      obtain ⟨rfl, hms⟩ := hall
      rw [List.mapM_cons]
      simp only [selectionSpec, ← ih ms (by simpa using hlen) hms]

theorem selection_none (e : Expr) (env : Env) (rows : List Row) (mask : List Bool)
    (hlen : mask.length = rows.length) (hnone : mask.any id = false) :
    selectionSpec e env rows mask = .ok (scatter mask []) := by
  induction rows generalizing mask with
  | nil =>
    cases mask with
    | nil => rfl
    | cons m ms => simp at hlen
  | cons r rs ih =>
    cases mask with
    | nil => simp at hlen
    | cons m ms =>
      simp only [List.any_cons, Bool.or_eq_false_iff, id] at hnone
      obtain ⟨rfl, hms⟩ := hnone
      simp only [selectionSpec, scatter, ih ms (by simpa using hlen) hms]
      rfl

/-- **evaluate_selection = evaluating on the selected rows**: row `i` of the result is `eval e rowᵢ`
    where the mask is set and NULL elsewhere; the evaluation fails iff `e` fails on a *selected*
    row (with that row's error) — unselected rows cannot raise errors. Covers the all-selected and
    the nothing-selected shortcuts of the Rust code. -/
theorem evaluate_selection_eq (e : Expr) (env : Env) (rows : List Row) (mask : List Bool)
    (hlen : mask.length = rows.length) :
    evaluateSelection e env rows mask = selectionSpec e env rows mask := by
  unfold evaluateSelection
  split
  · rename_i hall
    exact selection_all e env rows mask hlen hall
  · split
    · rename_i _ hnone
      have : mask.any id = false := by simpa using hnone
      exact (selection_none e env rows mask hlen this).symm
    · exact selection_core _ e env rfl rows mask hlen

example : evaluateSelection (.bin .div (.lit (.int 64 true 4)) (.col 0)) {}
    [[.int 64 true 0], [.int 64 true 1], [.int 64 true 2]] [false, true, true]
    = .ok [.null, .int 64 true 4, .int 64 true 2] := by decide

/-! ## AND / OR pre-selection -/

theorem kleene_sel (isAnd l : Bool) (r : Tri) (h : selMask isAnd l = true) : kleene isAnd l r = r := by
  cases isAnd <;> cases l <;> cases r <;> simp_all [selMask, kleene, Tri.ofBool, Tri.and, Tri.or]

theorem kleene_unsel (isAnd l : Bool) (r : Tri) (h : selMask isAnd l = false) : kleene isAnd l r = fillTri isAnd := by
  cases isAnd <;> cases l <;> cases r <;> simp_all [selMask, kleene, fillTri, Tri.ofBool, Tri.and, Tri.or]

theorem scatterSel_spec (isAnd : Bool) (rows : List (Bool × Tri)) :
    scatterSel isAnd (rows.map (·.1)) (selectedRhs isAnd rows) = rows.map (fun x => kleene isAnd x.1 x.2) := by
  induction rows with
  | nil => rfl
  | cons x rows ih =>
    obtain ⟨l, r⟩ := x
    cases hm : selMask isAnd l
    · simp only [List.map_cons, selectedRhs, scatterSel, hm, Bool.false_eq_true, if_false, ih,
        kleene_unsel isAnd l r hm]
    · simp only [List.map_cons, selectedRhs, scatterSel, hm, if_true, ih, kleene_sel isAnd l r hm]

theorem all_t_spec (isAnd : Bool) (rows : List (Bool × Tri)) (h : (selectedRhs isAnd rows).all (· == .t) = true) :
    rows.map (fun x => kleene isAnd x.1 x.2) =
      (if isAnd then (rows.map (·.1)).map Tri.ofBool else (rows.map (·.1)).map (fun _ => Tri.t)) := by
  induction rows with
  | nil => cases isAnd <;> rfl
  | cons x rows ih =>
    obtain ⟨l, r⟩ := x
    cases hm : selMask isAnd l
    · simp only [selectedRhs, hm, Bool.false_eq_true, if_false] at h
      have := ih h
      cases isAnd <;> cases l <;> simp_all [selMask, kleene_unsel, fillTri, Tri.ofBool]
    · simp only [selectedRhs, hm, if_true, List.all_cons, Bool.and_eq_true, beq_iff_eq] at h
      obtain ⟨hr, h⟩ := h
      subst hr
      have := ih h
      cases isAnd <;> cases l <;> simp_all [selMask, kleene_sel, Tri.ofBool]

theorem all_f_spec (isAnd : Bool) (rows : List (Bool × Tri)) (h : (selectedRhs isAnd rows).all (· == .f) = true) :
    rows.map (fun x => kleene isAnd x.1 x.2) =
      (if isAnd then (rows.map (·.1)).map (fun _ => Tri.f) else (rows.map (·.1)).map Tri.ofBool) := by
  induction rows with
  | nil => cases isAnd <;> rfl
  | cons x rows ih =>
    obtain ⟨l, r⟩ := x
    cases hm : selMask isAnd l
    · simp only [selectedRhs, hm, Bool.false_eq_true, if_false] at h
      have := ih h
      cases isAnd <;> cases l <;> simp_all [selMask, kleene_unsel, fillTri, Tri.ofBool]
    · simp only [selectedRhs, hm, if_true, List.all_cons, Bool.and_eq_true, beq_iff_eq] at h
      obtain ⟨hr, h⟩ := h
      subst hr
      have := ih h
      cases isAnd <;> cases l <;> simp_all [selMask, kleene_sel, Tri.ofBool]

/-- **Pre-selection agrees with the Kleene table**: evaluating the right operand only on the rows
    the left operand leaves undecided — with the uniform-result collapse and the scatter — gives,
    for every batch, every NULL-free left column and every right column (NULLs included), exactly
    `left AND right` / `left OR right` row by row. -/
theorem preselection_agrees (isAnd : Bool) (rows : List (Bool × Tri)) :
    preSelect isAnd (rows.map (·.1)) (selectedRhs isAnd rows) = rows.map (fun x => kleene isAnd x.1 x.2) := by
  unfold preSelect
  split
  · split
    · rename_i _ ht; exact (all_t_spec isAnd rows ht).symm
    · split
      · rename_i _ _ hf; exact (all_f_spec isAnd rows hf).symm
      · exact scatterSel_spec isAnd rows
  · exact scatterSel_spec isAnd rows

example : preSelect true [false, true, false, false, false] [.u] = [.f, .u, .f, .f, .f] := by decide
example : preSelect false [true, false, true, true, true] [.u] = [.t, .u, .t, .t, .t] := by decide

/-! ## LIKE -/

theorem existsSuffix_self (f : List Char → Bool) (s : List Char) (h : f s = true) : existsSuffix f s = true := by
  cases s <;> simp [existsSuffix, h]

theorem likeMatch_sound (p : List PatTok) : ∀ s, likeMatch p s = true → Matches p s := by
  induction p with
  | nil =>
    intro s h
    cases s with
    | nil => exact .nil
    | cons c cs => simp [likeMatch] at h
  | cons tok ps ih =>
    intro s
    cases tok with
    | any =>
      simp only [likeMatch]
      induction s with
      | nil => intro h; simp only [existsSuffix] at h; exact .anyEmpty (ih [] h)
      | cons c cs ihs =>
        intro h
        simp only [existsSuffix, Bool.or_eq_true] at h
        rcases h with h | h
        · exact .anyEmpty (ih _ h)
        · exact .anyMore (ihs h)
    | one =>
      intro h
      cases s with
      | nil => simp [likeMatch] at h
      | cons c cs => simp only [likeMatch] at h; exact .one (ih _ h)
    | ch p =>
      intro h
      cases s with
      | nil => simp [likeMatch] at h
      | cons c cs =>
        simp only [likeMatch, Bool.and_eq_true, beq_iff_eq] at h
        obtain ⟨rfl, h⟩ := h
        exact .ch (ih _ h)

theorem likeMatch_complete (p : List PatTok) (s : List Char) (h : Matches p s) : likeMatch p s = true := by
  induction h with
  | nil => simp [likeMatch]
  | anyEmpty _ ih => simp only [likeMatch]; exact existsSuffix_self _ _ ih
  | anyMore _ ih => simp only [likeMatch] at ih ⊢; simp [existsSuffix, ih]
  | one _ ih => simpa [likeMatch] using ih
  | ch _ ih => simp [likeMatch, ih]

/-- **LIKE**: the backtracking matcher accepts exactly the strings the pattern describes
    (`%` any run, `_` one character, anything else itself) -/
theorem like_spec (p : List PatTok) (s : List Char) : likeMatch p s = true ↔ Matches p s :=
  ⟨likeMatch_sound p s, likeMatch_complete p s⟩

example : likeMatch (likeToks none "a%c_".toList) "abbcd".toList = true := by decide
example : likeMatch (likeToks none "a%c_".toList) "abbc".toList = false := by decide

end DfModel.Props.C33
