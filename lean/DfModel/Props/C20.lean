/-
  C20 — execution errors always surface; no truncated result counts as success.

  Model: `Mech/ErrFlow.lean` (operators as transformers of `List (Except Err Batch)`).  The theorems
  quantify over all transcripts, all per-batch / blocking / join functions (which may fail themselves:
  UDF errors, reservation and spill-write failures inside sort/aggregate), all channel schedules and all
  routings.  The real engine is covered by the fault enumeration of the harness (notes/C20.md).
-/
import DfModel.Mech.ErrFlow
import DfModel.Proofs.C20
namespace DfModel.Props.C20
open DfModel.Mech.ErrFlow DfModel.Proofs.C20

/-- `collect` fails exactly when the transcript contains an error item, wherever it is -/
theorem collect_fails_iff_hasErr (s : Stream) : (∃ e, collect s = .error e) ↔ hasErr s = true :=
  collect_err_iff s

/-- every modelled operator hands an input error on (per operator) -/
theorem err_propagates_map (f : Batch → Except Err Batch) (s : Stream) (k : Nat) (e : Err)
    (h : s[k]? = some (.error e)) : ∃ e', collect (mapOp f s) = .error e' := by
  apply (collect_err_iff _).mpr
  apply hasErr_mapOp
  simp only [hasErr, List.any_eq_true]
  exact ⟨_, List.mem_of_getElem? h, rfl⟩

/-- the plan's evaluation contains an error as soon as any of its sources does -/
theorem plan_hasErr (p : Plan) (h : ∃ s ∈ p.sources, hasErr s = true) : hasErr p.eval = true := by
  induction p with
  | source s => simpa [Plan.sources, Plan.eval] using h
  | map f p ih => exact hasErr_mapOp f _ (ih h)
  | blocking g p ih => exact hasErr_blocking g _ (ih h)
  | join j b p ihb ihp =>
    obtain ⟨s, hs, he⟩ := h
    simp only [Plan.sources, List.mem_append] at hs
    apply hasErr_join
    rcases hs with hs | hs
    · exact Or.inl (ihb ⟨s, hs, he⟩)
    · exact Or.inr (ihp ⟨s, hs, he⟩)
  | coalesce sch l r ihl ihr =>
    obtain ⟨s, hs, he⟩ := h
    simp only [Plan.sources, List.mem_append] at hs
    simp only [Plan.eval, hasErr_coalesce2, Bool.or_eq_true]
    rcases hs with hs | hs
    · exact Or.inl (ihl ⟨s, hs, he⟩)
    · exact Or.inr (ihr ⟨s, hs, he⟩)
  | repart route j sch l r ihl ihr =>
    obtain ⟨s, hs, he⟩ := h
    simp only [Plan.sources, List.mem_append] at hs
    apply hasErr_repartition2
    rcases hs with hs | hs
    · exact Or.inl (ihl ⟨s, hs, he⟩)
    · exact Or.inr (ihr ⟨s, hs, he⟩)

/-- **errors surface.** For every composition of the modelled operators (filter/project/UDF, sort and
    aggregate, hash-join build and probe, coalesce/union under every channel schedule, repartition
    under every routing and schedule, for every output partition): if any source yields an error at
    any position `k`, `collect` of the plan's stream is `Err` — never `Ok` with a truncated result. -/
theorem err_propagates (p : Plan) (s : Stream) (hs : s ∈ p.sources) (k : Nat) (e : Err)
    (h : s[k]? = some (.error e)) : ∃ e', collect p.eval = .error e' := by
  apply (collect_err_iff _).mpr
  apply plan_hasErr
  refine ⟨s, hs, ?_⟩
  simp only [hasErr, List.any_eq_true]
  exact ⟨_, List.mem_of_getElem? h, rfl⟩

/-- contrapositive: a successful `collect` means no source failed anywhere -/
theorem ok_means_no_fault (p : Plan) (bs : List Batch) (h : collect p.eval = .ok bs) :
    ∀ s ∈ p.sources, hasErr s = false := by
  intro s hs
  cases he : hasErr s with
  | false => rfl
  | true =>
    have := (collect_err_iff _).mpr (plan_hasErr p ⟨s, hs, he⟩)
    obtain ⟨e, he'⟩ := this
    rw [h] at he'; cases he'

/-- errors raised INSIDE an operator (failing UDF at some row; failing reservation or spill write in a
    sort/aggregate) surface as well -/
theorem udf_error_surfaces (f : Batch → Except Err Batch) (s : Stream) (k : Nat) (b : Batch) (e : Err)
    (hk : s[k]? = some (.ok b)) (hf : f b = .error e) : ∃ e', collect (mapOp f s) = .error e' := by
  apply (collect_err_iff _).mpr
  simp only [hasErr, List.any_eq_true, mapOp, List.mem_map]
  exact ⟨.error e, ⟨.ok b, List.mem_of_getElem? hk, by simp [Except.bind, hf]⟩, rfl⟩

theorem blocking_error_surfaces (g : List Batch → Except Err (List Batch)) (s : Stream) (bs : List Batch) (e : Err)
    (hs : collect s = .ok bs) (hg : g bs = .error e) : collect (blockOp g s) = .error e := by
  simp [blockOp, hs, hg, collect]

/-- **repartition fan-out.** An input error reaches every output partition (`wait_for_task` sends it to
    all channels), whatever the routing — also outputs that never received a batch -/
theorem err_reaches_every_open_output (route : Batch → Nat → Batch) (s : Stream) (k : Nat) (e : Err)
    (h : s[k]? = some (.error e)) (j : Nat) : ∃ e', collect (repartition1 route j s) = .error e' := by
  apply (collect_err_iff _).mpr
  apply hasErr_repartition1
  simp only [hasErr, List.any_eq_true]
  exact ⟨_, List.mem_of_getElem? h, rfl⟩

theorem err_reaches_every_open_output2 (route : Batch → Nat → Batch) (sch : List Bool) (s1 s2 : Stream)
    (h : hasErr s1 = true ∨ hasErr s2 = true) (j : Nat) :
    ∃ e', collect (repartition2 route j sch s1 s2) = .error e' :=
  (collect_err_iff _).mpr (hasErr_repartition2 route j sch s1 s2 h)

/-- **error, then end.** What a forwarding task (`run_input`) passes on, and what a blocking operator
    emits, contains nothing after its first error -/
theorem err_then_end (s : Stream) (g : List Batch → Except Err (List Batch)) :
    EndsAtErr (cut s) ∧ EndsAtErr (blockOp g s) := ⟨endsAtErr_cut s, endsAtErr_blocking g s⟩

/-- **Ok-prefix.** In a linear pipeline (per-batch operators, blocking operators, hash-join probe side,
    forwarding tasks), the batches streamed before the error of a faulted run are a prefix of the
    batches of the fault-free run (same source up to the fault point `pre`) -/
theorem ok_prefix_of_fault_free (ops : List Op) (pre rest rest' : Stream) (e : Err) :
    okPrefix (runPipe ops (pre ++ .error e :: rest)) <+: okPrefix (runPipe ops (pre ++ rest')) :=
  faulted_okPrefix (faulted_runPipe ops (Or.inr ⟨pre, e, rest, rest', rfl, rfl⟩))

/-! ### non-vacuity (tests on concrete plans) -/

def srcOk : Stream := [.ok [1, 2], .ok [3]]
def srcBad : Stream := [.ok [4], .error (.source 7), .ok [5]]
def inc : Batch → Except Err Batch := fun b => .ok (b.map (· + 1))
def sumAll : List Batch → Except Err (List Batch) := fun bs => .ok [[bs.flatten.sum]]

-- a failing source under coalesce → aggregate: the clean partition's rows do not turn it into success
example : (collect (Plan.blocking sumAll (.coalesce [true, false, true] (.source srcOk) (.map inc (.source srcBad)))).eval).toOption
    = none := by decide
-- the same plan without the fault succeeds (so the theorem is not about an always-failing model)
example : (collect (Plan.blocking sumAll (.coalesce [true, false, true] (.source srcOk)
    (.map inc (.source [.ok [4], .ok [5]])))).eval).toOption = some [[17]] := by decide
example : srcBad[1]? = some (.error (.source 7)) := rfl
-- repartition: output 1 never gets a batch (everything is routed to output 0) but gets the error
example : hasErr (repartition1 (fun b j => if j = 0 then b else []) 1 srcBad) = true ∧
    okPrefix (repartition1 (fun b j => if j = 0 then b else []) 1 srcBad) = [] := by decide
-- Ok-prefix on a concrete pipeline
example : okPrefix (runPipe [.map inc, .forward] srcBad) = [[5]] := by decide

end DfModel.Props.C20
