/-
  C25 — written files read back as written: the parts of the write/read path that DataFusion itself
  implements (percent codec use, hive directory build/parse, row demultiplexing).  The format encoders
  (arrow-csv/json/ipc, parquet) are trusted crates and are exercised end-to-end by the harness
  (harness/hfull/src/c25.rs), which also judges the CSV NULL/empty rule.

  Models: `Text.Percent`, `Text.Hive`, `Mech.Demux` (hand-written from
  datasource/src/write/demux.rs, catalog-listing/src/helpers.rs, object_store path/parts.rs).
-/
import DfModel.Text.Percent
import DfModel.Text.Hive
import DfModel.Mech.Demux
import DfModel.Proofs.C25
namespace DfModel.Props.C25
open DfModel.Text.Percent DfModel.Text.Hive DfModel.Mech.Demux DfModel.Proofs.C25

/-- **percent round trip, bytes**: for EVERY encode set containing `%` and every byte string. -/
theorem percent_roundtrip (set : Nat → Bool) (hp : set pct = true) (bs : Bytes) (hb : ∀ b ∈ bs, b < 256) :
    decode (encode set bs) = bs :=
  decode_encode set hp bs hb

/-- **percent round trip, strings** (what `parse_partitions_for_path` does: decode, then
    `decode_utf8().unwrap_or(raw)`): every Unicode string, every set containing `%`. -/
theorem percent_roundtrip_str (set : Nat → Bool) (hp : set pct = true) (s : String) :
    decodeStr (encode set (bytesOf s)) = bytesOf s :=
  decodeStr_encode set hp s

/-- both sets used in the code contain `%` (so the theorem applies to them) -/
theorem sets_contain_pct : partitionValueSet pct = true ∧ pathPartSet pct = true := by decide

/-- **hive path round trip**: the directory names the writer creates for ANY partition values (any
    Unicode strings: `/ = % space`, control characters, `.`/`..`, non-ASCII …) parse back to exactly those
    values, for any number of partition columns whose names need no escaping. -/
theorem hive_path_roundtrip (kvs : List (Bytes × String)) (file : Bytes)
    (hn : ∀ kv ∈ kvs, PlainName kv.1) :
    parsePartitions (buildPath (kvs.map (fun kv => (kv.1, bytesOf kv.2))) file) (kvs.map (·.1))
      = some (kvs.map (fun kv => bytesOf kv.2)) :=
  parsePartitions_buildPath file kvs hn

/-- a partition column NAME that needs escaping is written escaped but compared unescaped on read: the
    file is then ignored by the reader (witness: column `a%`).  Outside the property's quantifier (it
    ranges over values); recorded in notes/C25.md. -/
theorem escaped_column_name_not_found :
    parsePartitions (buildPath [([97, 37], [49])] [102]) [[97, 37]] = none := by decide

/-- **demux: every row goes to exactly one file** — the (key, data-row) pairs over all output files are a
    permutation of the input rows' (key, data) pairs, and no key has two files. -/
theorem demux_partition_of_rows {D : Type} (tys : List Ty) (rows : List (Row D)) :
    (flat (demux tys rows)).Perm (rows.map (fun r => (keyOf tys r.part, r.data))) ∧
      ((demux tys rows).map (·.1)).Nodup := by
  constructor
  · have := flat_foldl (K := List Cell) (fun r : Row D => keyOf tys r.part) (fun r => r.data) rows []
    simpa [demux, flat] using this
  · exact keys_foldl (K := List Cell) (fun r : Row D => keyOf tys r.part) (fun r => r.data) rows [] (by simp)

theorem readBack_eq {D : Type} (files : List (List Cell × List D)) :
    readBack files = (flat files).map (fun kd => { part := kd.1.map some, data := kd.2 }) := by
  induction files with
  | nil => rfl
  | cons f fs ih =>
    simp only [readBack, flat, List.flatMap_cons, List.map_append, List.map_map] at *
    rw [ih]; rfl

/-- full statement: re-attaching the directory values restores the written rows (as a bag) -/
def demux_roundtrip_statement : Prop :=
  ∀ (tys : List Ty) (rows : List (Row Nat)), (∀ r ∈ rows, r.part.length = tys.length) →
    (readBack (demux tys rows)).Perm rows

/-- **proved part**: it holds whenever no partition cell is NULL. -/
theorem demux_roundtrip_partial {D : Type} (tys : List Ty) (rows : List (Row D))
    (hl : ∀ r ∈ rows, tys.length = r.part.length) (hn : ∀ r ∈ rows, NoNullPart r) :
    (readBack (demux tys rows)).Perm rows := by
  rw [readBack_eq]
  have h1 := ((demux_partition_of_rows tys rows).1).map (fun kd => ({ part := kd.1.map some, data := kd.2 } : Row D))
  refine h1.trans ?_
  rw [List.map_map]
  have : ∀ r ∈ rows, ((fun kd : List Cell × D => ({ part := kd.1.map some, data := kd.2 } : Row D)) ∘
      (fun r : Row D => (keyOf tys r.part, r.data))) r = r := by
    intro r hr
    simp only [Function.comp]
    rw [keyOf_noNull tys r.part (hl r hr) (hn r hr)]
  rw [List.map_congr_left this, List.map_id']

/-- **the full statement is FALSE for the modelled code**: a NULL partition cell is filed under the
    slot's default value (`array.value(i)` ignores the validity bitmap) and reads back as `0` / `""` /
    `false`.  Witness: one Int row with a NULL partition value reads back with partition value 0. -/
theorem null_partition_value_not_preserved : ¬ demux_roundtrip_statement := by
  intro h
  have := h [.int] [{ part := [none], data := 7 }] (by simp)
  have hp : readBack (demux [.int] [({ part := [none], data := 7 } : Row Nat)])
      = [{ part := [some (.int 0)], data := 7 }] := by
    simp [readBack, demux, insertRow, keyOf, slot, nullSlot]
  rw [hp] at this
  have := this.eq_singleton
  simp at this

/-! non-vacuity -/
example : bytesOf "a/b=c%d é" = [97, 47, 98, 61, 99, 37, 100, 32, 195, 169] := by decide
example : encode pathPartSet (bytesOf "a/b=c%d é")
    = [97, 37, 50, 70, 98, 61, 99, 37, 50, 53, 100, 32, 37, 67, 51, 37, 65, 57] := by decide
theorem plain_p : PlainName [112] := by
  intro b hb
  simp only [List.mem_singleton] at hb
  subst hb; decide
/-- the hypotheses of `hive_path_roundtrip` are satisfiable with nasty values -/
example : parsePartitions (buildPath [([112], bytesOf "a/b=c%d é"), ([112], bytesOf "..")] [102]) [[112], [112]]
    = some [bytesOf "a/b=c%d é", bytesOf ".."] :=
  hive_path_roundtrip [([112], "a/b=c%d é"), ([112], "..")] [102]
    (by intro kv hkv; simp only [List.mem_cons, List.not_mem_nil, or_false] at hkv; rcases hkv with h | h <;> (subst h; exact plain_p))
example : demux [.int] [({ part := [some (.int 1)], data := 10 } : Row Nat), { part := [some (.int 2)], data := 20 },
    { part := [some (.int 1)], data := 30 }] = [([.int 1], [10, 30]), ([.int 2], [20])] := by decide

end DfModel.Props.C25
