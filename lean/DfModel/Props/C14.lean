/-
  C14 — join hash table lookups return exactly the matching build rows.

  Model `Sm/Jhm.lean` (`update_from_iter`, `traverse_chain`, `get_matched_indices`,
  `get_matched_indices_with_limit_offset` with the all-unique fast path and the resume offsets
  `(idx, None | Some 0 | Some next)`, `contain_hashes`).

  `WfMap m C` says that following `next` from the table entry of hash `h` visits exactly the rows
  `C h` (`Linked`) — `chain_lists_all_equal_hash_rows` proves it for every map built by
  `update_from_iter`, with `C h` = the rows inserted with hash `h`, latest first.  On such maps:
  `lookup_spec` (full lookup = every chain row of every probe, in order), `paged_concat_eq_full`
  (the concatenation of the pages equals the full lookup of the valid probes, for every limit > 0,
  every NULL mask, resuming from the returned offsets — chained path and fast path) and
  `contain_iff_lookup_nonempty`.
-/
import DfModel.Sm.Jhm
import DfModel.Proofs.C14
import DfModel.Proofs.C14b
namespace DfModel.Props.C14
open DfModel.Sm.Jhm DfModel.Proofs.C14

/-- **full lookup**: `get_matched_indices` returns, probe after probe, every row of the probe hash's
    chain, each once, in chain order — and nothing for hashes that are not in the table. -/
theorem lookup_spec (m : Map) (C : Nat → List Nat) (hw : WfMap m C) (probes : List (Nat × Nat)) :
    getMatchedIndices m probes = some (probes.flatMap (fun ph => (C ph.2).map (fun b => (ph.1, b)))) :=
  getMatched_spec hw probes

/-- `traverse_chain` delivers the next `min(remaining, |chain|)` rows of the chain and reports where
    to resume -/
theorem traverse_chain_spec (next : List Nat) (s : Nat) (c : List Nat) (h : Linked next s c) (hne : c ≠ [])
    (p : Nat) (isLast : Bool) (fuel r : Nat) (hf : c.length ≤ fuel) (hr : 0 < r) :
    (r ≤ c.length → ∃ nx, Linked next nx (c.drop r) ∧
        traverseChain next p isLast fuel s r =
          some ((c.take r).map (fun b => (p, b)), 0, if isLast ∧ nx = 0 then none else some (p, some nx))) ∧
    (c.length < r →
        traverseChain next p isLast fuel s r = some (c.map (fun b => (p, b)), r - c.length, none)) :=
  traverse_spec h hne p isLast hf hr

/-- **paging (chained path)**: for every `limit > 0`, calling
    `get_matched_indices_with_limit_offset` from `(0, None)` and then from each returned offset until
    it returns `None` terminates, and the concatenation of the pages is exactly the full lookup of the
    probes whose key is valid (`matchesOf`), in the same order. -/
theorem paged_concat_eq_full (m : Map) (C : Nat → List Nat) (hw : WfMap m C)
    (hslow : m.first.length ≠ m.next.length) (hashes : List Nat) (valid : List Bool) (limit : Nat)
    (hlim : 0 < limit) :
    ∃ ps, pages m hashes valid limit ((matchesOf C (probeRows hashes valid)).length + 1) (0, none) = some ps ∧
      ps.flatten = matchesOf C (probeRows hashes valid) := by
  apply pages_spec hw hslow hashes valid hlim _ (0, none) _ (Nat.le_refl _)
  exact ⟨Nat.zero_le _, by simp⟩

/-- **paging (all-unique fast path)**, taken when `map.len() == next.len()`: same statement; here a
    page covers `limit` probe rows. `hu` (every chain has one row) is what "all unique" means. -/
theorem paged_concat_eq_full_fast (m : Map) (C : Nat → List Nat) (hw : WfMap m C)
    (hu : ∀ h, (C h).length ≤ 1) (hfast : m.first.length = m.next.length)
    (hashes : List Nat) (valid : List Bool) (limit : Nat) (hlim : 0 < limit) :
    ∃ ps, pages m hashes valid limit (hashes.length + 1) (0, none) = some ps ∧
      ps.flatten = matchesOf C (probeRows hashes valid) := by
  obtain ⟨ps, h1, h2⟩ := pages_fast_spec hw hu hfast hashes valid hlim hashes.length 0 none (by omega) (by omega)
  exact ⟨ps, h1, by simpa using h2⟩

/-- one call never loses or duplicates anything: what it returns plus what the returned offset
    stands for is what remained before the call -/
theorem page_splits_rest (m : Map) (C : Nat → List Nat) (hw : WfMap m C)
    (hslow : m.first.length ≠ m.next.length) (hashes : List Nat) (valid : List Bool) (limit : Nat)
    (hlim : 0 < limit) (o : Offset) (R : Pairs) (hR : Rest m C (probeRows hashes valid) o R) :
    PageOk m C (probeRows hashes valid) limit R (page m hashes valid limit o) :=
  page_spec hw hslow hashes valid hlim o R hR

/-- **membership**: `contain_hashes` answers true exactly for the hashes whose lookup is non-empty -/
theorem contain_iff_lookup_nonempty (m : Map) (C : Nat → List Nat) (hw : WfMap m C) (hashes : List Nat)
    (i : Nat) (h : Nat) (hi : hashes[i]? = some h) :
    (containHashes m hashes)[i]? = some (decide (C h ≠ [])) := by
  simp only [containHashes, List.getElem?_map, hi, Option.map_some, Option.some.injEq]
  cases hf : find m h with
  | none => simp [hw.miss h hf]
  | some s => simp [(hw.hit h s hf).1]

/-- **chains**: a map built by `update_from_iter` over `ins` (distinct rows, all below the capacity,
    in whatever order the caller's iterator yields them, in one or several calls) never panics, and
    links, for every hash, exactly the rows inserted with that hash, each once, latest insertion first
    (`chainOf ins h`); hashes that were not inserted have no table entry. -/
theorem chain_lists_all_equal_hash_rows (cap : Nat) (ins : List (Nat × Nat))
    (hnd : (ins.map (·.1)).Nodup) (hlt : ∀ rh ∈ ins, rh.1 < cap) :
    ∃ m, updateFromIter (withCapacity cap) 0 ins = some m ∧ WfMap m (chainOf ins) ∧ m.next.length = cap := by
  obtain ⟨m, h1, hb⟩ := binv_update (cap := cap) ins (withCapacity cap) [] (binv_init cap) (by simpa using hnd) hlt
  simp only [List.nil_append] at hb
  refine ⟨m, h1, ⟨hb.miss, ?_⟩, hb.len⟩
  intro h s hs
  obtain ⟨a, b⟩ := hb.hit h s hs
  refine ⟨a, b, ?_⟩
  have hsub : chainOf ins h ⊆ List.range cap := by
    intro x hx
    obtain ⟨rh, hrh, rfl⟩ := List.mem_map.mp (mem_chainOf hx)
    exact List.mem_range.mpr (hlt rh hrh)
  have := List.Nodup.length_le_of_subset (chainOf_nodup hnd h) hsub
  rw [hb.len]; simpa using this

/-- building in several `update_from_iter` calls (batches) is building with the concatenation -/
theorem updateFromIter_append (m : Map) (d : Nat) (a b : List (Nat × Nat)) :
    updateFromIter m d (a ++ b) = (updateFromIter m d a).bind (fun m' => updateFromIter m' d b) := by
  induction a generalizing m with
  | nil => rfl
  | cons rh rest ih =>
    obtain ⟨row, h⟩ := rh
    simp only [List.cons_append, updateFromIter]
    cases Sm.Jhm.insert m row h d with
    | none => rfl
    | some m' => exact ih m'

/-- **end to end** (chained path): for a map built from any insertion sequence with duplicates, the
    pages of any size concatenate to: for every valid probe, every build row with an equal hash,
    each once, latest insertion first. -/
theorem built_paged_concat_eq_full (cap : Nat) (ins : List (Nat × Nat))
    (hnd : (ins.map (·.1)).Nodup) (hlt : ∀ rh ∈ ins, rh.1 < cap)
    (hashes : List Nat) (valid : List Bool) (limit : Nat) (hlim : 0 < limit) :
    ∃ m, updateFromIter (withCapacity cap) 0 ins = some m ∧
      (m.first.length ≠ m.next.length →
        ∃ ps, pages m hashes valid limit ((matchesOf (chainOf ins) (probeRows hashes valid)).length + 1) (0, none) = some ps ∧
          ps.flatten = matchesOf (chainOf ins) (probeRows hashes valid)) := by
  obtain ⟨m, h1, hw, _⟩ := chain_lists_all_equal_hash_rows cap ins hnd hlt
  exact ⟨m, h1, fun hslow => paged_concat_eq_full m _ hw hslow hashes valid limit hlim⟩

/-! ### tests / non-vacuity (concrete instances; `decide`) -/

def demo : Option Map := updateFromIter (withCapacity 5) 0 [(4, 10), (3, 10), (2, 20), (1, 10), (0, 20)]

-- build in descending row order (HashJoinExec): chains ascend
example : demo = some { first := [(10, 2), (20, 1)], next := [3, 4, 0, 5, 0] } := by decide

-- the chain of hash 10 is rows 1,3,4 = chainOf, and paging with limit 2 over probes [10, 30, 20, 10]
example : chainOf [(4, 10), (3, 10), (2, 20), (1, 10), (0, 20)] 10 = [1, 3, 4] := by decide
example :
    (demo.bind fun m => pages m [10, 30, 20, 10] [] 2 20 (0, none))
      = some [[(0, 1), (0, 3)], [(0, 4), (2, 0)], [(2, 2), (3, 1)], [(3, 3), (3, 4)]] := by decide
example :
    (demo.bind fun m => getMatchedIndices m [(0, 10), (1, 30), (2, 20), (3, 10)])
      = some [(0, 1), (0, 3), (0, 4), (2, 0), (2, 2), (3, 1), (3, 3), (3, 4)] := by decide
-- NULL mask and limit 1: resume offsets of all three kinds occur
example :
    (demo.bind fun m => pages m [10, 30, 20, 10] [true, true, false, true] 1 20 (0, none))
      = some [[(0, 1)], [(0, 3)], [(0, 4)], [(3, 1)], [(3, 3)], [(3, 4)]] := by decide
-- fast path
example :
    ((updateFromIter (withCapacity 3) 0 [(2, 1), (1, 2), (0, 3)]).bind fun m =>
        pages m [1, 2, 9, 3, 1] [true, false, true, true, true] 2 20 (0, none))
      = some [[(0, 2)], [(3, 0)], [(4, 2)]] := by decide

end DfModel.Props.C14
