/-
  C02 — query results do not depend on execution configuration or parallelism.

  Theorems on the model of partitioned execution (`Mech/Partitioned.lean`): however the input is
  split into partitions and batches, however many partitions the exchanges create and whatever hash
  function they use, the partitioned evaluation computes the same bag of rows as the evaluation of
  the whole relation.
-/
import DfModel.Mech.Partitioned
import DfModel.Proofs.C02
import DfModel.Proofs.C02b
namespace DfModel.Props.C02
open DfModel DfModel.Mech.Partitioned DfModel.Proofs.C02

/-! ### filter / project: any split into partitions and batches -/

/-- **filter_project_distribute** (filter): filtering partition by partition (batch by batch) and
    concatenating = filtering the whole relation, errors included -/
theorem filter_distribute (e : Expr) (env : Env) (ps : Parts) :
    (perPartition (evalFilter e env) ps).map whole = evalFilter e env (whole ps) :=
  distributes_parts _ (evalFilter_distributes e env) ps

/-- **filter_project_distribute** (project) -/
theorem project_distribute (es : List Expr) (env : Env) (ps : Parts) :
    (perPartition (evalProject es env) ps).map whole = evalProject es env (whole ps) :=
  distributes_parts _ (evalProject_distributes es env) ps

/-- the same one level down: a partition is a list of batches -/
theorem filter_batches (e : Expr) (env : Env) (batches : List (List Row)) :
    (batches.mapM (evalFilter e env)).map List.flatten = evalFilter e env batches.flatten :=
  filter_distribute e env batches

/-! ### hash repartitioning -/

/-- **hash_repartition_colocates**: a row is in partition `i` iff its key hashes to `i`; hence two rows
    with the same key are always in the same partition — for every hash function and every `n` -/
theorem hash_repartition_mem (n : Nat) (key : Row → Row) (h : Row → Nat) (rows : List Row) (i : Nat) (hi : i < n) (r : Row) :
    r ∈ (hashRepartition n key h rows)[i]?.getD [] ↔ r ∈ rows ∧ h (key r) % n = i := by
  simp [hashRepartition, hi]

theorem hash_repartition_colocates (n : Nat) (key : Row → Row) (h : Row → Nat) (rows : List Row) (i : Nat) (hi : i < n)
    (r r' : Row) (hk : key r = key r') (hr : r ∈ (hashRepartition n key h rows)[i]?.getD []) (hr' : r' ∈ rows) :
    r' ∈ (hashRepartition n key h rows)[i]?.getD [] := by
  rw [hash_repartition_mem n key h rows i hi] at hr ⊢
  exact ⟨hr', by rw [← hk]; exact hr.2⟩

/-- repartitioning loses and duplicates nothing -/
theorem hash_repartition_perm (n : Nat) (hn : 0 < n) (key : Row → Row) (h : Row → Nat) (rows : List Row) :
    (whole (hashRepartition n key h rows)).Perm rows := by
  have hs : ∀ l : List Row, l.flatMap (fun r => [r]) = l := by
    intro l
    induction l with
    | nil => rfl
    | cons a as ih => simp [ih]
  have := partition_flatMap_perm n (fun r => h (key r) % n) (fun r => Nat.mod_lt _ hn) rows (fun r => [r])
  simp only [hs] at this
  have e1 : whole (hashRepartition n key h rows)
      = (List.range n).flatMap (fun i => rows.filter (fun r => h (key r) % n == i)) := by
    simp [whole, hashRepartition, List.flatMap_def]
  rw [e1]
  exact this

/-! ### partition-wise joins -/

/-- **join_partitionwise.**  Both sides hash-partitioned on their join keys (`kL`, `kR`, same hash and
    partition count), the join condition implies equal keys: the concatenation of the per-partition
    joins is a permutation of the join of the whole inputs — for the five join types driven by the
    left rows (inner, left, left semi, left anti, left mark).  No assumption on the hash function. -/
theorem join_partitionwise (θ : Row → Row → Bool) (jt : JoinType) (hjt : leftDriven jt = true) (wl wr n : Nat) (hn : 0 < n)
    (kL kR : Row → Row) (h : Row → Nat) (L R : List Row)
    (hθ : ∀ l r, θ l r = true → kL l = kR r) :
    ((List.range n).flatMap (fun i =>
        joinRows θ jt wl wr ((hashRepartition n kL h L)[i]?.getD []) ((hashRepartition n kR h R)[i]?.getD []))).Perm
      (joinRows θ jt wl wr L R) := by
  rw [joinRows_perLeft θ jt wl wr L R hjt]
  have hparts : ∀ i ∈ List.range n,
      joinRows θ jt wl wr ((hashRepartition n kL h L)[i]?.getD []) ((hashRepartition n kR h R)[i]?.getD [])
        = (L.filter (fun l => h (kL l) % n == i)).flatMap (perLeft θ jt wr R) := by
    intro i hi
    have hi' : i < n := List.mem_range.mp hi
    simp only [hashRepartition, List.getElem?_map, List.getElem?_range hi', Option.map_some, Option.getD_some]
    rw [joinRows_perLeft θ jt wl wr _ _ hjt]
    apply flatMap_congr'
    intro l hl
    have hli : h (kL l) % n = i := by simpa using (List.mem_filter.mp hl).2
    apply perLeft_colocated
    intro r hr
    have := hθ l r hr
    simp [← this, hli]
  rw [flatMap_congr' _ _ _ hparts]
  exact partition_flatMap_perm n (fun l => h (kL l) % n) (fun l => Nat.mod_lt _ hn) L (perLeft θ jt wr R)

/-- the per-partition inputs of a partitioned join -/
abbrev partL (n : Nat) (k : Row → Row) (h : Row → Nat) (X : List Row) (i : Nat) : List Row :=
  (hashRepartition n k h X)[i]?.getD []

/-- the three right-driven types are the left-driven ones with the sides exchanged -/
theorem join_partitionwise_right (θ : Row → Row → Bool) (jt : JoinType)
    (hjt : jt = .rightSemi ∨ jt = .rightAnti ∨ jt = .rightMark) (wl wr n : Nat) (hn : 0 < n)
    (kL kR : Row → Row) (h : Row → Nat) (L R : List Row)
    (hθ : ∀ l r, θ l r = true → kL l = kR r) :
    ((List.range n).flatMap (fun i => joinRows θ jt wl wr (partL n kL h L i) (partL n kR h R i))).Perm
      (joinRows θ jt wl wr L R) := by
  have hflip : ∀ r l, (fun r l => θ l r) r l = true → kR r = kL l := fun r l hrl => (hθ l r hrl).symm
  rcases hjt with rfl | rfl | rfl
  · exact join_partitionwise (fun r l => θ l r) .leftSemi rfl wr wl n hn kR kL h R L hflip
  · exact join_partitionwise (fun r l => θ l r) .leftAnti rfl wr wl n hn kR kL h R L hflip
  · exact join_partitionwise (fun r l => θ l r) .leftMark rfl wr wl n hn kR kL h R L hflip

theorem flatMap_map' {α β γ : Type} (l : List α) (f : α → List β) (g : β → γ) :
    l.flatMap (fun a => (f a).map g) = (l.flatMap f).map g := by
  induction l with
  | nil => rfl
  | cons a as ih => simp [ih]

/-- **join_partitionwise for all ten join types** (`HashJoinExec` in `PartitionMode::Partitioned`):
    RIGHT and FULL are a left-driven part followed by the unmatched right rows -/
theorem join_partitionwise_all (θ : Row → Row → Bool) (jt : JoinType) (wl wr n : Nat) (hn : 0 < n)
    (kL kR : Row → Row) (h : Row → Nat) (L R : List Row)
    (hθ : ∀ l r, θ l r = true → kL l = kR r) :
    ((List.range n).flatMap (fun i => joinRows θ jt wl wr (partL n kL h L i) (partL n kR h R i))).Perm
      (joinRows θ jt wl wr L R) := by
  have anti := join_partitionwise_right θ .rightAnti (Or.inr (Or.inl rfl)) wl wr n hn kL kR h L R hθ
  have antiMap : ((List.range n).flatMap (fun i =>
      (rightAntiJoin θ (partL n kL h L i) (partL n kR h R i)).map (nulls wl ++ ·))).Perm
      ((rightAntiJoin θ L R).map (nulls wl ++ ·)) := by
    rw [flatMap_map']
    exact List.Perm.map _ anti
  cases jt with
  | inner => exact join_partitionwise θ .inner rfl wl wr n hn kL kR h L R hθ
  | left => exact join_partitionwise θ .left rfl wl wr n hn kL kR h L R hθ
  | leftSemi => exact join_partitionwise θ .leftSemi rfl wl wr n hn kL kR h L R hθ
  | leftAnti => exact join_partitionwise θ .leftAnti rfl wl wr n hn kL kR h L R hθ
  | leftMark => exact join_partitionwise θ .leftMark rfl wl wr n hn kL kR h L R hθ
  | rightSemi => exact join_partitionwise_right θ .rightSemi (Or.inl rfl) wl wr n hn kL kR h L R hθ
  | rightAnti => exact anti
  | rightMark => exact join_partitionwise_right θ .rightMark (Or.inr (Or.inr rfl)) wl wr n hn kL kR h L R hθ
  | right =>
    have inner := join_partitionwise θ .inner rfl wl wr n hn kL kR h L R hθ
    simp only [joinRows, rightJoin] at inner ⊢
    exact (flatMap_append_perm (List.range n) _ _).trans (List.Perm.append inner antiMap)
  | full =>
    have left := join_partitionwise θ .left rfl wl wr n hn kL kR h L R hθ
    simp only [joinRows, fullJoin] at left ⊢
    exact (flatMap_append_perm (List.range n) _ _).trans (List.Perm.append left antiMap)

/-- **broadcast join** (`PartitionMode::CollectLeft`, sides named here so that the broadcast side is
    the right one): the probe side split in ANY way (any class function `c` with `n` classes — hash,
    round robin, the input's own partitions), the other side whole in every partition.  Sound for the
    join types driven by the partitioned side only (inner, left, semi, anti, mark on that side); the
    other types need the shared "visited" state that `HashJoinExec` keeps across partitions. -/
theorem join_broadcast (θ : Row → Row → Bool) (jt : JoinType) (hjt : leftDriven jt = true) (wl wr n : Nat)
    (c : Row → Nat) (hc : ∀ l, c l < n) (L R : List Row) :
    ((List.range n).flatMap (fun i => joinRows θ jt wl wr (L.filter (fun l => c l == i)) R)).Perm
      (joinRows θ jt wl wr L R) := by
  rw [joinRows_perLeft θ jt wl wr L R hjt]
  have : ∀ i ∈ List.range n, joinRows θ jt wl wr (L.filter (fun l => c l == i)) R
      = (L.filter (fun l => c l == i)).flatMap (perLeft θ jt wr R) :=
    fun i _ => joinRows_perLeft θ jt wl wr _ R hjt
  rw [flatMap_congr' _ _ _ this]
  exact partition_flatMap_perm n c hc L (perLeft θ jt wr R)

/-! ### LIMIT pushdown -/

theorem take_pushed (n m : Nat) (hm : m ≤ n) (ps : Parts) :
    ((ps.map (List.take n)).flatten).take m = ps.flatten.take m := by
  induction ps generalizing m with
  | nil => rfl
  | cons p ps ih =>
    simp only [List.map_cons, List.flatten_cons, List.take_append]
    rw [List.take_take, Nat.min_eq_left hm]
    congr 1
    rw [List.length_take]
    by_cases hp : n ≤ p.length
    · have : m - min n p.length = 0 := by rw [Nat.min_eq_left hp]; omega
      have h2 : m - p.length = 0 := by omega
      rw [this, h2]; simp
    · have hp' : p.length < n := by omega
      rw [Nat.min_eq_right (by omega)]
      exact ih (m - p.length) (by omega)

/-- **limit_pushdown**: `LIMIT n` pushed into every partition and re-applied on top returns exactly
    the first `n` rows of the concatenated partitions — the sequential result — whatever the split -/
theorem limit_pushdown (n : Nat) (ps : Parts) : limitPushed n ps = limitRows 0 (some n) (whole ps) := by
  simp only [limitPushed, limitRows, whole, List.drop_zero]
  exact take_pushed n n (Nat.le_refl n) ps

/-! ### two-stage aggregation -/

theorem mapM_ok {α β : Type} (g : α → β) (l : List α) : l.mapM (fun a => (Except.ok (g a) : Except RtErr β)) = .ok (l.map g) := by
  induction l with
  | nil => rfl
  | cons a as ih => simp [List.mapM_cons, ih, bind, Except.bind, pure, Except.pure]

theorem sumVals_counts (ls : List Nat) :
    sumVals (ls.map (fun (n : Nat) => Val.int 64 true (Int.ofNat n)))
      = .ok (if ls = [] then none else some (true, Int.ofNat ls.sum)) := by
  induction ls with
  | nil => rfl
  | cons a as ih =>
    simp only [List.map_cons, sumVals, ih, bind, Except.bind]
    cases as with
    | nil => simp [pure, Except.pure]
    | cons b bs =>
      simp only [reduceCtorEq, if_false, pure, Except.pure, if_true, List.sum_cons]
      simp [Int.natCast_add]

def nnLen (p : List Val) : Nat := (p.filter (fun v => !v.isNull)).length

theorem nnLen_flatten (parts : List (List Val)) : (parts.map nnLen).sum = nnLen parts.flatten := by
  induction parts with
  | nil => rfl
  | cons p ps ih => simp [nnLen, List.filter_append] at ih ⊢; omega

/-- **agg_two_stage** for COUNT: per-partition counts added up by the final stage = the count over
    the whole input, for any split into partitions (counts below 2^63 as in the engine's Int64) -/
theorem agg_two_stage_count (parts : List (List Val)) (hsmall : inRange 64 true (Int.ofNat parts.flatten.length) = true) :
    twoStage .count parts = aggVals .count false parts.flatten.length parts.flatten := by
  have hpart : partialAgg .count = fun p => (Except.ok (Val.int 64 true (Int.ofNat (nnLen p))) : Except RtErr Val) := by
    funext p; simp [partialAgg, aggVals, nnLen]
  have hsingle : aggVals .count false parts.flatten.length parts.flatten = .ok (Val.int 64 true (Int.ofNat (nnLen parts.flatten))) := by
    simp [aggVals, nnLen]
  rw [hsingle]
  simp only [twoStage, hpart]
  rw [mapM_ok (fun p : List Val => Val.int 64 true (Int.ofNat (nnLen p))) parts]
  simp only [bind, Except.bind, finalAgg]
  have hf : (parts.map (fun p : List Val => Val.int 64 true (Int.ofNat (nnLen p)))).filter (fun v => !v.isNull)
      = (parts.map nnLen).map (fun (n : Nat) => Val.int 64 true (Int.ofNat n)) := by
    rw [List.map_map]
    apply List.filter_eq_self.mpr
    intro v hv
    obtain ⟨p, _, rfl⟩ := List.mem_map.mp hv
    rfl
  rw [hf, sumVals_counts, nnLen_flatten]
  cases hp : parts with
  | nil => rfl
  | cons p ps =>
    rw [← hp]
    have hne : (parts.map nnLen) ≠ [] := by simp [hp]
    simp only [hne, if_false, pure, Except.pure]
    have hle : nnLen parts.flatten ≤ parts.flatten.length := List.length_filter_le _ _
    have hrange : inRange 64 true (Int.ofNat (nnLen parts.flatten)) = true := by
      simp only [inRange, intMin, intMax, if_true, Bool.and_eq_true, decide_eq_true_eq] at hsmall ⊢
      have h0 : (0 : Int) ≤ Int.ofNat (nnLen parts.flatten) := Int.natCast_nonneg _
      have h1 : Int.ofNat (nnLen parts.flatten) ≤ Int.ofNat parts.flatten.length := Int.ofNat_le.mpr hle
      have hp2 : (0 : Int) < 2 ^ (64 - 1) := Int.pow_pos (by decide)
      generalize (2 : Int) ^ (64 - 1) = P at *
      constructor <;> omega
    rw [wrapInt_of_inRange 64 true _ (by decide) hrange]

/-- **agg_two_stage** for SUM over an Int64 column (NULLs anywhere, any values incl. MIN/MAX): the
    partial sums wrap like the engine's `add_wrapping`, the final stage adds them wrapping again, and
    the result is the wrapped total — for every split into partitions, empty partitions included -/
theorem agg_two_stage_sum (parts : List (List Val)) (h : Typed parts.flatten) :
    twoStage .sum parts = aggVals .sum false parts.flatten.length parts.flatten :=
  twoStage_sum parts h

/-- full statement for MIN / MAX (needs associativity of `minVal` / `maxVal` on the total preorder
    `cmpVal` with "first wins" ties; not proved here — every run compares the engine's two-stage
    results with the model's two-stage and single-stage results through op `twostage`) -/
def agg_two_stage_minmax_statement : Prop :=
  ∀ (fn : AggFn) (parts : List (List Val)), (fn = .min ∨ fn = .max) → Typed parts.flatten →
    twoStage fn parts = aggVals fn false parts.flatten.length parts.flatten

/-! ### non-vacuity / tests -/

-- two-stage SUM, MIN, MAX on a concrete split with NULLs and an empty partition (tests of the statement)
example : twoStage .sum [[.int 64 true 5, .null], [], [.int 64 true (-7), .int 64 true 9223372036854775807]]
    = aggVals .sum false 4 [.int 64 true 5, .null, .int 64 true (-7), .int 64 true 9223372036854775807] := by decide
example : twoStage .min [[.int 64 true 5, .null], [], [.int 64 true (-7)]] = .ok (.int 64 true (-7)) := by decide
example : twoStage .max [[.null], [], [.null]] = .ok .null := by decide
example : twoStage .count [[.int 64 true 5, .null], [], [.int 64 true (-7)]] = .ok (.int 64 true 2) := by decide

-- a partition-wise LEFT join over 3 hash partitions with a NULL key and an unmatched row
example :
    let θ : Row → Row → Bool := fun l r => match l, r with
      | [.int _ _ a], [.int _ _ b] => a == b
      | _, _ => false
    let L : List Row := [[.int 64 true 1], [.int 64 true 2], [.null], [.int 64 true 4]]
    let R : List Row := [[.int 64 true 2], [.int 64 true 1], [.int 64 true 2]]
    let hsh : Row → Nat := fun k => match k with
      | [.int _ _ a] => a.toNat
      | _ => 0
    ((List.range 3).flatMap (fun i => joinRows θ .left 1 1 ((hashRepartition 3 id hsh L)[i]?.getD []) ((hashRepartition 3 id hsh R)[i]?.getD []))).length
      = (joinRows θ .left 1 1 L R).length := by decide

-- LIMIT 2 over three partitions
example : limitPushed 2 [[[.int 64 true 1]], [], [[.int 64 true 2], [.int 64 true 3]]] = [[.int 64 true 1], [.int 64 true 2]] := by decide

end DfModel.Props.C02
