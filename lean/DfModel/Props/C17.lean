/-
  C17 — memory pool accounting is exact and limits are enforced.

  Model: `Sm/Pool.lean` (hand-written from memory_pool/{mod,pool,peak_recording}.rs, tied to the
  code by the correspondence harness `hplan/src/c17.rs` on every run).

  Sequential part: theorems for ALL operation histories (induction over `List Op`), all pool kinds,
  with the `TrackConsumersPool<PeakRecordingPool<inner>>` bookkeeping on top.
  Concurrent part: theorems for ALL schedules of the two-phase micro-step model.

  The property's fair-pool clause ("never grants a fallible growth beyond a spilling consumer's
  fair share") is FALSE for the code as it is, in two ways that share one root cause
  (`FairSpillPool::try_grow` compares `reservation.size() + additional` — the size of THIS
  reservation, read now — with the share, instead of a per-consumer ledger kept by the pool):
    * sequentially, when a consumer owns several reservations (`split/new_empty/take`):
      `fair_consumer_share_violated`;
    * concurrently, when two threads share one reservation: `fair_concurrent_share_exceeded`.
  Both are kernel-checked witnesses; what the code does guarantee is proved as
  `fair_grant_within_reservation_share` and `fair_never_grants_beyond_consumer_share_partial`.
-/
import DfModel.Sm.Pool
import DfModel.Proofs.C17
import DfModel.Proofs.C17Conc
namespace DfModel.Props.C17
open DfModel.Sm.Pool DfModel.Proofs.C17

/-! ## Sequential: all histories -/

/-- **Accounting is exact.** After any history on any pool kind, `reserved()` equals the sum of
    the live reservations' sizes; for the fair pool the spillable / unspillable counters equal the
    sums over the reservations of spilling / non-spilling consumers; and the PeakRecording
    wrapper's running total agrees. -/
theorem reserved_eq_sum_live (k : Kind) (ops : List Op) :
    let s := exec k init ops
    s.reserved k = sumSize s.res
    ∧ s.pk.reserved = sumSize s.res
    ∧ (∀ lim, k = .fair lim →
        s.led.spillable = sumSpill true s.res ∧ s.led.unspillable = sumSpill false s.res) := by
  intro s
  have h : Inv k s := inv_exec ops (inv_init k)
  refine ⟨?_, h.1.pk.1, ?_⟩
  · rw [St.reserved, ledgerIs_reserved h.1.led, sumSize_split]
  · intro lim hk
    have := h.1.led
    rw [hk] at this
    exact this

/-- No counter subtraction of the real code ever goes below zero (no wrap-around of
    `fetch_sub`, no `-=` overflow panic in `FairSpillPool::shrink`, no `checked_sub(1).unwrap()`
    panic in `unregister`): the model's truncated subtractions are never truncating. -/
theorem no_underflow (k : Kind) (ops : List Op) : (exec k init ops).bad = false :=
  (inv_exec ops (inv_init k)).1.bad

/-- **Zero once all are dropped**: no live reservation ⇒ nothing reserved, nothing tracked, no
    spilling consumer registered. -/
theorem zero_when_all_dropped (k : Kind) (ops : List Op) (h : (exec k init ops).res = []) :
    let s := exec k init ops
    s.reserved k = 0 ∧ s.pk.reserved = 0 ∧ s.cons = [] ∧ s.led.numSpill = 0 := by
  intro s
  have hi : Inv k s := inv_exec ops (inv_init k)
  obtain ⟨h1, h2, _⟩ := reserved_eq_sum_live k ops
  have hcons : s.cons = [] := by
    cases hc : s.cons with
    | nil => rfl
    | cons c cs =>
      obtain ⟨x, hx, _⟩ := hi.2.trackedOwner c (by rw [hc]; exact List.mem_cons_self)
      have hres : s.res = [] := h
      rw [hres] at hx
      cases hx
  refine ⟨?_, ?_, hcons, ?_⟩
  · show s.reserved k = 0
    rw [h1]; show sumSize s.res = 0; rw [show s.res = [] from h]; rfl
  · show s.pk.reserved = 0
    rw [h2]; show sumSize s.res = 0; rw [show s.res = [] from h]; rfl
  · rw [hi.2.numSpill, hcons]
    cases k <;> rfl

/-- **A failed attempt changes nothing**: whenever an operation answers `Err` (try_grow,
    try_resize: ResourcesExhausted; try_shrink: internal error) or panics (shrink / split beyond
    the size), the whole state — pool counters, every reservation, per-consumer metrics, peaks —
    is unchanged.  Holds for every state, hence along every history. -/
theorem failed_op_noop (k : Kind) (s : St) (op : Op)
    (h : (step k s op).2 = .errResources ∨ (step k s op).2 = .errInternal ∨ (step k s op).2 = .panic) :
    (step k s op).1 = s := by
  cases op <;> simp only [step] at h ⊢ <;> (repeat' split) <;> simp_all

theorem failed_try_grow_noop (k : Kind) (s : St) (r n : Nat)
    (h : (step k s (.tryGrow r n)).2 = .errResources) : (step k s (.tryGrow r n)).1 = s :=
  failed_op_noop k s _ (Or.inl h)

/-- **Greedy limit.** After any history, a granted fallible growth leaves the pool's total — and
    therefore the sum of all live reservations — within the limit (even if earlier infallible
    `grow`s had pushed the pool beyond it, in which case nothing is granted). -/
theorem greedy_never_grants_beyond_limit (lim : Nat) (ops : List Op) (r n : Nat)
    (h : (step (.greedy lim) (exec (.greedy lim) init ops) (.tryGrow r n)).2 = .ok) :
    let s' := (step (.greedy lim) (exec (.greedy lim) init ops) (.tryGrow r n)).1
    s'.reserved (.greedy lim) ≤ lim ∧ sumSize s'.res ≤ lim := by
  intro s'
  have hi : Inv (.greedy lim) s' := inv_step _ (inv_exec ops (inv_init _))
  have hu := greedy_grant_step lim _ r n h
  have hl : s'.led.used = sumSize s'.res := by
    have := hi.1.led
    simp only [LedgerIs] at this
    rw [this, sumSize_split]
  exact ⟨hu, by rw [← hl]; exact hu⟩

/-- the same through `try_resize` when it grows -/
theorem greedy_try_resize_within_limit (lim : Nat) (ops : List Op) (r cap : Nat) (x : Res)
    (hf : findRes (exec (.greedy lim) init ops).res r = some x) (hgrow : x.size < cap)
    (h : (step (.greedy lim) (exec (.greedy lim) init ops) (.tryResize r cap)).2 = .ok) :
    sumSize (step (.greedy lim) (exec (.greedy lim) init ops) (.tryResize r cap)).1.res ≤ lim := by
  have hsame : step (.greedy lim) (exec (.greedy lim) init ops) (.tryResize r cap)
      = step (.greedy lim) (exec (.greedy lim) init ops) (.tryGrow r (cap - x.size)) := by
    simp only [step, hf]
    rw [if_pos hgrow]
  rw [hsame] at h ⊢
  exact (greedy_never_grants_beyond_limit lim ops r (cap - x.size) h).2

/-- **What the fair pool does guarantee.** After any history, a granted `try_grow(n)`
    * on a reservation of a spilling consumer leaves THAT reservation within the fair share
      `(pool_size ⊖ unspillable) / num_spill` (share evaluated in the state after the grant —
      the grant does not change it);
    * on a reservation of a non-spilling consumer (n > 0) leaves the pool total — hence the sum
      of all live reservations — within the pool size. -/
theorem fair_grant_within_reservation_share (lim : Nat) (ops : List Op) (r n : Nat) (x : Res)
    (hf : findRes (exec (.fair lim) init ops).res r = some x)
    (h : (step (.fair lim) (exec (.fair lim) init ops) (.tryGrow r n)).2 = .ok) :
    let s' := (step (.fair lim) (exec (.fair lim) init ops) (.tryGrow r n)).1
    (x.spill = true →
        findRes s'.res r = some { x with size := x.size + n } ∧ x.size + n ≤ fairShare lim s'.led)
    ∧ (x.spill = false → 0 < n → s'.reserved (.fair lim) ≤ lim ∧ sumSize s'.res ≤ lim) := by
  intro s'
  have hi : Inv (.fair lim) s' := inv_step _ (inv_exec ops (inv_init _))
  have hres := granted_try_grow_adds _ _ r n x hf h
  have hsum : s'.reserved (.fair lim) = sumSize s'.res := by
    rw [St.reserved, ledgerIs_reserved hi.1.led, sumSize_split]
  -- unfold the one step to read off the pool's check
  have hstep : ∃ l', ledTryAdd (.fair lim) x.spill x.size n (exec (.fair lim) init ops).led = some l'
      ∧ s'.led = l' := by
    show ∃ l', _ ∧ (step (.fair lim) (exec (.fair lim) init ops) (.tryGrow r n)).1.led = l'
    simp only [step, hf] at h ⊢
    split at h
    · cases h
    · rename_i s2 hg
      simp only [doTryGrow, poolTryGrow] at hg
      split at hg
      · cases hg
      · rename_i s1 hs1
        split at hs1
        · cases hs1
        · rename_i l' hl'
          simp only [Option.some.injEq] at hs1 hg
          subst hs1; subst hg
          exact ⟨l', hl', rfl⟩
  obtain ⟨l', hl', hled⟩ := hstep
  constructor
  · intro hsp
    refine ⟨by rw [hres]; exact findRes_upd_same (· + n) hf, ?_⟩
    rw [hled]
    simp only [ledTryAdd, hsp, if_true] at hl'
    split at hl'
    · cases hl'
    · simp only [Option.some.injEq] at hl'
      subst hl'
      simp only [fairShare] at *
      omega
  · intro hsp hn
    have : s'.reserved (.fair lim) ≤ lim := by
      rw [St.reserved, hled]
      simp only [ledTryAdd, hsp, Bool.false_eq_true, if_false] at hl'
      split at hl'
      · cases hl'
      · simp only [Option.some.injEq] at hl'
        subst hl'
        simp only [Ledger.reserved]
        omega
    exact ⟨this, by rw [← hsum]; exact this⟩

/-- **Consumer tracking.** After any history, `TrackConsumersPool::metrics()` lists exactly the
    consumers that own live reservations (unique ids, same spill flag), each with `reserved` =
    the sum of that consumer's reservations and `peak ≥ reserved`. -/
theorem tracked_eq_per_consumer (k : Kind) (ops : List Op) :
    let s := exec k init ops
    (∀ c ∈ s.cons, c.reserved = sumCid c.cid s.res ∧ c.reserved ≤ c.peak)
    ∧ (∀ x ∈ s.res, ∃ c ∈ s.cons, c.cid = x.cid ∧ c.spill = x.spill)
    ∧ (∀ c ∈ s.cons, ∃ x ∈ s.res, x.cid = c.cid)
    ∧ (s.cons.map (·.cid)).Nodup ∧ (s.res.map (·.rid)).Nodup := by
  intro s
  have h : Inv k s := inv_exec ops (inv_init k)
  exact ⟨h.1.cons, h.2.ownerTracked, h.2.trackedOwner, h.2.cidNodup, h.2.ridNodup⟩

/-- **Peak recording.** After any history, `peak_reserved()` is the maximum of `reserved()` over
    the states since the last `reset_peak` (the state at the reset included) and
    `max_reserved()` the maximum of `reserved()` ever — `peakSpec` computes exactly these running
    maxima from the inner pool's `reserved()` after every operation. -/
theorem peak_eq_running_max_since_reset (k : Kind) (ops : List Op) :
    ((exec k init ops).pk.peak, (exec k init ops).pk.max) = peakSpec k init (0, 0) ops := by
  have gen : ∀ (ops : List Op) (s : St), Inv k s →
      ((exec k s ops).pk.peak, (exec k s ops).pk.max) = peakSpec k s (s.pk.peak, s.pk.max) ops := by
    intro ops
    induction ops with
    | nil => intro s _; rfl
    | cons op ops ih =>
      intro s hs
      have hstep := peak_step k s op hs
      simp only [exec, peakSpec]
      rw [ih _ (inv_step op hs)]
      by_cases e : op = .resetPeak
      · obtain ⟨e1, e2⟩ := hstep.1 e
        subst e
        simp only [e1, e2]
      · obtain ⟨e1, e2⟩ := hstep.2 e
        rw [e1, e2]
        cases op <;> first | rfl | exact absurd rfl e
  exact gen ops init (inv_init k)

/-! ### the per-consumer clause of the property -/

/-- The property's clause for the fair pool, as written: after any history, a granted fallible
    growth never leaves a spilling CONSUMER (all its reservations together) above its fair share
    of the non-spillable remainder. -/
def fair_never_grants_beyond_consumer_share_statement : Prop :=
  ∀ (lim : Nat) (ops : List Op) (r n : Nat) (x : Res),
    findRes (exec (.fair lim) init ops).res r = some x → x.spill = true →
    (step (.fair lim) (exec (.fair lim) init ops) (.tryGrow r n)).2 = .ok →
    sumCid x.cid (step (.fair lim) (exec (.fair lim) init ops) (.tryGrow r n)).1.res
      ≤ fairShare lim (step (.fair lim) (exec (.fair lim) init ops) (.tryGrow r n)).1.led

/-- Proved part: the clause holds whenever the consumer owns ONE live reservation at the time of
    the call (no `split` / `new_empty` / `take` sibling alive).  What is missing for the full
    statement is exactly the multi-reservation case, which is false (next theorem): the pool
    would have to keep its own per-consumer ledger. -/
theorem fair_never_grants_beyond_consumer_share_partial
    (lim : Nat) (ops : List Op) (r n : Nat) (x : Res)
    (hf : findRes (exec (.fair lim) init ops).res r = some x) (hsp : x.spill = true)
    (hone : (exec (.fair lim) init ops).res.filter (fun y => y.cid == x.cid) = [x])
    (h : (step (.fair lim) (exec (.fair lim) init ops) (.tryGrow r n)).2 = .ok) :
    sumCid x.cid (step (.fair lim) (exec (.fair lim) init ops) (.tryGrow r n)).1.res
      ≤ fairShare lim (step (.fair lim) (exec (.fair lim) init ops) (.tryGrow r n)).1.led := by
  have h1 := (fair_grant_within_reservation_share lim ops r n x hf h).1 hsp
  rw [granted_try_grow_adds _ _ r n x hf h]
  have h2 := sum_add (fun cid _ => cid == x.cid) n hf
  simp only [beq_self_eq_true, if_true] at h2
  have h3 := sumCid_of_filter_single _ x hone
  simp only [sumCid] at h3 ⊢
  rw [h2, h3]
  exact h1.2

/-- **The clause is violated by the code** (sequentially): pool of 100, one spilling consumer,
    `r0.try_grow(100)` Ok, `r1 = r0.new_empty()`, `r1.try_grow(100)` Ok ⇒ the consumer holds 200,
    its fair share (and the whole pool) is 100.  Reproduced on the real code by the harness
    (signature `fair-consumer-share multi-reservation`, known finding). -/
theorem fair_consumer_share_violated : ¬ fair_never_grants_beyond_consumer_share_statement := by
  intro h
  have := h 100 [.register true, .tryGrow 0 100, .newEmpty 0] 1 100
    { rid := 1, cid := 0, size := 0, spill := true } (by decide) rfl (by decide)
  revert this
  decide

/-- the concrete numbers of the witness (a test, by evaluation) -/
example :
    let s := exec (.fair 100) init [.register true, .tryGrow 0 100, .newEmpty 0, .tryGrow 1 100]
    sumCid 0 s.res = 200 ∧ fairShare 100 s.led = 100 ∧ s.reserved (.fair 100) = 200 := by decide

/-! ### non-vacuity (tests by evaluation) -/

-- a history exercising every op kind and outcome on the fair pool
example :
    (run (.fair 100) init
      [.register true, .register false, .tryGrow 0 60, .tryGrow 1 50, .tryGrow 1 40, .grow 1 5,
       .shrink 0 70, .tryShrink 0 70, .tryShrink 0 10, .split 0 20, .split 0 31, .newEmpty 1, .take 0,
       .resize 0 7, .tryResize 0 3, .tryResize 0 1000, .resetPeak, .free 1, .drop 1, .drop 4, .drop 0,
       .drop 2, .drop 3]).2
      = [.registered 0 0, .registered 1 1, .ok, .errResources, .ok, .unit,
         .panic, .errInternal, .okSize 50, .newRes 2, .panic, .newRes 3, .newRes 4,
         .unit, .ok, .errResources, .unit, .freed 45, .unit, .unit, .unit, .unit, .unit] := by decide

-- the hypotheses of the limit theorems are satisfiable: a grant and a refusal at the boundary
example : (step (.greedy 100) (exec (.greedy 100) init [.register false, .tryGrow 0 60]) (.tryGrow 0 40)).2 = .ok := by decide
example : (step (.greedy 100) (exec (.greedy 100) init [.register false, .tryGrow 0 60]) (.tryGrow 0 41)).2 = .errResources := by decide
example : (step (.fair 100) (exec (.fair 100) init [.register true, .register true, .register false, .tryGrow 2 10])
    (.tryGrow 0 45)).2 = .ok := by decide
example : (step (.fair 100) (exec (.fair 100) init [.register true, .register true, .register false, .tryGrow 2 10])
    (.tryGrow 0 46)).2 = .errResources := by decide
-- single-reservation hypothesis of the partial theorem is satisfiable together with a grant
example :
    let s := exec (.fair 100) init [.register true, .register true, .tryGrow 0 10]
    s.res.filter (fun y => y.cid == 0) = [⟨0, 0, 10, true⟩]
      ∧ (step (.fair 100) s (.tryGrow 0 40)).2 = .ok := by decide
-- peaks: peak follows the reset, max does not
example :
    let s := exec .unbounded init [.register false, .grow 0 50, .shrink 0 40, .resetPeak, .grow 0 5]
    (s.pk.peak, s.pk.max) = (15, 50) ∧ peakSpec .unbounded init (0, 0)
      [.register false, .grow 0 50, .shrink 0 40, .resetPeak, .grow 0 5] = (15, 50) := by decide
-- all dropped: hypothesis of `zero_when_all_dropped` is reachable after real activity
example : (exec (.fair 100) init [.register true, .tryGrow 0 60, .split 0 20, .drop 0, .drop 1]).res = [] := by decide

/-! ## Concurrent: all schedules of the micro-step model -/

open DfModel.Proofs.C17Conc

/-- **Accounting under every schedule.** From any consistent starting point (in particular the
    empty pool `cinit`), after ANY schedule of the two-phase micro-steps of any programs on
    shared reservations, the pool's counters equal the live sizes PLUS the bytes in flight —
    growth already granted by the pool but not yet added to `size`, and bytes already taken out
    of `size` but not yet returned to the pool.  (Both kinds of in-flight bytes make the pool
    err on the safe side: `reserved() ≥ Σ sizes` at every instant.)  No counter underflows. -/
theorem reserved_eq_sum_live_plus_inflight (k : Kind) (numSpill : Nat) (rs : List (Nat × Bool))
    (progs : List (List COp)) (sched : List Nat) :
    let c := crun k (cinit numSpill rs progs) sched
    c.led.reserved k = sumSize c.res + (inflight true c.threads + inflight false c.threads)
    ∧ (∀ lim, k = .fair lim →
        c.led.spillable = sumSpill true c.res + inflight true c.threads
        ∧ c.led.unspillable = sumSpill false c.res + inflight false c.threads)
    ∧ c.bad = false := by
  intro c
  have h : CInv k c := cinv_crun sched (cinv_cinit k numSpill rs progs)
  refine ⟨?_, ?_, h.bad⟩
  · rw [ledgerIs_reserved h.led, sumSize_split]; omega
  · intro lim hk
    have := h.led
    rw [hk] at this
    exact this

/-- …and exact equality whenever no call is between its two phases (quiescence). -/
theorem reserved_eq_sum_live_at_quiescence (k : Kind) (numSpill : Nat) (rs : List (Nat × Bool))
    (progs : List (List COp)) (sched : List Nat)
    (hq : quiescent (crun k (cinit numSpill rs progs) sched).threads = true) :
    (crun k (cinit numSpill rs progs) sched).led.reserved k
      = sumSize (crun k (cinit numSpill rs progs) sched).res := by
  have h := (reserved_eq_sum_live_plus_inflight k numSpill rs progs sched).1
  rw [inflight_quiescent _ _ hq, inflight_quiescent _ _ hq] at h
  simpa using h

/-- **Greedy limit under every schedule.** `GreedyMemoryPool::try_grow` is one atomic
    `fetch_update`, so if no thread uses the infallible `grow`, then at every point of every
    schedule `used ≤ pool_size`; hence everything held or already granted
    (Σ sizes + in-flight growth) stays within the limit. -/
theorem greedy_limit_concurrent (lim numSpill : Nat) (rs : List (Nat × Bool))
    (progs : List (List COp)) (sched : List Nat)
    (hno : ∀ p ∈ progs, noInfallibleGrow p = true) :
    let c := crun (.greedy lim) (cinit numSpill rs progs) sched
    c.led.used ≤ lim ∧ sumSize c.res + inflightGrows c.threads ≤ lim := by
  intro c
  have hu : c.led.used ≤ lim :=
    greedy_used_le_crun lim sched _ (by simp [cinit]) (noGrow_cinit numSpill rs progs hno)
  have h : c.led.reserved (.greedy lim)
      = sumSize c.res + (inflight true c.threads + inflight false c.threads) :=
    (reserved_eq_sum_live_plus_inflight (.greedy lim) numSpill rs progs sched).1
  have hg := inflightGrows_le c.threads
  simp only [Ledger.reserved] at h
  exact ⟨hu, by omega⟩

/-- **The fair pool's share and limit ARE exceeded under a concrete schedule** (kernel-checked
    witness of the confirmed concurrent defect): pool of 100, one spilling consumer, ONE
    reservation shared by two threads, each calling `try_grow(60)`; schedule
    `[t0 phase A, t1 phase A, t0 phase B, t1 phase B]`: both checks read `size() = 0`, both are
    granted, the reservation ends at 120 > share = limit = 100.  Under the serial schedule
    `[0,0,1,1]` the second call is refused. -/
theorem fair_concurrent_share_exceeded :
    let c := crun (.fair 100) (cinit 1 [(0, true)] [[.tryGrow 0 60], [.tryGrow 0 60]]) [0, 1, 0, 1]
    c.threads.map (·.outs) = [[.ok], [.ok]]
    ∧ c.res.map (·.size) = [120] ∧ c.led.reserved (.fair 100) = 120
    ∧ fairShare 100 c.led = 100 ∧ quiescent c.threads = true := by decide

example :
    let c := crun (.fair 100) (cinit 1 [(0, true)] [[.tryGrow 0 60], [.tryGrow 0 60]]) [0, 0, 1, 1]
    c.threads.map (·.outs) = [[.ok], [.errResources]] ∧ c.res.map (·.size) = [60] := by decide

-- the greedy pool refuses the second call under the racing schedule (non-vacuity of
-- `greedy_limit_concurrent`: its hypothesis holds and a grant really happens)
example :
    let c := crun (.greedy 100) (cinit 0 [(0, true)] [[.tryGrow 0 60], [.tryGrow 0 60]]) [0, 1, 0, 1]
    c.threads.map (·.outs) = [[.ok], [.errResources]] ∧ c.res.map (·.size) = [60]
      ∧ noInfallibleGrow [COp.tryGrow 0 60] = true := by decide

-- in-flight bytes of both kinds really occur: after [t0 A (grant), t1 A (size taken)] the pool
-- says 70 while the sizes sum to 20
example :
    let c := crun (.greedy 100)
      { (cinit 0 [(0, false)] [[.tryGrow 0 30], [.shrink 0 20]]) with
        led := ⟨40, 0, 0, 0⟩, res := [⟨0, 0, 40, false⟩] } [0, 1]
    c.led.used = 70 ∧ sumSize c.res = 20 ∧ inflight false c.threads = 50 := by decide

end DfModel.Props.C17
