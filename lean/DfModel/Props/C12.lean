/-
  C12 — row hashes depend only on the logical row value.

  `hashCol` mirrors the kernels of datafusion/common/src/hash_utils.rs over physical encodings;
  the per-value hash functions are uninterpreted.  Main result: every kernel computes, row by
  row, `lhash ty rehash prev (logical value)`; hence two physically different encodings of the
  same logical column (same data type) get identical hashes, alone or inside multi-column keys.
-/
import DfModel.Mech.RowHash
import DfModel.Proofs.C12b
namespace DfModel.Props.C12
open DfModel.Mech.RowHash DfModel.Proofs.C12
open List

/-- every kernel (null-free fast path, `valid_indices` path, inline/out-of-line views, dictionary
    scatter, run expansion, list / struct child hashing) computes the logical hash of each row -/
theorem hashCol_eq_logical_hash (H : Hasher) (p : Phys) (rehash : Bool) (buf : List Nat)
    (hwf : WF p) (hlen : buf.length = p.len) :
    hashCol H p rehash buf = List.zipWith (lhash H p.ty rehash) buf p.logical :=
  hashCol_spec H p rehash buf hwf hlen

/-- **C12, one column**: same type, same logical column ⇒ same hashes, for every hash function,
    first column or later column (`rehash`), any incoming buffer. -/
theorem hash_logical (H : Hasher) (a b : Phys) (rehash : Bool) (buf : List Nat)
    (ha : WF a) (hb : WF b) (hty : a.ty = b.ty) (hl : a.logical = b.logical)
    (hlen : buf.length = a.len) :
    hashCol H a rehash buf = hashCol H b rehash buf := by
  have hlb : buf.length = b.len := by
    rw [hlen, ← logical_length a ha, hl, logical_length b hb]
  rw [hashCol_spec H a rehash buf ha hlen, hashCol_spec H b rehash buf hb hlb, hty, hl]

/-- the multi-column fold of `create_hashes` as a function of (type, logical column) only -/
def specFold (H : Hasher) : List (Ty × List LVal) → Bool → List Nat → List Nat
  | [], _, buf => buf
  | (ty, ls) :: rest, rehash, buf => specFold H rest true (List.zipWith (lhash H ty rehash) buf ls)

theorem createHashesFrom_spec (H : Hasher) (n : Nat) : ∀ (cols : List Phys) (rehash : Bool) (buf : List Nat),
    (∀ p ∈ cols, WF p ∧ p.len = n) → buf.length = n →
    createHashesFrom H cols rehash buf = specFold H (cols.map fun p => (p.ty, p.logical)) rehash buf
  | [], _, _, _, _ => rfl
  | p :: ps, rehash, buf, h, hlen => by
    have hp := h p (by simp)
    simp only [createHashesFrom, map_cons, specFold]
    rw [hashCol_spec H p rehash buf hp.1 (by rw [hlen, hp.2])]
    apply createHashesFrom_spec H n ps true
    · intro q hq; exact h q (by simp [hq])
    · rw [length_zipWith, hlen, logical_length p hp.1, hp.2]; simp

/-- **C12, multi-column keys**: column-wise equal logical values and types ⇒ equal row hashes
    from `create_hashes` (1..k key columns). -/
theorem createHashes_logical (H : Hasher) (n : Nat) (as bs : List Phys)
    (ha : ∀ p ∈ as, WF p ∧ p.len = n) (hb : ∀ p ∈ bs, WF p ∧ p.len = n)
    (hty : as.map Phys.ty = bs.map Phys.ty) (hl : as.map Phys.logical = bs.map Phys.logical) :
    createHashes H as n = createHashes H bs n := by
  unfold createHashes
  rw [createHashesFrom_spec H n as false _ ha (by simp [zeros]),
    createHashesFrom_spec H n bs false _ hb (by simp [zeros])]
  congr 1
  have : ∀ (xs ys : List Phys), xs.map Phys.ty = ys.map Phys.ty →
      xs.map Phys.logical = ys.map Phys.logical →
      xs.map (fun p => (p.ty, p.logical)) = ys.map (fun p => (p.ty, p.logical)) := by
    intro xs
    induction xs with
    | nil => intro ys h1 _; cases ys <;> simp_all
    | cons x xs ih =>
      intro ys h1 h2
      cases ys with
      | nil => simp at h1
      | cons y ys =>
        simp only [map_cons, cons.injEq] at h1 h2 ⊢
        exact ⟨by rw [h1.1, h2.1], ih ys h1.2 h2.2⟩
  exact this as bs hty hl

/-- NULL rows keep the incoming hash: whatever is stored physically under a NULL (garbage values,
    unused dictionary entries, child values under NULL parents) cannot influence it. -/
theorem null_row_keeps_hash (H : Hasher) (ty : Ty) (rehash : Bool) (prev : Nat) :
    lhash H ty rehash prev .null = prev := lhash_null H ty rehash prev

/-- child values under NULL list parents (and in offset gaps) are irrelevant -/
theorem null_under_parent_irrelevant (H : Hasher) (offsets : List Nat) (child child' : Phys)
    (v : Validity) (rehash : Bool) (buf : List Nat)
    (hw : WF (.list offsets child v)) (hw' : WF (.list offsets child' v)) (hty : child.ty = child'.ty)
    (hsame : ∀ wi ∈ (windows offsets).zipIdx, v.isValid wi.2 = true →
      slice child.logical wi.1.1 wi.1.2 = slice child'.logical wi.1.1 wi.1.2)
    (hlen : buf.length = offsets.length - 1) :
    hashCol H (.list offsets child v) rehash buf = hashCol H (.list offsets child' v) rehash buf := by
  apply hash_logical H _ _ rehash buf hw hw'
  · simp [Phys.ty, hty]
  · simp only [Phys.logical]
    apply map_congr_left
    intro wi hwi
    by_cases hv : v.isValid wi.2 = true
    · simp [hv, hsame wi hwi hv]
    · simp [hv]
  · simpa [Phys.len] using hlen

/-- unused / duplicate / re-ordered dictionary values are irrelevant: only what the valid keys
    point at matters -/
theorem dict_unused_values_irrelevant (H : Hasher) (keys keys' : List Nat) (kv kv' : Validity)
    (values values' : Phys) (rehash : Bool) (buf : List Nat)
    (hw : WF (.dict keys kv values)) (hw' : WF (.dict keys' kv' values'))
    (hty : values.ty = values'.ty)
    (hl : (Phys.dict keys kv values).logical = (Phys.dict keys' kv' values').logical)
    (hlen : buf.length = keys.length) :
    hashCol H (.dict keys kv values) rehash buf = hashCol H (.dict keys' kv' values') rehash buf :=
  hash_logical H _ _ rehash buf hw hw' (by simp [Phys.ty, hty]) hl (by simpa [Phys.len] using hlen)

/-- run boundaries and the slice offset of a run-end encoded array are irrelevant -/
theorem ree_boundaries_irrelevant (H : Hasher) (re re' : List Nat) (values values' : Phys)
    (off off' len : Nat) (rehash : Bool) (buf : List Nat)
    (hw : WF (.ree re values off len)) (hw' : WF (.ree re' values' off' len))
    (hty : values.ty = values'.ty)
    (hl : (Phys.ree re values off len).logical = (Phys.ree re' values' off' len).logical)
    (hlen : buf.length = len) :
    hashCol H (.ree re values off len) rehash buf = hashCol H (.ree re' values' off' len) rehash buf :=
  hash_logical H _ _ rehash buf hw hw' (by simp [Phys.ty, hty]) hl (by simpa [Phys.len] using hlen)

/-- `with_hashes` runs `create_hashes` on a zero-filled thread-local buffer of the batch length;
    in the model that is `createHashes` itself, so the buffered entry point agrees by definition -/
theorem with_hashes_eq_create (H : Hasher) (cols : List Phys) (n : Nat) :
    createHashesFrom H cols false (List.replicate n 0) = createHashes H cols n := rfl

/-! ### the side condition is needed: NULLs that are invisible to `null_count()`

  `hash_dictionary` / `hash_run_array` decide "is this value NULL" from the *physical* null count
  and validity bits of the values array.  A values array that is itself run-end encoded (physical
  null count always 0) or a dictionary (counts only its key nulls) can hold logical NULLs those
  tests do not see; in `rehash` mode such a row gets `combine_hashes(0, prev)` instead of `prev`.
  `WF` therefore demands `VisibleNulls` for nested values; the witness below shows the theorem is
  false without it. -/

theorem getD_zipIdx_map {α : Type} (xs : List α) (f : α × Nat → LVal) (i : Nat) (h : i < xs.length) :
    (xs.zipIdx.map f).getD i .null = f (xs[i], i) := by
  rw [getD_eq_getElem?_getD, getElem?_map, getElem?_zipIdx]
  simp [h]

/-- …and it only bites for dictionary / run-end arrays used as *values* of another dictionary /
    run-end array: flat arrays, lists and structs always expose their NULLs physically. -/
theorem visibleNulls_unless_nested_dict_or_ree (p : Phys) (hw : WF p)
    (h : match p with | .dict .. => False | .ree .. => False | _ => True) : VisibleNulls p := by
  intro i hi
  cases p with
  | dict => exact absurd h id
  | ree => exact absurd h id
  | prim vals v =>
    simp only [Phys.len] at hi
    simp only [Phys.logical, Phys.physValid, getD_zipIdx_map vals _ i hi]
    cases v.isValid i <;> rfl
  | bytes offsets data v =>
    simp only [Phys.len, ← windows_length] at hi
    simp only [Phys.logical, Phys.physValid, getD_zipIdx_map (windows offsets) _ i hi]
    cases v.isValid i <;> rfl
  | view views bufs v =>
    simp only [Phys.len] at hi
    simp only [Phys.logical, Phys.physValid, getD_zipIdx_map views _ i hi]
    cases v.isValid i <;> rfl
  | list offsets child v =>
    simp only [Phys.len, ← windows_length] at hi
    simp only [Phys.logical, Phys.physValid, getD_zipIdx_map (windows offsets) _ i hi]
    cases v.isValid i <;> rfl
  | struct c1 c2 v len =>
    simp only [Phys.logical, Phys.physValid]
    have hz : i < (List.zip c1.logical c2.logical).length := by
      obtain ⟨_, hw1, hw2, hl1, hl2⟩ := hw
      simp only [Phys.len] at hi
      rw [length_zip, logical_length c1 hw1, logical_length c2 hw2, hl1, hl2]
      omega
    rw [getD_zipIdx_map _ _ i hz]
    cases v.isValid i <;> rfl

def H0 : Hasher := { one := fun _ => 5, seeded := fun _ _ => 9 }

/-- NULL as a NULL *key*  vs  NULL as a key to a run-end value whose run is NULL -/
def encA : Phys := .dict [0] (some [false]) (.ree [1] (.prim [0] none) 0 1)
def encB : Phys := .dict [0] none (.ree [1] (.prim [0] (some [false])) 0 1)

theorem hidden_nulls_break_logical_hash :
    encA.ty = encB.ty ∧ encA.logical = encB.logical ∧
      hashCol H0 encA true [7] ≠ hashCol H0 encB true [7] := ⟨rfl, rfl, by decide⟩

/-! ### non-vacuity (tests evaluated by the kernel) -/

/-- a sliced, padded primitive array with garbage under the NULL  vs  a compact one without a
    validity buffer where possible -/
example : (Phys.prim [4, 99, 6] (some [true, false, true])).logical
    = (Phys.prim [4, 0, 6] (some [true, false, true])).logical := rfl

/-- re-keyed dictionary with unused and duplicate values, same logical column -/
def dictA : Phys := .dict [0, 1, 0, 2] (some [true, true, true, false]) (.prim [10, 20, 30] none)
def dictB : Phys := .dict [3, 1, 4, 0] none (.prim [77, 20, 88, 10, 10] (some [false, true, true, true, true]))

example : dictA.logical = dictB.logical := rfl
example : WF dictA ∧ WF dictB := by
  refine ⟨⟨rfl, trivial, ?_, ?_⟩, ⟨trivial, rfl, ?_, ?_⟩⟩
  · intro i hi
    have : i < 3 := hi
    match i, this with
    | 0, _ => decide
    | 1, _ => decide
    | 2, _ => decide
  · decide
  · intro i hi
    have : i < 5 := hi
    match i, this with
    | 0, _ => decide
    | 1, _ => decide
    | 2, _ => decide
    | 3, _ => decide
    | 4, _ => decide
  · decide
example : hashCol H0 dictA true [1, 2, 3, 4] = hashCol H0 dictB true [1, 2, 3, 4] := by decide

/-- split runs and a slice offset: [x x | y y y] as runs (2,5) at offset 0 vs runs (1,3,4,7) at offset 1 -/
def reeA : Phys := .ree [2, 5] (.prim [1, 2] none) 0 5
def reeB : Phys := .ree [1, 3, 4, 7] (.prim [8, 1, 2, 2] none) 1 5
example : reeA.logical = reeB.logical := rfl
example : hashCol H0 reeA false [0, 0, 0, 0, 0] = hashCol H0 reeB false [0, 0, 0, 0, 0] := by decide

/-- views: the same strings inlined / referenced from different buffers -/
def viewA : Phys := .view [.inline 2 [104, 105, 0, 0, 0, 0, 0, 0, 0, 0, 0, 0], .ref 13 0 0]
    [[1, 2, 3, 4, 5, 6, 7, 8, 9, 10, 11, 12, 13]] none
def viewB : Phys := .view [.inline 2 [104, 105, 0, 0, 0, 0, 0, 0, 0, 0, 0, 0], .ref 13 1 2]
    [[], [0, 0, 1, 2, 3, 4, 5, 6, 7, 8, 9, 10, 11, 12, 13, 0]] none
example : viewA.logical = viewB.logical := rfl

end DfModel.Props.C12
