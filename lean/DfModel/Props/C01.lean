/-
  C01 — SQL query results agree with the reference relational semantics.

  The reference is `DfModel.evalPlan` (L0–L2).  The theorems below pin that reference to SQL's
  definitions: each says that an operator of the reference is what the SQL standard says it is,
  stated without reference to how the operator is computed.  The engine is tied to the reference by
  the sampled correspondence (harness `c01.rs`), not by these theorems.
-/
import DfModel.Sql.Rel
namespace DfModel.Props.C01
open DfModel

/-! ## three-valued logic: the complete tables (finite, by `decide` over all 9 / 3 entries) -/

/-- AND is TRUE iff both are TRUE, FALSE iff one is FALSE (otherwise UNKNOWN); OR dually;
    NOT swaps TRUE/FALSE and fixes UNKNOWN. These five facts determine the three tables. -/
theorem tri_tables :
    (∀ a b, Tri.and a b = .t ↔ a = .t ∧ b = .t) ∧
    (∀ a b, Tri.and a b = .f ↔ a = .f ∨ b = .f) ∧
    (∀ a b, Tri.or a b = .t ↔ a = .t ∨ b = .t) ∧
    (∀ a b, Tri.or a b = .f ↔ a = .f ∧ b = .f) ∧
    (Tri.not .t = .f ∧ Tri.not .f = .t ∧ Tri.not .u = .u) := by
  refine ⟨?_, ?_, ?_, ?_, ?_⟩
  · intro a b; cases a <;> cases b <;> decide
  · intro a b; cases a <;> cases b <;> decide
  · intro a b; cases a <;> cases b <;> decide
  · intro a b; cases a <;> cases b <;> decide
  · decide

/-- Kleene algebra laws: commutative, associative, De Morgan, involution. -/
theorem tri_laws :
    (∀ a b, Tri.and a b = Tri.and b a) ∧ (∀ a b, Tri.or a b = Tri.or b a) ∧
    (∀ a b c, Tri.and (Tri.and a b) c = Tri.and a (Tri.and b c)) ∧
    (∀ a b c, Tri.or (Tri.or a b) c = Tri.or a (Tri.or b c)) ∧
    (∀ a b, Tri.not (Tri.and a b) = Tri.or (Tri.not a) (Tri.not b)) ∧
    (∀ a b, Tri.not (Tri.or a b) = Tri.and (Tri.not a) (Tri.not b)) ∧
    (∀ a, Tri.not (Tri.not a) = a) := by
  refine ⟨?_, ?_, ?_, ?_, ?_, ?_, ?_⟩
  · intro a b; cases a <;> cases b <;> rfl
  · intro a b; cases a <;> cases b <;> rfl
  · intro a b c; cases a <;> cases b <;> cases c <;> rfl
  · intro a b c; cases a <;> cases b <;> cases c <;> rfl
  · intro a b; cases a <;> cases b <;> rfl
  · intro a b; cases a <;> cases b <;> rfl
  · intro a; cases a <;> rfl

example : Tri.and .u .f = .f ∧ Tri.or .u .t = .t ∧ Tri.and .u .t = .u := by decide

/-! ## WHERE keeps exactly the rows on which the predicate is TRUE -/

/-- If the filter evaluates, its output is the sub-list of rows whose predicate value is TRUE
    (rows where it is FALSE or NULL are dropped), in input order. -/
theorem filter_keeps_true_only (e : Expr) (env : Env) (rows out : List Row)
    (h : evalFilter e env rows = .ok out) :
    out = rows.filter (fun r => decide (eval e r env = .ok (.bool true))) := by
  induction rows generalizing out with
  | nil => simp [evalFilter] at h; simp [h]
  | cons r rs ih =>
    simp only [evalFilter, bind, Except.bind] at h
    cases hb : holds e r env with
    | error x => simp [hb] at h
    | ok b =>
      simp only [hb] at h
      cases hr : evalFilter e env rs with
      | error x => simp [hr] at h
      | ok rest =>
        simp only [hr, pure, Except.pure, Except.ok.injEq] at h
        have := ih rest hr
        -- relate `holds` to `eval`
        have hb' : b = decide (eval e r env = .ok (.bool true)) := by
          simp only [holds, evalTri, bind, Except.bind, Except.map] at hb
          cases hv : eval e r env with
          | error x => simp [hv] at hb
          | ok v =>
            simp only [hv] at hb
            cases v with
            | null => simp [Tri.ofVal?, pure, Except.pure, Tri.isTrue] at hb; simp [← hb]
            | int w s n => simp [Tri.ofVal?] at hb
            | str cs => simp [Tri.ofVal?] at hb
            | bool x => cases x <;> simp [Tri.ofVal?, pure, Except.pure, Tri.isTrue] at hb <;> simp [← hb]
        rw [List.filter_cons, ← hb', ← this, ← h]

/-- the filter fails iff the predicate fails (or is not boolean) on some row: strictness -/
theorem filter_ok_of_all_ok (e : Expr) (env : Env) (rows : List Row)
    (h : ∀ r ∈ rows, ∃ b, holds e r env = .ok b) : ∃ out, evalFilter e env rows = .ok out := by
  induction rows with
  | nil => exact ⟨[], rfl⟩
  | cons r rs ih =>
    obtain ⟨b, hb⟩ := h r (by simp)
    obtain ⟨rest, hr⟩ := ih (fun x hx => h x (by simp [hx]))
    exact ⟨if b then r :: rest else rest, by simp [evalFilter, bind, Except.bind, hb, hr, pure, Except.pure]⟩

example : evalFilter (.bin .gt (.col 0) (.lit (.int 64 true 1))) {}
    [[.int 64 true 5], [.null], [.int 64 true 0]] = .ok [[.int 64 true 5]] := by decide

/-! ## joins -/

section joins
variable (θ : Row → Row → Bool)

/-- SEMI and ANTI join split the left input: every left row is in exactly one of them. -/
theorem semi_anti_partition (L R : List Row) : (semiJoin θ L R ++ antiJoin θ L R).Perm L := by
  unfold semiJoin antiJoin
  exact List.filter_append_perm (fun l => R.any (θ l)) L

/-- a row is in the SEMI join iff it is a left row with a partner; in the ANTI join iff without -/
theorem semi_mem (L R : List Row) (l : Row) : l ∈ semiJoin θ L R ↔ l ∈ L ∧ ∃ r ∈ R, θ l r = true := by
  simp [semiJoin]

theorem anti_mem (L R : List Row) (l : Row) : l ∈ antiJoin θ L R ↔ l ∈ L ∧ ∀ r ∈ R, θ l r = false := by
  simp [antiJoin]

/-- LEFT JOIN = INNER JOIN plus the unmatched left rows padded with NULLs (as bags). -/
theorem join_left_eq_inner_append_unmatched (wr : Nat) (L R : List Row) :
    (leftJoin θ wr L R).Perm (innerJoin θ L R ++ (antiJoin θ L R).map (· ++ nulls wr)) := by
  induction L with
  | nil => simp [leftJoin, innerJoin, antiJoin]
  | cons l ls ih =>
    simp only [leftJoin, innerJoin, antiJoin, List.flatMap_cons, List.filter_cons] at ih ⊢
    by_cases hm : R.any (θ l) = true
    · simp only [hm, if_true, Bool.not_true, Bool.false_eq_true, if_false]
      rw [List.append_assoc]
      exact List.Perm.append_left _ ih
    · have hm' : R.any (θ l) = false := by simpa using hm
      have hnone : R.filter (θ l) = [] := by
        rw [List.filter_eq_nil_iff]
        intro r hr
        exact (List.any_eq_false.mp hm') r hr
      simp only [hm', Bool.false_eq_true, if_false, Bool.not_false, if_true, hnone, List.map_nil,
        List.nil_append, List.map_cons, List.singleton_append]
      exact (List.Perm.cons _ ih).trans List.perm_middle.symm

/-- FULL JOIN = LEFT JOIN followed by the unmatched right rows padded on the left. -/
theorem full_eq_left_append_right_unmatched (wl wr : Nat) (L R : List Row) :
    fullJoin θ wl wr L R = leftJoin θ wr L R ++ (rightAntiJoin θ L R).map (nulls wl ++ ·) := rfl

/-- INNER JOIN rows are exactly the concatenations of matching pairs. -/
theorem inner_mem (L R : List Row) (x : Row) :
    x ∈ innerJoin θ L R ↔ ∃ l ∈ L, ∃ r ∈ R, θ l r = true ∧ x = l ++ r := by
  simp only [innerJoin, List.mem_flatMap, List.mem_map, List.mem_filter]
  constructor
  · rintro ⟨l, hl, r, ⟨hr, ht⟩, rfl⟩; exact ⟨l, hl, r, hr, ht, rfl⟩
  · rintro ⟨l, hl, r, hr, ht, rfl⟩; exact ⟨l, hl, r, ⟨hr, ht⟩, rfl⟩

/-- the multiplicity of a left row's matches: INNER JOIN has, per left row, one output row per
    matching right row -/
theorem inner_length (L R : List Row) :
    (innerJoin θ L R).length = (L.map (fun l => (R.filter (θ l)).length)).sum := by
  induction L with
  | nil => rfl
  | cons l ls ih => simp [innerJoin, List.flatMap_cons] at ih ⊢

/-- MARK join: every left row exactly once, marked TRUE iff it has a partner; selecting the rows
    marked TRUE and dropping the mark gives the SEMI join, those marked FALSE the ANTI join. -/
theorem mark_join_spec (L R : List Row) :
    (leftMarkJoin θ L R).map List.dropLast = L ∧
    ((leftMarkJoin θ L R).filter (fun x => x.getLast? == some (.bool true))).map List.dropLast = semiJoin θ L R ∧
    ((leftMarkJoin θ L R).filter (fun x => x.getLast? == some (.bool false))).map List.dropLast = antiJoin θ L R := by
  refine ⟨?_, ?_, ?_⟩
  · simp [leftMarkJoin, Function.comp_def]
  · induction L with
    | nil => rfl
    | cons l ls ih =>
      simp only [leftMarkJoin, semiJoin, List.map_cons, List.filter_cons] at ih ⊢
      cases hm : R.any (θ l) <;> simp [ih]
  · induction L with
    | nil => rfl
    | cons l ls ih =>
      simp only [leftMarkJoin, antiJoin, List.map_cons, List.filter_cons] at ih ⊢
      cases hm : R.any (θ l) <;> simp [ih]

end joins

example : leftJoin (fun l r => l == r) 1 [[.int 64 true 1], [.null]] [[.int 64 true 1], [.int 64 true 1]]
    = [[.int 64 true 1, .int 64 true 1], [.int 64 true 1, .int 64 true 1], [.null, .null]] := by decide

/-! ## IN / NOT IN with NULLs -/

/-- on comparable values `x = v` is UNKNOWN iff one side is NULL, else the equality test -/
theorem eqTri_spec (x v : Val) (r : Tri) (h : eqTri x v = .ok r) :
    (r = .u ↔ x = .null ∨ v = .null) ∧ (r = .t ↔ x ≠ .null ∧ v ≠ .null ∧ cmpVal x v = .eq) := by
  cases x <;> cases v <;> simp [eqTri, sameKind] at h <;> subst h <;>
    simp [Tri.ofBool] <;> split <;> simp_all

/-- `x NOT IN (S)` is TRUE exactly when `S` is empty, or `x` is not NULL and every element of `S`
    is a non-NULL value different from `x` (so one NULL in the list makes NOT IN never TRUE). -/
theorem not_in_null_aware (x : Val) (S : List Val) (r : Tri) (h : inListTri x S = .ok r) :
    r.not = .t ↔ S = [] ∨ (x ≠ .null ∧ ∀ s ∈ S, s ≠ .null ∧ cmpVal x s ≠ .eq) := by
  induction S generalizing r with
  | nil => simp [inListTri] at h; subst h; simp [Tri.not]
  | cons v vs ih =>
    simp only [inListTri, bind, Except.bind] at h
    cases he : eqTri x v with
    | error e => simp [he] at h
    | ok e =>
      simp only [he] at h
      cases hr : inListTri x vs with
      | error e' => simp [hr] at h
      | ok r' =>
        simp only [hr, pure, Except.pure, Except.ok.injEq] at h
        subst h
        have ih' := ih r' hr
        obtain ⟨hu, ht⟩ := eqTri_spec x v e he
        simp only [reduceCtorEq, false_or, List.mem_cons, forall_eq_or_imp]
        -- NOT (e OR r') = TRUE  iff  e = FALSE and r' = FALSE
        have key : (Tri.or e r').not = .t ↔ e = .f ∧ r'.not = .t := by
          cases e <;> cases r' <;> decide
        rw [key, ih']
        have hf : e = .f ↔ x ≠ .null ∧ v ≠ .null ∧ cmpVal x v ≠ .eq := by
          by_cases hx : x = .null <;> by_cases hv : v = .null <;> by_cases hc : cmpVal x v = .eq <;>
            cases e <;> simp_all
        rw [hf]
        constructor
        · rintro ⟨⟨hx, hv, hc⟩, h | h⟩
          · subst h; exact ⟨hx, ⟨hv, hc⟩, by simp⟩
          · exact ⟨hx, ⟨hv, hc⟩, h.2⟩
        · rintro ⟨hx, ⟨hv, hc⟩, hall⟩
          refine ⟨⟨hx, hv, hc⟩, ?_⟩
          cases vs with
          | nil => exact Or.inl rfl
          | cons a as => exact Or.inr ⟨hx, hall⟩

/-- `x IN (S)` is TRUE iff `x` is not NULL and equals some non-NULL element. -/
theorem in_list_true_iff (x : Val) (S : List Val) (r : Tri) (h : inListTri x S = .ok r) :
    r = .t ↔ x ≠ .null ∧ ∃ s ∈ S, s ≠ .null ∧ cmpVal x s = .eq := by
  induction S generalizing r with
  | nil => simp [inListTri] at h; subst h; simp
  | cons v vs ih =>
    simp only [inListTri, bind, Except.bind] at h
    cases he : eqTri x v with
    | error e => simp [he] at h
    | ok e =>
      simp only [he] at h
      cases hr : inListTri x vs with
      | error e' => simp [hr] at h
      | ok r' =>
        simp only [hr, pure, Except.pure, Except.ok.injEq] at h
        subst h
        have ih' := ih r' hr
        obtain ⟨_, ht⟩ := eqTri_spec x v e he
        have key : Tri.or e r' = .t ↔ e = .t ∨ r' = .t := by cases e <;> cases r' <;> decide
        rw [key, ih', ht]
        simp only [List.mem_cons, exists_eq_or_imp]
        constructor
        · rintro (⟨hx, hv, hc⟩ | ⟨hx, hs⟩)
          · exact ⟨hx, Or.inl ⟨hv, hc⟩⟩
          · exact ⟨hx, Or.inr hs⟩
        · rintro ⟨hx, (⟨hv, hc⟩ | hs)⟩
          · exact Or.inl ⟨hx, hv, hc⟩
          · exact Or.inr ⟨hx, hs⟩

example : inListTri (.int 64 true 2) [.int 64 true 1, .null] = .ok .u := by decide
example : inListTri (.int 64 true 2) [.int 64 true 1, .int 64 true 3] = .ok .f := by decide

/-! ## set operations: multiplicities -/

theorem count_union_all (A B : List Row) (x : Row) :
    (setOp .union true A B).count x = A.count x + B.count x := by
  simp [setOp, List.count_append]

/-- `INTERSECT ALL`: minimum of the two multiplicities -/
theorem count_intersect_all (A B : List Row) (x : Row) :
    (setOp .intersect true A B).count x = min (A.count x) (B.count x) := by
  simp only [setOp]
  induction A generalizing B with
  | nil => simp [intersectAll]
  | cons a as ih =>
    simp only [intersectAll]
    by_cases hc : B.contains a = true
    · simp only [hc, if_true, List.count_cons, ih]
      have hmem : a ∈ B := by simpa using hc
      by_cases hax : a = x
      · subst hax
        have := List.count_erase_self (a := a) (l := B)
        have hpos : 0 < B.count a := List.count_pos_iff.mpr hmem
        simp only [beq_self_eq_true, if_true]
        omega
      · have hne : (a == x) = false := by simpa using hax
        have : (B.erase a).count x = B.count x := List.count_erase_of_ne (fun h => hax h.symm)
        simp [hne, this]
    · simp only [hc, Bool.false_eq_true, if_false, ih, List.count_cons]
      by_cases hax : a = x
      · subst hax
        have : B.count a = 0 := List.count_eq_zero.mpr (by simpa using hc)
        simp [this]
      · have hne : (a == x) = false := by simpa using hax
        simp [hne]

/-- `EXCEPT ALL`: truncated difference of the multiplicities -/
theorem count_except_all (A B : List Row) (x : Row) :
    (setOp .except true A B).count x = A.count x - B.count x := by
  simp only [setOp]
  induction A generalizing B with
  | nil => simp [exceptAll]
  | cons a as ih =>
    simp only [exceptAll]
    by_cases hc : B.contains a = true
    · simp only [hc, if_true, List.count_cons, ih]
      have hmem : a ∈ B := by simpa using hc
      by_cases hax : a = x
      · subst hax
        have := List.count_erase_self (a := a) (l := B)
        have hpos : 0 < B.count a := List.count_pos_iff.mpr hmem
        simp only [beq_self_eq_true, if_true]
        omega
      · have hne : (a == x) = false := by simpa using hax
        have : (B.erase a).count x = B.count x := List.count_erase_of_ne (fun h => hax h.symm)
        simp [hne, this]
    · simp only [hc, Bool.false_eq_true, if_false, ih, List.count_cons]
      by_cases hax : a = x
      · subst hax
        have : B.count a = 0 := List.count_eq_zero.mpr (by simpa using hc)
        simp [this]
      · have hne : (a == x) = false := by simpa using hax
        simp [hne]

/-- `dedup` keeps every value that occurs, exactly once -/
theorem count_dedup (A : List Row) (x : Row) : (dedup A).count x = if x ∈ A then 1 else 0 := by
  induction A with
  | nil => simp [dedup]
  | cons a as ih =>
    simp only [dedup, List.count_cons]
    by_cases hax : a = x
    · subst hax
      have : ((dedup as).filter (fun y => !(y == a))).count a = 0 := by
        rw [List.count_eq_zero]; simp
      simp [this]
    · have hne : (a == x) = false := by simpa using hax
      have : ((dedup as).filter (fun y => !(y == a))).count x = (dedup as).count x := by
        rw [List.count_filter]
        simpa using fun h => hax h.symm
      simp only [this, ih, hne, Bool.false_eq_true, if_false, List.mem_cons]
      have : (x = a) = False := by simpa using fun h => hax h.symm
      simp [this]

theorem count_filter_ite (p : Row → Bool) (l : List Row) (x : Row) :
    (l.filter p).count x = if p x then l.count x else 0 := by
  by_cases h : p x = true
  · simp [h, List.count_filter h]
  · have : (l.filter p).count x = 0 := by
      rw [List.count_eq_zero]; simp only [List.mem_filter, not_and]; intro _; exact h
    simp [h, this]

/-- the DISTINCT forms: a row occurs once iff it qualifies, never twice -/
theorem count_union_distinct (A B : List Row) (x : Row) :
    (setOp .union false A B).count x = if x ∈ A ∨ x ∈ B then 1 else 0 := by
  simp [setOp, count_dedup]

theorem count_intersect_distinct (A B : List Row) (x : Row) :
    (setOp .intersect false A B).count x = if x ∈ A ∧ x ∈ B then 1 else 0 := by
  simp only [setOp, count_filter_ite, count_dedup]
  by_cases h1 : x ∈ A <;> by_cases h2 : x ∈ B <;> simp [h1, h2]

theorem count_except_distinct (A B : List Row) (x : Row) :
    (setOp .except false A B).count x = if x ∈ A ∧ x ∉ B then 1 else 0 := by
  simp only [setOp, count_filter_ite, count_dedup]
  by_cases h1 : x ∈ A <;> by_cases h2 : x ∈ B <;> simp [h1, h2]

example : setOp .intersect true [[.null], [.null], [.bool true]] [[.null], [.bool true], [.bool true]]
    = [[.null], [.bool true]] := by decide
example : setOp .except true [[.null], [.null], [.bool true]] [[.null]] = [[.null], [.bool true]] := by decide

/-! ## LIMIT / OFFSET -/

/-- `LIMIT n OFFSET s` returns rows `s, s+1, …, s+n-1` of its (ordered) input, as far as they exist -/
theorem limit_offset_spec (s n : Nat) (rows : List Row) (i : Nat) :
    (limitRows s (some n) rows)[i]? = (if i < n then rows[s + i]? else none) ∧
    (limitRows s (some n) rows).length = min n (rows.length - s) := by
  simp only [limitRows, List.length_take, List.length_drop, and_true]
  by_cases h : i < n
  · simp [h, List.getElem?_take, List.getElem?_drop]
  · simp [h, List.getElem?_take]

/-- `OFFSET s` alone drops the first `s` rows -/
theorem offset_spec (s : Nat) (rows : List Row) (i : Nat) :
    (limitRows s none rows)[i]? = rows[s + i]? ∧ (limitRows s none rows).length = rows.length - s := by
  simp [limitRows]

example : limitRows 1 (some 2) [[.bool true], [.null], [.bool false], [.null]] = [[.null], [.bool false]] := by decide

/-! ## ORDER BY: the output is a permutation of the input that is sorted by the keys -/

theorem mapM_keyed_snd (f : Row → Except RtErr Row) (rows : List Row) (keyed : List (Row × Row))
    (h : rows.mapM (fun r => Except.bind (f r) (fun v => Except.ok (v, r))) = .ok keyed) :
    keyed.map (fun x => x.2) = rows := by
  induction rows generalizing keyed with
  | nil => simp [pure, Except.pure] at h; subst h; rfl
  | cons r rs ih =>
    rw [List.mapM_cons] at h
    simp only [bind, pure, Except.pure] at h
    cases hf : f r with
    | error e => simp [hf, Except.bind] at h
    | ok k =>
      cases hks : rs.mapM (fun r => Except.bind (f r) (fun v => Except.ok (v, r))) with
      | error e => simp only [hf, hks] at h; simp [Except.bind] at h
      | ok ks =>
        simp only [hf, hks] at h
        simp only [Except.bind, Except.ok.injEq] at h
        subst h
        simp [ih ks hks]

/-- ORDER BY returns a permutation of its input (no row lost, duplicated or altered) -/
theorem sort_perm (keys : List (Expr × SortOpt)) (env : Env) (rows out : List Row)
    (h : evalSort keys env rows = .ok out) : out.Perm rows := by
  unfold evalSort at h
  simp only [bind, pure, Except.pure] at h
  generalize hk : List.mapM (m := Except RtErr) (β := Row × Row) _ rows = res at h
  cases res with
  | error e => simp [Except.bind] at h
  | ok keyed =>
    simp only [Except.bind, Except.ok.injEq] at h
    subst h
    have hsnd := mapM_keyed_snd _ rows keyed hk
    exact ((sortBy'_perm _ keyed).map _).trans (List.Perm.of_eq hsnd)

/-- the pure sorting step: rows paired with their evaluated keys (all key rows of one length, as
    produced by evaluating the same key expressions) come out ordered by `cmpRows` — for every
    vector of `ASC/DESC`, `NULLS FIRST/LAST` options -/
theorem sort_sorted (opts : List SortOpt) (n : Nat) (keyed : List (Row × Row))
    (hlen : ∀ kr ∈ keyed, kr.1.length = n) :
    (sortBy' (fun a b => leRows opts a.1 b.1) keyed).Pairwise (fun a b => cmpRows opts a.1 b.1 ≠ .gt) := by
  have := sortBy'_sorted (fun (a b : Row × Row) => leRows opts a.1 b.1) (fun kr => kr.1.length = n)
    (by
      intro a b _ _
      rcases cmpRows_total opts a.1 b.1 with h | h
      · left; simp [leRows, h]
      · right; simp [leRows, h])
    (by
      intro a b c ha hb hc h1 h2
      simp only [leRows, bne_iff_ne, ne_eq] at h1 h2 ⊢
      exact cmpRows_trans opts a.1 b.1 c.1 (by rw [ha, hb]) (by rw [hb, hc]) h1 h2)
    keyed hlen
  refine this.imp ?_
  intro a b h
  simpa [leRows] using h

example : evalSort [(.col 0, { desc := true, nullsFirst := false })] {} [[.int 64 true 1], [.null], [.int 64 true 3]]
    = .ok [[.int 64 true 3], [.int 64 true 1], [.null]] := by decide

/-! ## GROUP BY: the groups partition the input; keys are pairwise different (NULL = NULL) -/

theorem groupInsert_rows (k r : Row) (gs : List (Row × List Row)) :
    ((groupInsert k r gs).flatMap (·.2)).Perm (gs.flatMap (·.2) ++ [r]) := by
  induction gs with
  | nil => simp [groupInsert]
  | cons g gs ih =>
    obtain ⟨k', rs⟩ := g
    simp only [groupInsert]
    split
    · simp only [List.flatMap_cons, List.append_assoc]
      exact List.Perm.append_left _ List.perm_append_comm
    · simp only [List.flatMap_cons, List.append_assoc]
      exact List.Perm.append_left _ ih

theorem groupInsert_keys (k r : Row) (gs : List (Row × List Row)) :
    (groupInsert k r gs).map (·.1) = if k ∈ gs.map (·.1) then gs.map (·.1) else gs.map (·.1) ++ [k] := by
  induction gs with
  | nil => simp [groupInsert]
  | cons g gs ih =>
    obtain ⟨k', rs⟩ := g
    simp only [groupInsert]
    by_cases hk : k' = k
    · subst hk; simp
    · have : (k' == k) = false := by simpa using hk
      simp only [this, Bool.false_eq_true, if_false, List.map_cons, ih, List.mem_cons]
      have hk' : ¬ k = k' := fun h => hk h.symm
      by_cases hm : k ∈ gs.map (·.1)
      · simp [hm]
      · simp [hm, hk']

theorem groupInsert_members (k r : Row) (gs : List (Row × List Row)) (k' : Row) (rs' : List Row) (r' : Row)
    (hg : (k', rs') ∈ groupInsert k r gs) (hr : r' ∈ rs') :
    (k' = k ∧ r' = r) ∨ ∃ rs, (k', rs) ∈ gs ∧ r' ∈ rs := by
  induction gs with
  | nil =>
    simp only [groupInsert, List.mem_singleton, Prod.mk.injEq] at hg
    obtain ⟨rfl, rfl⟩ := hg
    simp at hr; exact Or.inl ⟨rfl, hr⟩
  | cons g gs ih =>
    obtain ⟨k0, rs0⟩ := g
    simp only [groupInsert] at hg
    split at hg
    · rename_i hk
      have hk : k0 = k := by simpa using hk
      rcases List.mem_cons.mp hg with h | h
      · simp only [Prod.mk.injEq] at h
        obtain ⟨rfl, rfl⟩ := h
        rcases List.mem_append.mp hr with h1 | h1
        · exact Or.inr ⟨rs0, by simp, h1⟩
        · simp at h1; exact Or.inl ⟨hk, h1⟩
      · exact Or.inr ⟨rs', by simp [h], hr⟩
    · rcases List.mem_cons.mp hg with h | h
      · simp only [Prod.mk.injEq] at h
        obtain ⟨rfl, rfl⟩ := h
        exact Or.inr ⟨rs', by simp, hr⟩
      · rcases ih h with h1 | ⟨rs, h1, h2⟩
        · exact Or.inl h1
        · exact Or.inr ⟨rs, by simp [h1], h2⟩

theorem group_fold (keyed : List (Row × Row)) (gs : List (Row × List Row)) :
    let out := keyed.foldl (fun gs kr => groupInsert kr.1 kr.2 gs) gs
    (out.flatMap (·.2)).Perm (gs.flatMap (·.2) ++ keyed.map (·.2)) ∧
    ((gs.map (·.1)).Nodup → (out.map (·.1)).Nodup) ∧
    (∀ k rs r, (k, rs) ∈ out → r ∈ rs → (k, r) ∈ keyed ∨ ∃ rs0, (k, rs0) ∈ gs ∧ r ∈ rs0) := by
  induction keyed generalizing gs with
  | nil => simp; intro k rs r h1 h2; exact ⟨rs, h1, h2⟩
  | cons kr krs ih =>
    obtain ⟨p1, p2, p3⟩ := ih (groupInsert kr.1 kr.2 gs)
    simp only [List.foldl_cons]
    refine ⟨?_, ?_, ?_⟩
    · refine p1.trans ?_
      simp only [List.map_cons]
      have := groupInsert_rows kr.1 kr.2 gs
      refine (List.Perm.append_right _ this).trans ?_
      simp
    · intro hnd
      apply p2
      rw [groupInsert_keys]
      split
      · exact hnd
      · rename_i hk
        rw [List.nodup_append]
        refine ⟨hnd, by simp, ?_⟩
        intro a ha b hb
        simp only [List.mem_singleton] at hb
        subst hb
        exact fun h => hk (h ▸ ha)
    · intro k rs r h1 h2
      rcases p3 k rs r h1 h2 with h | ⟨rs0, h3, h4⟩
      · exact Or.inl (by simp [h])
      · rcases groupInsert_members kr.1 kr.2 gs k rs0 r h3 h4 with ⟨rfl, rfl⟩ | ⟨rs1, h5, h6⟩
        · exact Or.inl (by simp)
        · exact Or.inr ⟨rs1, h5, h6⟩

/-- GROUP BY partitions its input: the concatenation of the groups is a permutation of the input
    rows, and every row sits in the group labelled with its own key -/
theorem group_partition (keyed : List (Row × Row)) :
    ((groupRows keyed).flatMap (·.2)).Perm (keyed.map (·.2)) ∧
    (∀ k rs r, (k, rs) ∈ groupRows keyed → r ∈ rs → (k, r) ∈ keyed) := by
  obtain ⟨p1, _, p3⟩ := group_fold keyed []
  refine ⟨by simpa [groupRows] using p1, ?_⟩
  intro k rs r h1 h2
  rcases p3 k rs r (by simpa [groupRows] using h1) h2 with h | ⟨rs0, h, _⟩
  · exact h
  · simp at h

/-- no key labels two groups: rows with equal keys (NULL equal to NULL) are in one group, and since
    a NULL key differs from every non-NULL key it forms a group of its own -/
theorem group_keys_nodup (keyed : List (Row × Row)) : ((groupRows keyed).map (·.1)).Nodup := by
  obtain ⟨_, p2, _⟩ := group_fold keyed []
  simpa [groupRows] using p2 (by simp)

example : groupRows [([.null], [.bool true]), ([.int 64 true 1], [.bool false]), ([.null], [.null])]
    = [([.null], [[.bool true], [.null]]), ([.int 64 true 1], [[.bool false]])] := by decide

end DfModel.Props.C01
