/-
  C27 — partition-value pruning of listing tables never drops matching files.

  Model: `Mech.PartPrune` (hand-written from catalog-listing/src/helpers.rs; tied by
  harness/hfull/src/c27.rs, refinement direction: files returned by the real
  `pruned_partition_list` ⊇ `required`).
-/
import DfModel.Mech.PartPrune
import DfModel.Proofs.C25
import DfModel.Proofs.C27
namespace DfModel.Props.C27
open DfModel.Text.Percent DfModel.Text.Hive DfModel.Mech.PartPrune DfModel.Proofs.C27
open DfModel.Mech.Demux (Cell Ty)

/-- **prefix_sound**: for EVERY list of partition columns, EVERY filter list (arbitrary AND/OR/NOT
    trees over column/literal comparisons, either operand order, NULL literals, repeated and contradictory
    equalities, filters on non-partition columns) and EVERY partition row that makes all filters TRUE:
    the listing prefix computed by `evaluate_partition_prefix` is a segment-wise prefix of the path of
    the file written for that row (directory names = `name=<text of the value>`, as the writer and
    every engine that prints values the way `ScalarValue::to_string` does produce them).
    So listing under the prefix cannot miss that file. -/
theorem prefix_sound (names : List Bytes) (filters : List Filter) (row : Row) (file : Bytes)
    (hsat : ∀ f ∈ filters, evalF row f = some true) (p : List Bytes)
    (hp : evaluatePartitionPrefix names filters = some p) :
    p.isPrefixOf (canonSegs names row file) = true := by
  unfold evaluatePartitionPrefix at hp
  simp only at hp
  split at hp
  · cases hp
  · split at hp
    · cases hp
    · simp only [Option.some.injEq] at hp
      subst hp
      exact prefixParts_isPrefix (foldl_forces row filters [] hsat (by intro c s h; simp [pget] at h)) _ names

/-- partition values parsed from a path are the values the path was built from (C25's theorem) -/
theorem parse_build_roundtrip (kvs : List (Bytes × String)) (file : Bytes)
    (hn : ∀ kv ∈ kvs, PlainName kv.1) :
    parsePartitions (buildPath (kvs.map (fun kv => (kv.1, bytesOf kv.2))) file) (kvs.map (·.1))
      = some (kvs.map (fun kv => bytesOf kv.2)) :=
  DfModel.Proofs.C25.parsePartitions_buildPath file kvs hn

/-- a file whose directory names are the canonical texts of the values it parses to -/
def Canonical (cols : List (Bytes × Ty)) (f : File) : Prop :=
  ∃ vals fname, parseRow cols f = some vals ∧ f.segs = canonSegs (cols.map (·.1)) (rowOf cols vals) fname

/-- **pruned_list_superset** (the refinement direction the harness checks): every canonical file that
    must be scanned is returned by the model of `pruned_partition_list`. -/
theorem pruned_list_superset (cols : List (Bytes × Ty)) (filters : List Filter) (files : List File)
    (f : File) (hc : Canonical cols f) (hreq : f ∈ required cols filters files) :
    f ∈ prunedList cols filters files := by
  obtain ⟨vals, fname, hparse, hsegs⟩ := hc
  unfold required at hreq
  rw [List.mem_filter] at hreq
  obtain ⟨hmem, hpred⟩ := hreq
  unfold prunedList required
  rw [List.mem_filter]
  refine ⟨?_, hpred⟩
  unfold listed
  cases hpre : evaluatePartitionPrefix (cols.map (·.1)) filters with
  | none => exact hmem
  | some p =>
    simp only [List.mem_filter]
    refine ⟨hmem, ?_⟩
    rw [hsegs]
    apply prefix_sound _ filters _ fname _ p hpre
    rw [hparse] at hpred
    simp only [Bool.and_eq_true, keeps, List.all_eq_true, beq_iff_eq] at hpred
    exact hpred.2

/-- … and it returns nothing else: every returned file exists, is non-empty and satisfies the filters -/
theorem pruned_list_subset (cols : List (Bytes × Ty)) (filters : List Filter) (files : List File)
    (f : File) (h : f ∈ prunedList cols filters files) : f ∈ required cols filters files := by
  unfold prunedList required at *
  rw [List.mem_filter] at h ⊢
  refine ⟨?_, h.2⟩
  have := h.1
  unfold listed at this
  split at this
  · exact this
  · exact (List.mem_filter.mp this).1

/-- the property for ANY layout: every file whose parsed partition values satisfy the filters is returned -/
def pruning_complete_statement : Prop :=
  ∀ (cols : List (Bytes × Ty)) (filters : List Filter) (files : List File) (f : File),
    f ∈ required cols filters files → f ∈ prunedList cols filters files

theorem decodeStr_01 : decodeStr [48, 49] = [48, 49] := by
  have h := DfModel.Proofs.C25.decodeStr_encode pathPartSet (by decide) "01"
  have hb : bytesOf "01" = [48, 49] := by decide
  rw [hb] at h
  have he : encode pathPartSet [48, 49] = [48, 49] := by decide
  rw [he] at h
  exact h

/-- **the full statement is FALSE for the modelled code**: the prefix is built from the literal's text
    (`val.to_string()`), but a typed partition value has several directory spellings.  Witness: Int column
    `m`, directory `m=01`, filter `m = 1`: the file's value is 1 (it satisfies the filter) but the listing
    prefix is `m=1`, so the file is never listed. -/
theorem noncanonical_directory_dropped : ¬ pruning_complete_statement := by
  intro h
  let f : File := { segs := [[109, 61, 48, 49], [102]], size := 1 }
  have hreq : f ∈ required [([109], .int)] [.cmp .eq [109] (some (.int 1))] [f] := by
    have hp : parseRow [([109], Ty.int)] f = some [.int 1] := by
      simp [parseRow, f, parsePartitions, parseSeg, splitOnceEq, eqB, decodeStr_01, parseCell, parseInt,
        parseNat]
    simp only [required, List.mem_filter, List.mem_singleton, true_and, hp]
    decide
  have := h _ _ _ _ hreq
  have hempty : prunedList [([109], Ty.int)] [.cmp .eq [109] (some (.int 1))] [f] = [] := by decide
  rw [hempty] at this
  cases this

/-! non-vacuity -/
/-- `a = 1 AND b = 'x'`, then a non-constrained column: prefix `a=1/b=x` -/
example : evaluatePartitionPrefix [[97], [98], [99]]
    [.and (.cmp .eq [97] (some (.int 1))) (.cmpR .eq (some (.str [120])) [98]), .cmp .lt [99] (some (.int 5))]
    = some [[97, 61, 49], [98, 61, 120]] := by decide
/-- the same column constrained twice → `Multi` → no prefix -/
example : evaluatePartitionPrefix [[97]] [.cmp .eq [97] (some (.int 1)), .cmp .eq [97] (some (.int 1))] = none := by decide
/-- a value that needs escaping stops the prefix -/
example : evaluatePartitionPrefix [[97], [98]] [.cmp .eq [97] (some (.str [120, 32, 121])), .cmp .eq [98] (some (.int 2))] = none := by decide
example : evalF (fun _ => some (.int 1)) (.and (.cmp .eq [97] (some (.int 1))) (.not (.cmp .gt [98] (some (.int 1))))) = some true := by decide

end DfModel.Props.C27
