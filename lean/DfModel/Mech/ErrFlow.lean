/-
  C20 — execution errors always surface.

  A stream is the finite transcript of what `poll_next` yields until `None`:
  `List (Except Err Batch)`.  Operators are transformers of transcripts, with their buffering /
  background-task structure made explicit:

    * `mapOp f`      — per-batch operators (`FilterExec`, `ProjectionExec`, a scalar UDF):
                       `Some(Ok b) ↦ f b`, `Some(Err e) ↦ Err e` (the `?` / `ready!(..)?` idiom);
    * `cut`          — `RecordBatchReceiverStreamBuilder::run_input`: forwards items to the channel and
                       stops after the first error ("Stop after the first error is encountered");
    * `interleave`   — the mpsc channel of a `RecordBatchReceiverStream` fed by several `run_input`
                       tasks (`CoalescePartitionsExec`, `UnionExec` + coalesce): any interleaving,
                       chosen by a schedule; the stream ends only when every task has finished;
    * `blocking g`   — `futures::stream::once(async { while let Some(b) = input.next().await { let b = b?; … } … })
                       .try_flatten()`: `SortExec`, final aggregation: the first input error is the only
                       item; otherwise `g` (which may itself fail: memory, spill write) produces the output;
    * `joinOp j`     — `HashJoinExec`: the build side is collected first (`collect_left_input`, an error
                       there is the join's only item), then every probe batch is joined; probe errors
                       pass through;
    * `repartition`  — `RepartitionExec::pull_from_input` + `wait_for_task`: each batch is routed to the
                       output channels; an input error ends the task and `wait_for_task` sends the error
                       to EVERY output channel; a clean end sends `None` to every channel.

  `collect` is `common::collect` = `try_collect`: the batches if no item is an error, else the first error.
  Core Lean only.
-/
namespace DfModel.Mech.ErrFlow

abbrev Batch := List Int

inductive Err where
  | source (tag : Nat)     -- the input (TableProvider / ExecutionPlan) failed
  | udf (tag : Nat)        -- a function failed on some row
  | resources              -- a reservation / spill write failed
  deriving DecidableEq, Repr

abbrev Item := Except Err Batch
abbrev Stream := List Item

def isErr : Item → Bool
  | .error _ => true
  | .ok _ => false

/-- does the transcript contain an error item? -/
def hasErr (s : Stream) : Bool := s.any isErr

/-- `try_collect` -/
def collect : Stream → Except Err (List Batch)
  | [] => .ok []
  | .error e :: _ => .error e
  | .ok b :: rest =>
    match collect rest with
    | .ok bs => .ok (b :: bs)
    | .error e => .error e

/-- the batches a consumer has received before the first error (or the end) -/
def okPrefix : Stream → List Batch
  | [] => []
  | .error _ :: _ => []
  | .ok b :: rest => b :: okPrefix rest

/-- `run_input`: forward until (and including) the first error -/
def cut : Stream → Stream
  | [] => []
  | .error e :: _ => [.error e]
  | .ok b :: rest => .ok b :: cut rest

def mapOp (f : Batch → Except Err Batch) (s : Stream) : Stream :=
  s.map (fun it => it.bind f)

def blockOp (g : List Batch → Except Err (List Batch)) (s : Stream) : Stream :=
  match collect s with
  | .error e => [.error e]
  | .ok bs =>
    match g bs with
    | .error e => [.error e]
    | .ok out => out.map .ok

def joinOp (j : List Batch → Batch → Except Err Batch) (build probe : Stream) : Stream :=
  match collect build with
  | .error e => [.error e]
  | .ok bs => probe.map (fun it => it.bind (j bs))

/-- the receiver's view of two producer tasks: `true` = next item comes from the left task.
    When the schedule is exhausted (left first, then right), or names a task that has finished, the
    rest is drained: the channel closes only when all senders are gone, so every item is delivered.
    Every interleaving of the two transcripts is produced by some schedule. -/
def interleave : List Bool → Stream → Stream → Stream
  | [], l, r => l ++ r
  | true :: _, [], r => r
  | true :: sch, x :: l, r => x :: interleave sch l r
  | false :: _, l, [] => l
  | false :: sch, l, y :: r => y :: interleave sch l r

/-- `CoalescePartitionsExec` over two partitions (each forwarded by its own `run_input` task) -/
def coalesce2 (sch : List Bool) (l r : Stream) : Stream := interleave sch (cut l) (cut r)

/-- what one input task of `RepartitionExec` puts into output channel `j` (of `m`): `route b` gives
    the sub-batch for every output (empty sub-batches are not sent); on the first input error the
    task ends and `wait_for_task` sends the error to every channel; `none` = this input is done -/
def repartChan (route : Batch → Nat → Batch) (j : Nat) : Stream → List (Option Item)
  | [] => [none]
  | .error e :: _ => [some (.error e)]
  | .ok b :: rest =>
    if (route b j).isEmpty then repartChan route j rest
    else some (.ok (route b j)) :: repartChan route j rest

/-- output partition `j` reading a channel fed by ONE input task: yields the items, ends at `None` -/
def repartOut1 : List (Option Item) → Stream
  | [] => []
  | none :: _ => []
  | some it :: rest => it :: repartOut1 rest

/-- `RepartitionExec` with one input partition, output `j` -/
def repartition1 (route : Batch → Nat → Batch) (j : Nat) (s : Stream) : Stream :=
  repartOut1 (repartChan route j s)

/-- strip the end markers of a channel transcript (used for the two-input merge) -/
def chanItems : List (Option Item) → Stream
  | [] => []
  | none :: rest => chanItems rest
  | some it :: rest => it :: chanItems rest

/-- `RepartitionExec` with two input partitions: output `j` sees an interleaving of what the two
    input tasks sent to it and ends when both have sent their `None` -/
def repartition2 (route : Batch → Nat → Batch) (j : Nat) (sch : List Bool) (s1 s2 : Stream) : Stream :=
  interleave sch (chanItems (repartChan route j s1)) (chanItems (repartChan route j s2))

/-! ### plans: compositions of the above -/

inductive Plan where
  | source (s : Stream)
  | map (f : Batch → Except Err Batch) (p : Plan)
  | blocking (g : List Batch → Except Err (List Batch)) (p : Plan)
  | join (j : List Batch → Batch → Except Err Batch) (build probe : Plan)
  | coalesce (sch : List Bool) (l r : Plan)
  | repart (route : Batch → Nat → Batch) (j : Nat) (sch : List Bool) (l r : Plan)

def Plan.eval : Plan → Stream
  | .source s => s
  | .map f p => mapOp f p.eval
  | .blocking g p => blockOp g p.eval
  | .join j b p => joinOp j b.eval p.eval
  | .coalesce sch l r => coalesce2 sch l.eval r.eval
  | .repart route j sch l r => repartition2 route j sch l.eval r.eval

def Plan.sources : Plan → List Stream
  | .source s => [s]
  | .map _ p => p.sources
  | .blocking _ p => p.sources
  | .join _ b p => b.sources ++ p.sources
  | .coalesce _ l r => l.sources ++ r.sources
  | .repart _ _ _ l r => l.sources ++ r.sources

/-- linear pipelines over one source (for the Ok-prefix statement) -/
inductive Op where
  | map (f : Batch → Except Err Batch)
  | blocking (g : List Batch → Except Err (List Batch))
  | probe (j : List Batch → Batch → Except Err Batch) (build : List Batch)   -- join with a clean build side
  | forward                                                                  -- `run_input` / receiver stream

def Op.apply : Op → Stream → Stream
  | .map f, s => mapOp f s
  | .blocking g, s => blockOp g s
  | .probe j bs, s => joinOp j (bs.map .ok) s
  | .forward, s => cut s

def runPipe (ops : List Op) (s : Stream) : Stream := ops.foldl (fun acc op => op.apply acc) s

end DfModel.Mech.ErrFlow
