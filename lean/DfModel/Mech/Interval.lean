/-
  Mech/Interval.lean — hand model of `datafusion/expr-common/src/interval_arithmetic.rs`
  (integer types) and of `propagate_arithmetic` / `propagate_comparison`
  (`datafusion/physical-expr/src/intervals/cp_solver.rs`).  Core Lean only.

  The model follows the Rust code branch for branch, *including the branches that are wrong*
  (see `Props/C23.lean` for the kernel-checked witnesses):

  * an endpoint is `Option Int`; `none` is the Rust `ScalarValue::<T>(None)` = "unbounded";
  * endpoint comparisons are the derived `Option<T>: PartialOrd` (`None < Some _`), which is what
    `ScalarValue::partial_cmp` uses for two values of the same integer type — hence all the
    `is_null()` guards of the Rust code are reproduced literally;
  * `mk` = `Interval::new` (an unsigned NULL lower endpoint becomes 0);
  * `*_bounds<UPPER>` + `handle_overflow<UPPER>` exactly as coded;
  * integer division is Rust's truncating division (`Int.tdiv`); `MIN / -1` is an overflow error
    (arrow `div` kernel is checked), division by zero is guarded before the call.
-/
namespace DfModel.Mech.Interval

/-- an integer type: `uns` = `DataType::is_unsigned_integer()`, `[mn, mx]` = `T::MIN ..= T::MAX` -/
structure Ty where
  uns : Bool
  mn : Int
  mx : Int
  deriving Repr, DecidableEq

def Ty.ofBits (uns : Bool) (bits : Nat) : Ty :=
  if uns then ⟨true, 0, 2 ^ bits - 1⟩ else ⟨false, -(2 ^ (bits - 1)), 2 ^ (bits - 1) - 1⟩

/-- what the theorems assume about a type (true of i8..i64, u8..u64 and of every wider one) -/
structure Ty.WF (t : Ty) : Prop where
  mn_le : t.mn ≤ 0
  mx_ge : 1 ≤ t.mx
  uns_mn : t.uns = true → t.mn = 0
  sgn_mn : t.uns = false → t.mn ≤ -1

def Ty.inRange (t : Ty) (v : Int) : Prop := t.mn ≤ v ∧ v ≤ t.mx

instance (t : Ty) (v : Int) : Decidable (t.inRange v) := by unfold Ty.inRange; infer_instance

structure Iv where
  lo : Option Int
  hi : Option Int
  deriving Repr, DecidableEq

/-- Which of the three candidate repairs (notes/C23_fix_*.patch) the modelled code contains.
    `false` everywhere = the code pinned in /repo today.  **Flip `Cfg.current` (one line) when a
    repair is committed to /repo**; the correspondence then checks the repaired behaviour and
    `Props/C23.lean` has the soundness theorems for `fix* = true`. -/
structure Cfg where
  /-- `mul_helper_multi_zero_inclusive`: an overflowed candidate makes that endpoint unbounded -/
  fixMul : Bool
  /-- `div`: operand signs are classified against 0, not against `zero_point.lower` (= −1) -/
  fixDiv : Bool
  /-- `propagate_comparison`, `parent = FALSE`: results returned as (left, right), not swapped -/
  fixPc : Bool
  deriving Repr, DecidableEq

def Cfg.pinned : Cfg := ⟨false, false, false⟩
def Cfg.repaired : Cfg := ⟨true, true, true⟩
/-- the code that /repo contains now: the mul repair (1280e04) and the div repair (6b82196) are in,
    `propagate_comparison` is unchanged -/
def Cfg.current : Cfg := ⟨true, true, false⟩

/-- concretisation: `v ∈ [lo, hi]` with a NULL endpoint meaning "unbounded on that side" -/
def mem (v : Int) (a : Iv) : Prop :=
  (∀ l, a.lo = some l → l ≤ v) ∧ (∀ u, a.hi = some u → v ≤ u)

/-- boolean interval (`Interval` over `ScalarValue::Boolean(Some _)`) -/
structure BIv where
  lo : Bool
  hi : Bool
  deriving Repr, DecidableEq

def BIv.TRUE : BIv := ⟨true, true⟩
def BIv.FALSE : BIv := ⟨false, false⟩
def BIv.TF : BIv := ⟨false, true⟩

/-- `v ∈ [lo, hi]` over `false < true` -/
def bmem (v : Bool) (a : BIv) : Prop := (a.lo = true → v = true) ∧ (a.hi = false → v = false)

/-! ### endpoint order: Rust `Option<T>: PartialOrd` (None is the least element) -/

def ole : Option Int → Option Int → Bool
  | none, _ => true
  | some _, none => false
  | some a, some b => decide (a ≤ b)

def olt : Option Int → Option Int → Bool
  | none, none => false
  | none, some _ => true
  | some _, none => false
  | some a, some b => decide (a < b)

/-- `Interval::new` for integer types -/
def mk (t : Ty) (lo hi : Option Int) : Iv :=
  if t.uns && lo.isNone then ⟨some 0, hi⟩ else ⟨lo, hi⟩

/-- `Interval::make_unbounded` -/
def unbounded (t : Ty) : Iv := mk t none none

/-! ### comparisons -/

def gt (a b : Iv) : BIv :=
  if !(a.hi.isNone || b.lo.isNone) && ole a.hi b.lo then .FALSE
  else if !(a.lo.isNone || b.hi.isNone) && olt b.hi a.lo then .TRUE
  else .TF

def gtEq (a b : Iv) : BIv :=
  if !(a.lo.isNone || b.hi.isNone) && ole b.hi a.lo then .TRUE
  else if !(a.hi.isNone || b.lo.isNone) && olt a.hi b.lo then .FALSE
  else .TF

def lt (a b : Iv) : BIv := gt b a
def ltEq (a b : Iv) : BIv := gtEq b a

/-- `max_of_bounds` (NULL meant as −∞) -/
def maxOfBounds (x y : Option Int) : Option Int :=
  if !x.isNone && (y.isNone || ole y x) then x else y

/-- `min_of_bounds` (NULL meant as +∞) -/
def minOfBounds (x y : Option Int) : Option Int :=
  if !x.isNone && (y.isNone || ole x y) then x else y

def intersect (a b : Iv) : Option Iv :=
  if (!(a.lo.isNone || b.hi.isNone) && olt b.hi a.lo)
      || (!(a.hi.isNone || b.lo.isNone) && olt a.hi b.lo) then none
  else some ⟨maxOfBounds a.lo b.lo, minOfBounds a.hi b.hi⟩

def union (a b : Iv) : Iv :=
  ⟨if a.lo.isNone || (!b.lo.isNone && ole a.lo b.lo) then a.lo else b.lo,
   if a.hi.isNone || (!b.hi.isNone && ole b.hi a.hi) then a.hi else b.hi⟩

def equal (a b : Iv) : BIv :=
  if !a.lo.isNone && a.lo == a.hi && b.lo == b.hi && a.lo == b.lo then .TRUE
  else if (intersect a b).isNone then .FALSE
  else .TF

def containsValue (a : Iv) (v : Int) : Bool :=
  ole a.lo (some v) && (a.hi.isNone || ole (some v) a.hi)

def contains (a b : Iv) : BIv :=
  match intersect a b with
  | some x => if x == b then .TRUE else .TF
  | none => .FALSE

def band (a b : BIv) : BIv := ⟨a.lo && b.lo, a.hi && b.hi⟩
def bor (a b : BIv) : BIv := ⟨a.lo || b.lo, a.hi || b.hi⟩
def bnot (a : BIv) : BIv :=
  if a == .TRUE then .FALSE else if a == .FALSE then .TRUE else .TF

/-! ### arithmetic -/

inductive AOp where
  | add | sub | mul | div
  deriving Repr, DecidableEq

/-- the mathematical result, when it exists (`none` = division by zero) -/
def AOp.exact : AOp → Int → Int → Option Int
  | .add, a, b => some (a + b)
  | .sub, a, b => some (a - b)
  | .mul, a, b => some (a * b)
  | .div, a, b => if b = 0 then none else some (a.tdiv b)

def positiveSign (op : AOp) (a b : Int) : Bool :=
  match op with
  | .mul | .div => (decide (a < 0) && decide (b < 0)) || (decide (a > 0) && decide (b > 0))
  | .add => decide (a ≥ 0)
  | .sub => decide (a ≥ b)

/-- `handle_overflow::<UPPER>` -/
def handleOverflow (t : Ty) (upper : Bool) (op : AOp) (a b : Int) : Option Int :=
  match upper, positiveSign op a b with
  | true, true => none
  | false, false => none
  | true, false => some t.mn
  | false, true => some t.mx

/-- a checked scalar operation: the exact value if it is in range -/
def chk (t : Ty) (v : Int) : Option Int := if t.inRange v then some v else none

def addBounds (t : Ty) (upper : Bool) (l r : Option Int) : Option Int :=
  match l, r with
  | some a, some b =>
    match chk t (a + b) with
    | some v => some v
    | none => handleOverflow t upper .add a b
  | _, _ => none

def subBounds (t : Ty) (upper : Bool) (l r : Option Int) : Option Int :=
  match l, r with
  | some a, some b =>
    match chk t (a - b) with
    | some v => some v
    | none => handleOverflow t upper .sub a b
  | _, _ => none

def mulBounds (t : Ty) (upper : Bool) (l r : Option Int) : Option Int :=
  match l, r with
  | some a, some b =>
    match chk t (a * b) with
    | some v => some v
    | none => handleOverflow t upper .mul a b
  | _, _ => none

def divBounds (t : Ty) (upper : Bool) (l r : Option Int) : Option Int :=
  match l, r with
  | none, _ => none
  | some _, none => if t.uns then none else some 0
  | some a, some b =>
    if b = 0 then none
    else
      match chk t (a.tdiv b) with
      | some v => some v
      | none => handleOverflow t upper .div a b

def add (t : Ty) (a b : Iv) : Iv :=
  mk t (addBounds t false a.lo b.lo) (addBounds t true a.hi b.hi)

def sub (t : Ty) (a b : Iv) : Iv :=
  mk t (subBounds t false a.lo b.hi) (subBounds t true a.hi b.lo)

/-- `x <= *zero && !x.is_null()` -/
def leNonNull (x : Option Int) (z : Option Int) : Bool := ole x z && !x.isNone

/-- repaired combination of two candidates: an overflowed (NULL) candidate wins -/
def nullOr (f : Option Int → Option Int → Option Int) (x y : Option Int) : Option Int :=
  if x.isNone || y.isNone then none else f x y

def mulMultiZero (fix : Bool) (t : Ty) (a b : Iv) : Iv :=
  if a.lo.isNone || a.hi.isNone || b.lo.isNone || b.hi.isNone then unbounded t
  else
    let l1 := mulBounds t false a.lo b.hi
    let l2 := mulBounds t false b.lo a.hi
    let u1 := mulBounds t true a.hi b.hi
    let u2 := mulBounds t true a.lo b.lo
    if fix then mk t (nullOr minOfBounds l1 l2) (nullOr maxOfBounds u1 u2)
    else mk t (minOfBounds l1 l2) (maxOfBounds u1 u2)

/-- `mul_helper_single_zero_inclusive(dt, lhs ∋ 0, rhs ∌ 0, zero)` -/
def mulSingleZero (t : Ty) (a b : Iv) : Iv :=
  if leNonNull b.hi (some 0) then
    mk t (mulBounds t false a.hi b.lo) (mulBounds t true a.lo b.lo)
  else
    mk t (mulBounds t false a.lo b.hi) (mulBounds t true a.hi b.hi)

def mulZeroExclusive (t : Ty) (a b : Iv) : Iv :=
  match leNonNull a.hi (some 0), leNonNull b.hi (some 0) with
  | true, true => mk t (mulBounds t false a.hi b.hi) (mulBounds t true a.lo b.lo)
  | true, false => mk t (mulBounds t false a.lo b.hi) (mulBounds t true a.hi b.lo)
  | false, true => mk t (mulBounds t false b.lo a.hi) (mulBounds t true b.hi a.lo)
  | false, false => mk t (mulBounds t false a.lo b.lo) (mulBounds t true a.hi b.hi)

def mul (c : Cfg) (t : Ty) (a b : Iv) : Iv :=
  match containsValue a 0, containsValue b 0, t.uns with
  | true, true, false => mulMultiZero c.fixMul t a b
  | true, false, false => mulSingleZero t a b
  | false, true, false => mulSingleZero t b a
  | _, _, _ => mulZeroExclusive t a b

/-- `next_value` / `prev_value` (`value_transition!`): MAX ↦ NULL, NULL ↦ NULL, else ±1 -/
def nextValue (t : Ty) : Option Int → Option Int
  | none => none
  | some v => if v = t.mx then none else some (v + 1)

def prevValue (t : Ty) : Option Int → Option Int
  | none => none
  | some v => if v = t.mn then none else some (v - 1)

/-- `Self::new(prev_value(zero), next_value(zero))` -/
def zeroPoint (t : Ty) : Iv := mk t (prevValue t (some 0)) (nextValue t (some 0))

def divLhsZeroInclusive (t : Ty) (a b : Iv) (z : Option Int) : Iv :=
  if leNonNull b.hi z then
    mk t (divBounds t false a.hi b.hi) (divBounds t true a.lo b.hi)
  else
    mk t (divBounds t false a.lo b.lo) (divBounds t true a.hi b.lo)

def divZeroExclusive (t : Ty) (a b : Iv) (z : Option Int) : Iv :=
  match leNonNull a.hi z, leNonNull b.hi z with
  | true, true => mk t (divBounds t false a.hi b.lo) (divBounds t true a.lo b.hi)
  | true, false => mk t (divBounds t false a.lo b.lo) (divBounds t true a.hi b.hi)
  | false, true => mk t (divBounds t false a.hi b.hi) (divBounds t true a.lo b.lo)
  | false, false => mk t (divBounds t false a.lo b.hi) (divBounds t true a.hi b.lo)

def div (c : Cfg) (t : Ty) (a b : Iv) : Iv :=
  let zp := zeroPoint t
  -- the endpoint the helpers compare `upper` with: `zero_point.lower` (pinned) / zero (repaired)
  let z := if c.fixDiv then some 0 else zp.lo
  if contains b zp == .TRUE && !t.uns then unbounded t
  else if contains a zp == .TRUE && !t.uns then divLhsZeroInclusive t a b z
  else divZeroExclusive t a b z

def applyArith (c : Cfg) (t : Ty) : AOp → Iv → Iv → Iv
  | .add => add t
  | .sub => sub t
  | .mul => mul c t
  | .div => div c t

/-! ### constraint propagation -/

/-- `satisfy_greater(left, right, strict)`: enforce `left > right` (strict) / `left ≥ right` -/
def satisfyGreater (t : Ty) (l r : Iv) (strict : Bool) : Option (Iv × Iv) :=
  if !l.hi.isNone && ole l.hi r.lo then
    if !strict && l.hi == r.lo then some (mk t l.hi l.hi, mk t l.hi l.hi) else none
  else
    let newLeftLower :=
      if l.lo.isNone || ole l.lo r.lo then (if strict then nextValue t r.lo else r.lo) else l.lo
    let newRightUpper :=
      if r.hi.isNone || (!l.hi.isNone && ole l.hi r.hi) then
        (if strict then prevValue t l.hi else l.hi)
      else r.hi
    some (mk t newLeftLower l.hi, mk t r.lo newRightUpper)

inductive COp where
  | eq | gt | gtEq | lt | ltEq
  deriving Repr, DecidableEq

def COp.holds : COp → Int → Int → Bool
  | .eq, a, b => decide (a = b)
  | .gt, a, b => decide (a > b)
  | .gtEq, a, b => decide (a ≥ b)
  | .lt, a, b => decide (a < b)
  | .ltEq, a, b => decide (a ≤ b)

def applyCmp : COp → Iv → Iv → BIv
  | .eq => equal
  | .gt => gt
  | .gtEq => gtEq
  | .lt => lt
  | .ltEq => ltEq

def swapPair : Iv × Iv → Iv × Iv := fun p => (p.2, p.1)

/-- `propagate_comparison(op, parent, left, right)`; `none` = `Ok(None)` -/
def propagateComparison (c : Cfg) (t : Ty) (op : COp) (parent : BIv) (l r : Iv) : Option (Iv × Iv) :=
  if parent == .TRUE then
    match op with
    | .eq => (intersect l r).map (fun x => (x, x))
    | .gt => satisfyGreater t l r true
    | .gtEq => satisfyGreater t l r false
    | .lt => (satisfyGreater t r l true).map swapPair
    | .ltEq => (satisfyGreater t r l false).map swapPair
  else if parent == .FALSE then
    match op with
    | .eq => none
    | .gt => (satisfyGreater t r l false).map (if c.fixPc then swapPair else id)
    | .gtEq => (satisfyGreater t r l true).map (if c.fixPc then swapPair else id)
    | .lt => (satisfyGreater t l r false).map (if c.fixPc then id else swapPair)
    | .ltEq => (satisfyGreater t l r true).map (if c.fixPc then id else swapPair)
  else none

def AOp.inverse : AOp → AOp
  | .add => .sub
  | .sub => .add
  | .mul => .div
  | .div => .mul

/-- `propagate_right` -/
def propagateRight (c : Cfg) (t : Ty) (left parent right : Iv) (op : AOp) : Option Iv :=
  intersect
    (match op with
     | .sub => applyArith c t op left parent
     | .add => applyArith c t op.inverse parent left
     | .div => applyArith c t op left parent
     | .mul => applyArith c t op.inverse parent left)
    right

/-- `propagate_arithmetic(op, parent, left_child, right_child)` (non-temporal branch) -/
def propagateArithmetic (c : Cfg) (t : Ty) (op : AOp) (parent l r : Iv) : Option (Iv × Iv) :=
  match intersect (applyArith c t op.inverse parent r) l with
  | some value => (propagateRight c t value parent r op).map (fun right => (value, right))
  | none => none

/-! ### judges used by the correspondence driver (refinement: model ⊆ implementation) -/

def effLo (t : Ty) (a : Iv) : Int := match a.lo with | none => t.mn | some l => max l t.mn
def effHi (t : Ty) (a : Iv) : Int := match a.hi with | none => t.mx | some u => min u t.mx

/-- no representable value belongs to `a` -/
def isEmpty (t : Ty) (a : Iv) : Bool := decide (effLo t a > effHi t a)

/-- every representable member of `m` is a member of `r` -/
def subset (t : Ty) (m r : Iv) : Bool :=
  isEmpty t m || (decide (effLo t r ≤ effLo t m) && decide (effHi t m ≤ effHi t r))

def bsubset (m r : BIv) : Bool :=
  (decide (r.lo ≤ m.lo) && decide (m.hi ≤ r.hi))

end DfModel.Mech.Interval
