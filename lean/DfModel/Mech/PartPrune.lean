/-
  C27 — partition-value pruning of listing tables (catalog-listing/src/helpers.rs). Core Lean only.

  `populate` / `evaluatePartitionPrefix` mirror `populate_partition_values` / `evaluate_partition_prefix`
  branch for branch (HashMap ↦ association list; only `insert`/`get`/`is_empty` are used).
  `listed` is the object-store listing under `table_prefix/prefix` (segment-wise prefix match),
  `parseRow` is `try_into_partitioned_file` (`parse_partitions_for_path` + `ScalarValue::try_from_string`),
  `evalF` the three-valued evaluation of the (small) filter language on the partition row
  (`filter_partitioned_file`), `prunedList` the composition = `pruned_partition_list`.
-/
import DfModel.Text.Percent
import DfModel.Text.Hive
import DfModel.Mech.Demux
namespace DfModel.Mech.PartPrune
open DfModel.Text.Percent DfModel.Text.Hive
open DfModel.Mech.Demux (Cell Ty)

/-! ### values and their text forms -/

def digitsOf (n : Nat) : Bytes := (Nat.toDigits 10 n).map Char.toNat

/-- `ScalarValue::to_string()` of a literal (NULL prints as `NULL`) -/
def render : Option Cell → Bytes
  | none => [78, 85, 76, 76]
  | some (.str s) => s
  | some (.int i) => if i < 0 then 45 :: digitsOf i.natAbs else digitsOf i.natAbs
  | some (.bool true) => [116, 114, 117, 101]
  | some (.bool false) => [102, 97, 108, 115, 101]

def parseNat : Bytes → Option Nat
  | [] => none
  | ds => ds.foldl (fun acc d => match acc with
      | none => none
      | some a => if 48 ≤ d ∧ d ≤ 57 then some (a * 10 + (d - 48)) else none) (some 0)

/-- `ScalarValue::try_from_string(text, Int64)` (arrow string→integer parse): optional sign, then
    one or more digits — leading zeros and `+` are accepted. -/
def parseInt : Bytes → Option Int
  | 45 :: ds => (parseNat ds).map (fun n => - (n : Int))
  | 43 :: ds => (parseNat ds).map (fun n => (n : Int))
  | ds => (parseNat ds).map (fun n => (n : Int))

/-- typed value of a decoded directory value -/
def parseCell : Ty → Bytes → Option Cell
  | .utf8, t => some (.str t)
  | .int, t => (parseInt t).map .int
  | .bool, _ => none        -- not modelled (driver answers `unsupported`)

/-! ### filters -/

inductive CmpOp where
  | eq | ne | lt | le | gt | ge
  deriving DecidableEq, Repr

inductive Filter where
  /-- `Column op Literal` -/
  | cmp (op : CmpOp) (col : Bytes) (lit : Option Cell)
  /-- `Literal op Column` -/
  | cmpR (op : CmpOp) (lit : Option Cell) (col : Bytes)
  | and (l r : Filter)
  | or (l r : Filter)
  | not (f : Filter)
  | isNull (col : Bytes)
  | isNotNull (col : Bytes)
  deriving Repr

abbrev Row := Bytes → Option Cell

def cmpCells (op : CmpOp) : Cell → Cell → Option Bool
  | .int a, .int b => some (match op with
      | .eq => a == b | .ne => a != b | .lt => a < b | .le => a ≤ b | .gt => a > b | .ge => a ≥ b)
  | .str a, .str b => some (match op with
      | .eq => a == b | .ne => a != b | .lt => a < b | .le => a ≤ b | .gt => b < a | .ge => b ≤ a)
  | .bool a, .bool b => some (match op with
      | .eq => a == b | .ne => a != b | .lt => (!a && b) | .le => (!a || b) | .gt => (a && !b) | .ge => (a || !b))
  | _, _ => none     -- ill-typed comparison: treated as NULL (the harness never produces one)

def and3 : Option Bool → Option Bool → Option Bool
  | some false, _ => some false
  | _, some false => some false
  | some true, some true => some true
  | _, _ => none

def or3 : Option Bool → Option Bool → Option Bool
  | some true, _ => some true
  | _, some true => some true
  | some false, some false => some false
  | _, _ => none

/-- SQL three-valued evaluation on a partition row -/
def evalF (row : Row) : Filter → Option Bool
  | .cmp op col lit => match row col, lit with
      | some a, some b => cmpCells op a b
      | _, _ => none
  | .cmpR op lit col => match lit, row col with
      | some a, some b => cmpCells op a b
      | _, _ => none
  | .and l r => and3 (evalF row l) (evalF row r)
  | .or l r => or3 (evalF row l) (evalF row r)
  | .not f => (evalF row f).map (!·)
  | .isNull col => some (row col).isNone
  | .isNotNull col => some (row col).isSome

/-! ### evaluate_partition_prefix -/

inductive PV where
  | single (s : Bytes)
  | multi
  deriving DecidableEq, Repr

abbrev PMap := List (Bytes × PV)

def pget (m : PMap) (k : Bytes) : Option PV :=
  match m with
  | [] => none
  | (k', v) :: rest => if k' = k then some v else pget rest k

def pset (m : PMap) (k : Bytes) (v : PV) : PMap :=
  match m with
  | [] => [(k, v)]
  | (k', v') :: rest => if k' = k then (k', v) :: rest else (k', v') :: pset rest k v

/-- `insert(name, Single(val.to_string()))`; if it replaced an entry, `insert(name, Multi)` -/
def pinsertEq (m : PMap) (col : Bytes) (lit : Option Cell) : PMap :=
  match pget m col with
  | some _ => pset m col .multi
  | none => pset m col (.single (render lit))

/-- `populate_partition_values` -/
def populate : Filter → PMap → PMap
  | .cmp .eq col lit, m => pinsertEq m col lit
  | .cmpR .eq lit col, m => pinsertEq m col lit
  | .and l r, m => populate r (populate l m)
  | _, m => m

/-- the loop over `partition_cols` -/
def prefixParts (m : PMap) : List Bytes → List Bytes
  | [] => []
  | p :: ps =>
    match pget m p with
    | some (.single v) =>
      let enc := encode partitionValueSet v
      if enc = v then (p ++ eqB :: enc) :: prefixParts m ps else []
    | _ => []

/-- `evaluate_partition_prefix`; result = the segments of `Path::from_iter(parts)` -/
def evaluatePartitionPrefix (cols : List Bytes) (filters : List Filter) : Option (List Bytes) :=
  let m := filters.foldl (fun m f => populate f m) []
  if m.isEmpty then none
  else
    let parts := prefixParts m cols
    if parts.isEmpty then none else some (parts.map pathPart)

/-! ### listing, parsing, filtering -/

structure File where
  /-- raw path segments below the table prefix, file name last -/
  segs : List Bytes
  size : Nat
  deriving DecidableEq, Repr

/-- `store.list(table_prefix/prefix)`: segment-wise prefix match -/
def listed (pref : Option (List Bytes)) (files : List File) : List File :=
  match pref with
  | none => files
  | some p => files.filter (fun f => p.isPrefixOf f.segs)

/-- `try_into_partitioned_file`: decoded texts, then typed values; `none` = file skipped -/
def parseRow (cols : List (Bytes × Ty)) (f : File) : Option (List Cell) :=
  match parsePartitions f.segs (cols.map (·.1)) with
  | none => none
  | some texts =>
    if texts.length = cols.length then
      (List.zipWith (fun (c : Bytes × Ty) t => parseCell c.2 t) cols texts).mapM id
    else none

def rowOf (cols : List (Bytes × Ty)) (vals : List Cell) : Row :=
  fun c => match (cols.map (·.1)).zip vals |>.find? (fun kv => kv.1 = c) with
    | some kv => some kv.2
    | none => none

/-- `filter_partitioned_file`: the conjunction of the filters evaluates to TRUE -/
def keeps (cols : List (Bytes × Ty)) (filters : List Filter) (vals : List Cell) : Bool :=
  filters.all (fun f => evalF (rowOf cols vals) f == some true)

/-- the files whose partition values satisfy the filters — what MUST be scanned -/
def required (cols : List (Bytes × Ty)) (filters : List Filter) (files : List File) : List File :=
  files.filter (fun f => f.size > 0 && match parseRow cols f with
    | some vals => keeps cols filters vals
    | none => false)

/-- `pruned_partition_list` -/
def prunedList (cols : List (Bytes × Ty)) (filters : List Filter) (files : List File) : List File :=
  required cols filters (listed (evaluatePartitionPrefix (cols.map (·.1)) filters) files)

end DfModel.Mech.PartPrune
