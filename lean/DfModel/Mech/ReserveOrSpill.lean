/-
  C18 — reserve-or-spill: the external sort of `physical-plan/src/sorts/sort.rs`
  (`ExternalSorter::{insert_batch, sort, sort_and_spill_in_mem_batches, in_mem_sort_stream,
  consume_and_spill_append, spill_finish, reserve_memory_for_merge}`) and the multi-level merge of
  `sorts/multi_level_merge.rs` (`create_stream`, `merge_sorted_runs_within_mem_limit`,
  `get_sorted_spill_files_to_merge`, `split_spill_file_in_half`), run against an ADVERSARIAL
  environment:

    * `grant  n` — answer of the n-th `MemoryPool::try_grow` call (any call may be denied),
    * `diskOk n` — answer of the n-th spill-file append (disk limit may be hit at any write),
    * `cancel n` — whether the stream is dropped at the n-th `.await` point.

  The state carries a ghost ledger: `pool` (what `MemoryPool::reserved()` reports: changed only by
  grow/shrink calls, exactly as the pool sees them), the sizes of the reservations the operator
  holds (`main` = `ExternalSorter::reservation`, `merge` = `merge_reservation`, `stream` = the
  reservations moved into in-flight sorted streams (`take`/`split` + `ReservationStream`),
  `mlocal` = the reservation owned by a merge stream / `MultiLevelMergeBuilder::reservation`,
  `pass` = the per-pass `memory_reservation` / re-spill reservation), `disk` (live temp files)
  and the spill files the operator holds.  `bad` records a pool/disk underflow (a shrink of more
  than the pool holds wraps the real counter).  An `Err.internal` outcome stands for the panics /
  internal errors of the code (`split(..).unwrap()`, `assert_eq!(size, reservation.size())`,
  `try_shrink` beyond the size, "in_mem_batches must not be empty").

  Rows are integers sorted ascending (the whole row is the key, so the result is unique).
  Sizes (`sz` = `get_reserved_bytes_for_record_batch`, `msz` = `get_record_batch_memory_size` /
  the in-file batch size) are arbitrary functions — real allocation sizes are inputs, not modelled.
  Core Lean only.
-/
set_option linter.unusedVariables false
namespace DfModel.Mech.ReserveOrSpill

abbrev Row := Int
abbrev Batch := List Row
/-- a spill file: the batches appended to it, in order -/
abbrev Run := List Batch

def le (a b : Row) : Bool := decide (a ≤ b)

/-- reference: the sorted input -/
def sortRows (l : List Row) : List Row := l.mergeSort le

/-- k-way merge of runs (each must be sorted for the result to be sorted) -/
def kmerge : List (List Row) → List Row
  | [] => []
  | r :: rs => List.merge r (kmerge rs) le

/-- cut a row list into batches of `n` rows (`sort_batch_chunked`, `BatchBuilder` output) -/
def chunksAux (n : Nat) : List Row → Nat → Batch → List Batch
  | [], _, cur => if cur.isEmpty then [] else [cur.reverse]
  | x :: xs, k, cur =>
    if k + 1 ≥ n then (x :: cur).reverse :: chunksAux n xs 0 [] else chunksAux n xs (k + 1) (x :: cur)

def chunks (n : Nat) (l : List Row) : List Batch := chunksAux n l 0 []

inductive Err where
  | resources | cancelled | internal
  deriving DecidableEq, Repr

structure Cfg where
  sz : Batch → Nat
  msz : Batch → Nat
  batchSize : Nat
  spillReserve : Nat          -- sort_spill_reservation_bytes
  inPlaceThreshold : Nat      -- sort_in_place_threshold_bytes
  fanIn : Nat                 -- max_spill_merge_fan_in (0 = unlimited)
  diskEnabled : Bool          -- DiskManager::tmp_files_enabled

structure Env where
  grant : Nat → Bool
  diskOk : Nat → Bool
  cancel : Nat → Bool

structure St where
  calls : Nat := 0            -- try_grow calls so far
  writes : Nat := 0           -- spill appends so far
  ticks : Nat := 0            -- await points passed
  pool : Nat := 0             -- ghost: MemoryPool::reserved()
  disk : Nat := 0             -- ghost: live temp files
  bad : Bool := false         -- ghost: pool / disk counter underflow happened
  main : Nat := 0
  merge : Nat := 0
  stream : Nat := 0
  mlocal : Nat := 0
  pass : Nat := 0
  inMem : List Batch := []
  inProg : Option Run := none
  spills : List Run := []     -- finished spill files (during the merge: the builder's files)
  reading : Nat := 0          -- files owned by the stream currently being read
  deriving Repr

inductive Res (α : Type) where
  | ok (a : α) (s : St)
  | fail (e : Err) (s : St)

/-- the state a computation ends in, whether it succeeded or failed -/
def Res.st : Res α → St
  | .ok _ s => s
  | .fail _ s => s

abbrev M (α : Type) := St → Res α

@[inline] def M.pure (a : α) : M α := fun s => .ok a s
@[inline] def M.bind (m : M α) (f : α → M β) : M β := fun s =>
  match m s with
  | .ok a s' => f a s'
  | .fail e s' => .fail e s'

instance : Monad M where
  pure := M.pure
  bind := M.bind

def failWith (e : Err) : M α := fun s => .fail e s

def getSt : M St := fun s => .ok s s

def forEach : List α → (α → M Unit) → M Unit
  | [], _ => M.pure ()
  | x :: xs, f => M.bind (f x) (fun _ => forEach xs f)

inductive Slot where
  | main | merge | stream | mlocal | pass
  deriving DecidableEq, Repr

def St.get (s : St) : Slot → Nat
  | .main => s.main | .merge => s.merge | .stream => s.stream | .mlocal => s.mlocal | .pass => s.pass

def St.set (s : St) (k : Slot) (v : Nat) : St :=
  match k with
  | .main => { s with main := v } | .merge => { s with merge := v } | .stream => { s with stream := v }
  | .mlocal => { s with mlocal := v } | .pass => { s with pass := v }

/-- `MemoryPool::shrink(n)`: the real counters are `fetch_sub`; an underflow is recorded -/
def poolShrink (n : Nat) (s : St) : St :=
  if n ≤ s.pool then { s with pool := s.pool - n } else { s with bad := true }

def diskDelete (n : Nat) (s : St) : St :=
  if n ≤ s.disk then { s with disk := s.disk - n } else { s with bad := true }

/-! ### primitives: `MemoryReservation` API -/

/-- `.await`: the future may be dropped here -/
def await (env : Env) : M Unit := fun s =>
  if env.cancel s.ticks then .fail .cancelled { s with ticks := s.ticks + 1 }
  else .ok () { s with ticks := s.ticks + 1 }

/-- `reservation.try_grow(n).is_err()` used as a condition: returns whether it was granted -/
def tryGrowSoft (env : Env) (k : Slot) (n : Nat) : M Bool := fun s =>
  if env.grant s.calls then
    .ok true (({ s with calls := s.calls + 1, pool := s.pool + n }).set k (s.get k + n))
  else .ok false { s with calls := s.calls + 1 }

/-- `reservation.try_grow(n)?` -/
def tryGrow (env : Env) (k : Slot) (n : Nat) : M Unit := fun s =>
  match tryGrowSoft env k n s with
  | .ok true s' => .ok () s'
  | .ok false s' => .fail .resources s'
  | .fail e s' => .fail e s'

/-- `reservation.free()` -/
def free (k : Slot) : M Unit := fun s => .ok () ((poolShrink (s.get k) s).set k 0)

/-- `reservation.try_shrink(n)?` — internal error when `n` exceeds the size -/
def tryShrink (k : Slot) (n : Nat) : M Unit := fun s =>
  if n ≤ s.get k then .ok () ((poolShrink n s).set k (s.get k - n)) else .fail .internal s

/-- `reservation.try_resize(cap)?` -/
def tryResize (env : Env) (k : Slot) (cap : Nat) : M Unit := fun s =>
  if cap > s.get k then tryGrow env k (cap - s.get k) s
  else if cap < s.get k then tryShrink k (s.get k - cap) s
  else .ok () s

/-- `from.split(n)` / `from.take()` handed to `to`: no pool traffic; panics if `n > size` -/
def move (src dst : Slot) (n : Nat) : M Unit := fun s =>
  if n ≤ s.get src then .ok () ((s.set src (s.get src - n)).set dst (((s.set src (s.get src - n)).get dst) + n))
  else .fail .internal s

/-! ### primitives: spill files -/

/-- `SpillManager::create_in_progress_file`, assigned to the in-progress slot (a previous
    in-progress file in that slot would be dropped, i.e. deleted, by the assignment) -/
def createFile (cfg : Cfg) : M Unit := fun s =>
  if cfg.diskEnabled then
    let s1 := match s.inProg with
      | none => s
      | some _ => diskDelete 1 s
    .ok () { s1 with disk := s1.disk + 1, inProg := some [] }
  else .fail .resources s

/-- `InProgressSpillFile::append_batch(b)?` (disk limit may reject the write) -/
def appendBatch (env : Env) (b : Batch) : M Unit := fun s =>
  match s.inProg with
  | none => .fail .internal s
  | some r =>
    if env.diskOk s.writes then .ok () { s with writes := s.writes + 1, inProg := some (r ++ [b]) }
    else .fail .resources { s with writes := s.writes + 1 }

/-- `InProgressSpillFile::finish()`: `None` (file deleted) when nothing was appended; otherwise the
    finished file is handed to its new owner — parked at the end of `spills` (for the sorter that is
    `finished_spill_files.push`, for the multi-level merge `sorted_spill_files.push`) -/
def finishFile : M (Option Run) := fun s =>
  match s.inProg with
  | none => .fail .internal s
  | some [] => .ok none (diskDelete 1 { s with inProg := none })
  | some (b :: r) => .ok (some (b :: r)) { s with inProg := none, spills := s.spills ++ [b :: r] }

/-- the first `n` files of `spills` move into the stream being built (`drain(..n)`) -/
def startReading (n : Nat) : M Unit := fun s =>
  .ok () { s with spills := s.spills.drop n,
                  reading := s.reading + (s.spills.length - (s.spills.drop n).length) }

/-- file `idx` moves out of the vec into a reader stream -/
def startReadingIdx (idx : Nat) : M Unit := fun s =>
  .ok () { s with spills := s.spills.eraseIdx idx,
                  reading := s.reading + (s.spills.length - (s.spills.eraseIdx idx).length) }

/-- reorder the file vec (swap back into place) -/
def reorderSpills (l : List Run) : M Unit := fun s =>
  if l.length = s.spills.length then .ok () { s with spills := l } else .fail .internal s

def setInMem (l : List Batch) : M Unit := fun s => .ok () { s with inMem := l }

/-- largest in-file batch of a run (`max_record_batch_memory`) -/
def maxMem (cfg : Cfg) (r : Run) : Nat := (r.map cfg.msz).foldl max 0

/-! ### `ExternalSorter` -/

/-- `reserve_memory_for_merge` -/
def reserveMemoryForMerge (cfg : Cfg) (env : Env) : M Unit := do
  let s ← getSt
  (if cfg.diskEnabled && s.merge != cfg.spillReserve then tryResize env .merge cfg.spillReserve
   else pure ())

/-- `sort_batch_stream(batch, reservation)`: the reservation (already inside `stream`) is resized
    from the batch's reserved size to the sorted output's size -/
def sortBatchStream (cfg : Cfg) (env : Env) (b : Batch) : M (List Batch) := do
  let out := chunks cfg.batchSize (sortRows b)
  let total := (out.map cfg.msz).sum
  (if total > cfg.sz b then tryGrow env .stream (total - cfg.sz b)
   else tryShrink .stream (cfg.sz b - total))
  pure out

/-- `coalesce_in_mem_batches_into_runs`: group consecutive batches up to the threshold -/
def coalesceGo (cfg : Cfg) (target : Nat) : List Batch → List Batch → Nat → List Batch
  | [], group, _ => if group.isEmpty then [] else [group.flatten]
  | b :: bs, group, bytes =>
    if !group.isEmpty && bytes + cfg.sz b > target then
      group.flatten :: coalesceGo cfg target bs [b] (cfg.sz b)
    else coalesceGo cfg target bs (group ++ [b]) (bytes + cfg.sz b)

def coalesceRuns (cfg : Cfg) (bs : List Batch) : List Batch :=
  coalesceGo cfg (max cfg.inPlaceThreshold 1) bs [] 0

/-- per-run part of the merge branch of `in_mem_sort_stream`: `reservation.split(sz run)`,
    `sort_batch_stream`, and the merge's `BatchBuilder::push_batch` reservations -/
def startRun (cfg : Cfg) (env : Env) (r : Batch) : M Unit := do
  move .main .stream (cfg.sz r)
  let out ← sortBatchStream cfg env r
  forEach out (fun c => tryGrow env .mlocal (cfg.msz c))

/-- `in_mem_sort_stream(is_output, coalesce_runs)`; returns the sorted output batches, leaving the
    stream's reservations in `stream` / `mlocal` (they live as long as the stream) -/
def inMemSortStream (cfg : Cfg) (env : Env) (coalesce : Bool) : M (List Batch) := do
  let s ← getSt
  match s.inMem with
  | [] => pure []
  | [b] =>
    setInMem []
    -- `assert_eq!(get_reserved_bytes_for_record_batch(&batch), reservation.size())`
    (if s.main != cfg.sz b then failWith .internal else pure ())
    move .main .stream s.main
    sortBatchStream cfg env b
  | bs =>
    setInMem []
    if s.main < cfg.inPlaceThreshold then
      tryResize env .main (cfg.sz bs.flatten)
      move .main .stream (cfg.sz bs.flatten)
      sortBatchStream cfg env bs.flatten
    else
      let runs := if coalesce then coalesceRuns cfg bs else bs
      (if coalesce then tryResize env .main ((runs.map cfg.sz).sum) else pure ())
      forEach runs (startRun cfg env)
      pure (chunks cfg.batchSize (kmerge (runs.map sortRows)))

/-- `consume_and_spill_append(&mut buf)` -/
def consumeAndSpillAppend (cfg : Cfg) (env : Env) (buf : List Batch) : M Unit := do
  if buf.isEmpty then pure () else do
    let s ← getSt
    (if s.inProg.isNone then createFile cfg else pure ())
    free .main
    forEach buf (appendBatch env)

/-- `spill_finish` -/
def spillFinish : M Unit := do
  let _ ← finishFile

/-- the `while let Some(batch) = sorted_stream.next().await` loop of
    `sort_and_spill_in_mem_batches`; `buf` = `globally_sorted_batches` -/
def spillLoop (cfg : Cfg) (env : Env) : List Batch → List Batch → M (List Batch)
  | [], buf => M.pure buf
  | c :: cs, buf => do
    await env
    let granted ← tryGrowSoft env .main (cfg.sz c)
    if granted then spillLoop cfg env cs (buf ++ [c])
    else do
      consumeAndSpillAppend cfg env (buf ++ [c])
      spillLoop cfg env cs []

/-- drop of the in-memory sorted stream: its reservations go back to the pool -/
def dropSortedStream : M Unit := do
  free .stream
  free .mlocal

/-- `sort_and_spill_in_mem_batches` -/
def sortAndSpill (cfg : Cfg) (env : Env) : M Unit := do
  let s ← getSt
  (if s.inMem.isEmpty then failWith .internal else pure ())
  free .merge
  let sorted ← inMemSortStream cfg env false
  let buf ← spillLoop cfg env sorted []
  await env
  dropSortedStream
  consumeAndSpillAppend cfg env buf
  spillFinish
  reserveMemoryForMerge cfg env

/-- `reserve_memory_for_batch_and_maybe_spill` + push (second half of `insert_batch`) -/
def reserveAndPush (cfg : Cfg) (env : Env) (b : Batch) : M Unit := do
  let granted ← tryGrowSoft env .main (cfg.sz b)
  (if !granted then do
      let s ← getSt
      (if s.inMem.isEmpty then failWith .resources else pure ())
      sortAndSpill cfg env
      tryGrow env .main (cfg.sz b)
   else pure ())
  let s ← getSt
  setInMem (s.inMem ++ [b])

/-- `insert_batch` -/
def insertBatch (cfg : Cfg) (env : Env) (b : Batch) : M Unit := do
  if b.isEmpty then pure () else
  reserveMemoryForMerge cfg env
  reserveAndPush cfg env b

/-! ### multi-level merge -/

/-- `spill_record_batch_stream_and_return_max_batch_memory` over the merged stream -/
def spillStream (cfg : Cfg) (env : Env) (out : List Batch) : M (Option Run) := do
  createFile cfg
  forEach out (fun c => do await env; appendBatch env c)
  await env
  finishFile

inductive Sel where
  | ready (n : Nat)       -- merge the first `n` files
  | tooFew (n : Nat)      -- a grow was denied with fewer than 2 streams seated
  deriving Repr

/-- the `for` loop of `get_sorted_spill_files_to_merge` at one `buffer_len` -/
def selectGo (cfg : Cfg) (env : Env) (maxFiles bufLen : Nat) : List Run → Nat → Nat → M Sel
  | [], n, _ => M.pure (.ready n)
  | f :: fs, n, total => do
    if n ≥ maxFiles then pure (.ready n) else
    let total' := total + (maxMem cfg f + maxMem cfg f) * bufLen
    -- `try_grow_reservation_to_at_least`
    let s ← getSt
    if total' > s.pass then
      let granted ← tryGrowSoft env .pass (total' - s.pass)
      if granted then selectGo cfg env maxFiles bufLen fs (n + 1) total'
      else if 2 > n then pure (.tooFew n) else pure (.ready n)
    else selectGo cfg env maxFiles bufLen fs (n + 1) total'

def effectiveFanIn (n : Nat) : Option Nat := if n = 0 then none else some (max n 2)

def maxFilesOf (cfg : Cfg) (files : List Run) : Nat :=
  match effectiveFanIn cfg.fanIn with
  | none => files.length + 1      -- usize::MAX: never reached
  | some k => k

inductive Pick where
  | ready (n : Nat)
  | split (idx : Nat)
  deriving Repr

/-- `get_sorted_spill_files_to_merge(2, 2, &mut memory_reservation)` incl. the retry with
    `buffer_len - 1` and the `SplitThenRetry` decision -/
def selectFiles (cfg : Cfg) (env : Env) (files : List Run) : M Pick := do
  match ← selectGo cfg env (maxFilesOf cfg files) 2 files 0 0 with
  | .ready n => pure (.ready n)
  | .tooFew _ =>
    free .pass
    match ← selectGo cfg env (maxFilesOf cfg files) 1 files 0 0 with
    | .ready n => pure (.ready n)
    | .tooFew n =>
      free .pass
      if n = 0 then failWith .resources
      else
        match files with
        | f0 :: f1 :: _ => pure (.split (if maxMem cfg f1 > maxMem cfg f0 then 1 else 0))
        | _ => failWith .internal

/-- `split_batch_in_half` -/
def splitBatchInHalf (b : Batch) : List Batch :=
  if b.length ≤ 1 then [b] else [b.take (b.length / 2), b.drop (b.length / 2)]

def halveRun (r : Run) : Run := r.flatMap splitBatchInHalf

def sumMax (cfg : Cfg) (files : List Run) : Nat := (files.map (maxMem cfg)).sum

theorem sumMax_set_lt (cfg : Cfg) (files : List Run) (idx : Nat) (target run : Run)
    (ht : files[idx]? = some target) (hlt : maxMem cfg run < maxMem cfg target) :
    sumMax cfg (files.set idx run) < sumMax cfg files := by
  induction files generalizing idx with
  | nil => simp at ht
  | cons f fs ih =>
    cases idx with
    | zero =>
      simp only [List.getElem?_cons_zero, Option.some.injEq] at ht
      subst ht
      simp only [sumMax, List.set_cons_zero, List.map_cons, List.sum_cons]
      omega
    | succ i =>
      simp only [List.getElem?_cons_succ] at ht
      have := ih i ht
      simp only [sumMax, List.set_cons_succ, List.map_cons, List.sum_cons] at *
      omega

/-- end of one `loop` iteration of `create_stream`: the pass's stream is dropped — the files it
    read are deleted, its reservation is freed -/
def dropPassStream : M Unit := fun s =>
  .ok () ((poolShrink s.pass (diskDelete s.reading { s with reading := 0 })).set .pass 0)

/-- one merge pass that is not the last: read the first `n` files, merge, spill the result -/
def mergePass (cfg : Cfg) (env : Env) (sel : List Run) : M (Option Run) := do
  let r ← spillStream cfg env (chunks cfg.batchSize (kmerge (sel.map List.flatten)))
  dropPassStream
  pure r

/-- `split_spill_file_in_half(idx)` up to the size comparison; returns the re-spilled run -/
def resplit (cfg : Cfg) (env : Env) (files : List Run) (idx : Nat) (target : Run) : M Run := do
  tryGrow env .pass (maxMem cfg target + maxMem cfg target)
  startReadingIdx idx
  match ← spillStream cfg env (halveRun target) with
  | none => failWith .internal     -- "re-spilling a skewed spill file produced no data"
  | some run =>
    -- `reservation.free()`; the reader (and the old file) is dropped at the end of the function
    dropPassStream
    reorderSpills (files.set idx run)
    pure run

/-- `let mut memory_reservation = self.reservation.take()`, then the selection -/
def selectStep (cfg : Cfg) (env : Env) (files : List Run) : M Pick := do
  let s ← getSt
  move .mlocal .pass s.mlocal
  selectFiles cfg env files

/-- `MultiLevelMergeBuilder::create_stream` with only spill files (the way `ExternalSorter::sort`
    builds it).  `files` = `sorted_spill_files` (= `St.spills` throughout). Returns the batches of
    the final output stream; that stream keeps `reading` files and the `pass` reservation alive
    until it is finished or dropped. -/
def mergeLoop (cfg : Cfg) (env : Env) (files : List Run) (s : St) : Res (List Batch) :=
  match hf : files with
  | [] => .ok [] s
  | [r] => startReading 1 s |> fun | .ok _ s' => .ok r s' | .fail e s' => .fail e s'
  | f0 :: f1 :: fs =>
    match selectStep cfg env files s with
    | .fail e s' => .fail e s'
    | .ok (.ready n) s2 =>
      if h : 2 ≤ n ∧ n ≤ files.length then
        match startReading n s2 with
        | .fail e s' => .fail e s'
        | .ok _ s3 =>
        if (files.drop n).isEmpty then
          .ok (chunks cfg.batchSize (kmerge ((files.take n).map List.flatten))) s3
        else
          match mergePass cfg env (files.take n) s3 with
          | .fail e s' => .fail e s'
          | .ok none s5 => mergeLoop cfg env (files.drop n) s5
          | .ok (some run) s5 => mergeLoop cfg env (files.drop n ++ [run]) s5
      else .fail .internal s2
    | .ok (.split idx) s2 =>
      match ht : files[idx]? with
      | none => .fail .internal s2
      | some target =>
        match resplit cfg env files idx target s2 with
        | .fail e s' => .fail e s'
        | .ok run s5 =>
          -- "a single record batch … cannot be split further"
          if maxMem cfg run ≥ maxMem cfg target then .fail .resources s5
          else mergeLoop cfg env (files.set idx run) s5
termination_by (files.length, sumMax cfg files)
decreasing_by
  all_goals simp_wf
  · left; have := h.1; have := h.2; simp only [hf, List.length_cons] at *; omega
  · left; have := h.1; have := h.2; simp only [hf, List.length_cons] at *; omega
  · rename_i hlt
    have h1 := sumMax_set_lt cfg files idx target run ht (by omega)
    have h2 : files.length = fs.length + 1 + 1 := by simp [hf]
    rw [h2, ← hf]
    exact Prod.Lex.right _ h1

/-- `ExternalSorter::sort` -/
def sortPhase (cfg : Cfg) (env : Env) : M (List Batch) := do
  let s ← getSt
  if !s.spills.isEmpty then
    (if !s.inMem.isEmpty then sortAndSpill cfg env else pure ())
    -- `.with_reservation(self.merge_reservation.take())`
    let s1 ← getSt
    move .merge .mlocal s1.merge
    mergeLoop cfg env s1.spills
  else
    free .merge
    inMemSortStream cfg env true

/-- the future inside `SortExec::execute`: read every input batch, then sort -/
def extSort (cfg : Cfg) (env : Env) (input : List Batch) : M (List Batch) := do
  forEach input (fun b => do await env; insertBatch cfg env b)
  await env
  sortPhase cfg env

inductive Outcome where
  | rows (xs : List Row)
  | err (e : Err)
  deriving DecidableEq, Repr

def run (cfg : Cfg) (env : Env) (input : List Batch) : Outcome × St :=
  match extSort cfg env input {} with
  | .ok out s => (.rows out.flatten, s)
  | .fail e s => (.err e, s)

def cnt : Option Run → Nat
  | none => 0
  | some _ => 1

/-- a counter (`pool` / `disk`) after a sequence of `fetch_sub`s; the flag records an underflow -/
def shrinkAll : Nat → List Nat → Nat × Bool
  | c, [] => (c, false)
  | c, n :: ns => if n ≤ c then shrinkAll (c - n) ns else ((shrinkAll c ns).1, true)

/-- drop of everything the operator / its output stream owns (stream finished, failed, or dropped):
    every reservation frees its own size, every held spill file is deleted, one by one -/
def dropAll (s : St) : St :=
  let p := shrinkAll s.pool [s.main, s.merge, s.stream, s.mlocal, s.pass]
  let d := shrinkAll s.disk [s.spills.length, cnt s.inProg, s.reading]
  { s with pool := p.1, disk := d.1, bad := s.bad || p.2 || d.2,
           main := 0, merge := 0, stream := 0, mlocal := 0, pass := 0, spills := [], inProg := none,
           reading := 0, inMem := [] }

end DfModel.Mech.ReserveOrSpill
