/-
  L3 — partitioned execution (C02).  Core Lean only (linked into `dfdrv`).

  A relation is held as partitions of batches of rows; an operator of the physical plan works on one
  partition (one batch) at a time, exchange operators (`RepartitionExec` hash / round-robin,
  `CoalescePartitionsExec`) move rows between partitions, aggregation runs in two stages
  (`AggregateMode::Partial` per partition, `Final`/`FinalPartitioned` over the merged partial states),
  `LIMIT` is pushed into every partition and re-applied on top.

  Everything here is a definition of *how* the engine evaluates; `Props/C02.lean` proves that it is
  the same as evaluating the whole relation at once.
-/
import DfModel.Sql.Rel
namespace DfModel.Mech.Partitioned
open DfModel

abbrev Parts := List (List Row)

/-- a relation seen as a whole -/
def whole (ps : Parts) : List Row := ps.flatten

/-- run a per-partition operator on every partition (an error in any partition fails the query) -/
def perPartition (f : List Row → Except RtErr (List Row)) (ps : Parts) : Except RtErr Parts := ps.mapM f

/-- `RepartitionExec(Hash(key, n))`: partition `i` receives the rows whose key hashes to `i` (mod n);
    `h` is an arbitrary function of the key (the hash function is not modelled) -/
def hashRepartition (n : Nat) (key : Row → Row) (h : Row → Nat) (rows : List Row) : Parts :=
  (List.range n).map (fun i => rows.filter (fun r => h (key r) % n == i))

/-! ## two-stage aggregation (`Partial` per partition, then `Final`) -/

/-- the partial state of one partition, encoded as a value: COUNT → the count, SUM → the (wrapping)
    partial sum or NULL, MIN/MAX → the partial extreme or NULL -/
def partialAgg (fn : AggFn) (vals : List Val) : Except RtErr Val := aggVals fn false vals.length vals

/-- `Final`: COUNT adds the partial counts (from 0), SUM adds the partial sums, MIN/MAX take the
    extreme of the partial extremes -/
def finalAgg (fn : AggFn) (partials : List Val) : Except RtErr Val :=
  match fn with
  | .countStar | .count => do
    match ← sumVals (partials.filter (fun v => !v.isNull)) with
    | none => pure (.int 64 true 0)
    | some (_, n) => pure (.int 64 true (wrapInt 64 true n))
  | .sum => aggVals .sum false 0 partials
  | .min => aggVals .min false 0 partials
  | .max => aggVals .max false 0 partials

def twoStage (fn : AggFn) (parts : List (List Val)) : Except RtErr Val := do
  let ps ← parts.mapM (partialAgg fn)
  finalAgg fn ps

/-! ## LIMIT pushdown -/

/-- `LIMIT n` pushed into every partition (`LocalLimitExec`) and re-applied after coalescing
    (`GlobalLimitExec`) -/
def limitPushed (n : Nat) (ps : Parts) : List Row := ((ps.map (List.take n)).flatten).take n

end DfModel.Mech.Partitioned
