/-
  Mech/Pruning.lean — hand model of the statistics rewrite in
  `datafusion/pruning/src/pruning_predicate.rs` (`build_predicate_expression`,
  `build_statistics_expr`, `build_single_column_expr`, `build_is_null_column_expr`,
  `wrap_null_count_check_expr`, the AND/OR constant folding, IN-list expansion) together with
  the row-level SQL semantics of the predicate fragment and the three-valued evaluation of the
  rewritten predicate over one container's statistics (unknown statistic = NULL).
  Core Lean only.
-/
namespace DfModel.Mech.Pruning

/-! ### three-valued logic (Kleene), `none` = NULL -/

def and3 : Option Bool → Option Bool → Option Bool
  | some false, _ => some false
  | _, some false => some false
  | some true, some true => some true
  | _, _ => none

def or3 : Option Bool → Option Bool → Option Bool
  | some true, _ => some true
  | _, some true => some true
  | some false, some false => some false
  | _, _ => none

def not3 : Option Bool → Option Bool
  | some b => some (!b)
  | none => none

inductive Cmp where
  | eq | ne | lt | le | gt | ge
  deriving Repr, DecidableEq

def Cmp.holds : Cmp → Int → Int → Bool
  | .eq, a, b => decide (a = b)
  | .ne, a, b => decide (a ≠ b)
  | .lt, a, b => decide (a < b)
  | .le, a, b => decide (a ≤ b)
  | .gt, a, b => decide (a > b)
  | .ge, a, b => decide (a ≥ b)

/-- `reverse_operator` = `Operator::swap` -/
def Cmp.swap : Cmp → Cmp
  | .eq => .eq
  | .ne => .ne
  | .lt => .gt
  | .le => .ge
  | .gt => .lt
  | .ge => .le

/-- SQL comparison: NULL if an operand is NULL -/
def cmp3 (op : Cmp) : Option Int → Option Int → Option Bool
  | some x, some y => some (op.holds x y)
  | _, _ => none

/-- a row: nullable integer columns and nullable boolean columns, by column index -/
structure Row where
  iv : Nat → Option Int
  bv : Nat → Option Bool

/-- the predicate fragment -/
inductive Expr where
  | lit (b : Option Bool)
  | cmp (op : Cmp) (col : Nat) (l : Option Int)
  | cmpR (op : Cmp) (l : Option Int) (col : Nat)
  | cmpCC (op : Cmp) (c1 c2 : Nat)
  | isNull (col : Nat)
  | isNotNull (col : Nat)
  | bcol (col : Nat)
  | not (e : Expr)
  | and (a b : Expr)
  | or (a b : Expr)
  | inList (col : Nat) (ls : List (Option Int)) (negated : Bool)
  /-- `col IS DISTINCT FROM lit` (`neg = false`) / `col IS NOT DISTINCT FROM lit` (`neg = true`);
      `lit op col` is the same node (`reverse_operator` maps both operators to themselves) -/
  | distinct (neg : Bool) (col : Nat) (l : Option Int)
  deriving Repr

/-- `x IN (l₁, …, lₙ)` = `x = l₁ OR … OR x = lₙ` in 3VL -/
def inList3 (x : Option Int) (ls : List (Option Int)) : Option Bool :=
  ls.foldl (fun acc l => or3 acc (cmp3 .eq x l)) (some false)

/-- row-by-row SQL semantics -/
def eval : Expr → Row → Option Bool
  | .lit b, _ => b
  | .cmp op c l, r => cmp3 op (r.iv c) l
  | .cmpR op l c, r => cmp3 op l (r.iv c)
  | .cmpCC op a b, r => cmp3 op (r.iv a) (r.iv b)
  | .isNull c, r => some (r.iv c).isNone
  | .isNotNull c, r => some (r.iv c).isSome
  | .bcol c, r => r.bv c
  | .not e, r => not3 (eval e r)
  | .and a b, r => and3 (eval a r) (eval b r)
  | .or a b, r => or3 (eval a r) (eval b r)
  | .inList c ls neg, r => if neg then not3 (inList3 (r.iv c) ls) else inList3 (r.iv c) ls
  | .distinct neg c l, r => some (if neg then decide (r.iv c = l) else decide (r.iv c ≠ l))

/-! ### container statistics; `none` = unknown -/

structure ColStats where
  min : Option Int
  max : Option Int
  nulls : Option Nat
  deriving Repr

structure BColStats where
  min : Option Bool
  max : Option Bool
  deriving Repr

structure CStats where
  ic : Nat → ColStats
  bc : Nat → BColStats
  rows : Option Nat

inductive STerm where
  | min (c : Nat)
  | max (c : Nat)
  | nulls (c : Nat)
  | rows
  | lit (v : Option Int)
  deriving Repr

def STerm.eval : STerm → CStats → Option Int
  | .min c, s => (s.ic c).min
  | .max c, s => (s.ic c).max
  | .nulls c, s => (s.ic c).nulls.map Int.ofNat
  | .rows, s => s.rows.map Int.ofNat
  | .lit v, _ => v

/-- the rewritten ("pruning") predicate over statistics columns -/
inductive SExpr where
  | lit (b : Option Bool)
  | cmp (op : Cmp) (a b : STerm)
  | bmin (c : Nat)
  | bmax (c : Nat)
  | not (e : SExpr)
  | and (a b : SExpr)
  | or (a b : SExpr)
  deriving Repr

def evalS : SExpr → CStats → Option Bool
  | .lit b, _ => b
  | .cmp op a b, s => cmp3 op (a.eval s) (b.eval s)
  | .bmin c, s => (s.bc c).min
  | .bmax c, s => (s.bc c).max
  | .not e, s => not3 (evalS e s)
  | .and a b, s => and3 (evalS a s) (evalS b s)
  | .or a b, s => or3 (evalS a s) (evalS b s)

/-- `BoolVecBuilder::combine_array`: a container is skipped only on a definite `false` -/
def keep (e : SExpr) (s : CStats) : Bool :=
  match evalS e s with
  | some false => false
  | _ => true

/-! ### the rewrite -/

def alwaysTrue : SExpr → Bool
  | .lit (some true) => true
  | _ => false

def alwaysFalse : SExpr → Bool
  | .lit (some false) => true
  | _ => false

/-- the `(left, And, right)` arms of the constant folding in `build_predicate_expression` -/
def simpAnd (l r : SExpr) : SExpr :=
  if alwaysFalse l || alwaysFalse r then .lit (some false)
  else if alwaysTrue l then r
  else if alwaysTrue r then l
  else .and l r

def simpOr (l r : SExpr) : SExpr :=
  if alwaysTrue l || alwaysTrue r then .lit (some true)
  else if alwaysFalse l then r
  else if alwaysFalse r then l
  else .or l r

/-- `column_has_non_nulls_expr`: `x_null_count != x_row_count` -/
def hasNonNulls (c : Nat) : SExpr := .cmp .ne (.nulls c) .rows

/-- `build_statistics_expr` for `col op lit` incl. `wrap_null_count_check_expr` -/
def statsCmp (op : Cmp) (c : Nat) (l : Option Int) : SExpr :=
  .and (hasNonNulls c)
    (match op with
     | .eq => .and (.cmp .le (.min c) (.lit l)) (.cmp .le (.lit l) (.max c))
     | .ne => .or (.cmp .ne (.min c) (.lit l)) (.cmp .ne (.lit l) (.max c))
     | .gt => .cmp .gt (.max c) (.lit l)
     | .ge => .cmp .ge (.max c) (.lit l)
     | .lt => .cmp .lt (.min c) (.lit l)
     | .le => .cmp .le (.min c) (.lit l))

/-- `column_has_nulls_expr`: `x_null_count > 0` -/
def hasNulls (c : Nat) : SExpr := .cmp .gt (.nulls c) (.lit (some 0))

/-- `build_eq_statistics_expr` / `build_ne_statistics_expr` (no null-count wrap) -/
def eqStats (c : Nat) (l : Option Int) : SExpr :=
  .and (.cmp .le (.min c) (.lit l)) (.cmp .le (.lit l) (.max c))
def neStats (c : Nat) (l : Option Int) : SExpr :=
  .or (.cmp .ne (.min c) (.lit l)) (.cmp .ne (.lit l) (.max c))

/-- `build_is_distinct_from`:
    `(lit IS NULL AND has_non_nulls) OR (lit IS NOT NULL AND (has_nulls OR ne_stats))` -/
def distinctS (c : Nat) (l : Option Int) : SExpr :=
  .or (.and (.lit (some l.isNone)) (hasNonNulls c))
      (.and (.lit (some l.isSome)) (.or (hasNulls c) (neStats c l)))

/-- `build_is_not_distinct_from`:
    `(lit IS NULL AND has_nulls) OR (lit IS NOT NULL AND (has_non_nulls AND eq_stats))` -/
def notDistinctS (c : Nat) (l : Option Int) : SExpr :=
  .or (.and (.lit (some l.isNone)) (hasNulls c))
      (.and (.lit (some l.isSome)) (.and (hasNonNulls c) (eqStats c l)))

/-- `DEFAULT_MAX_IN_LIST_SIZE`-style bound (`max_in_list_size`) -/
def maxInList : Nat := 20

/-- IN-list: `reduce` over `col = lᵢ` with `Or` (`col != lᵢ` with `And` when negated), each step
    going through the AND/OR arm of `build_predicate_expression` (left-nested) -/
def inListS (c : Nat) (neg : Bool) : List (Option Int) → SExpr
  | [] => .lit (some true)
  | l :: rest =>
    rest.foldl
      (fun acc l' =>
        if neg then simpAnd acc (statsCmp .ne c l') else simpOr acc (statsCmp .eq c l'))
      (statsCmp (if neg then .ne else .eq) c l)

/-- `build_predicate_expression` with the default `UnhandledPredicateHook` (constant `true`) -/
def prunePred : Expr → SExpr
  | .lit (some false) => .lit (some false)
  | .lit _ => .lit (some true)
  | .cmp op c l => statsCmp op c l
  | .cmpR op l c => statsCmp op.swap c l
  | .cmpCC _ _ _ => .lit (some true)
  | .isNull c => .cmp .gt (.nulls c) (.lit (some 0))
  | .isNotNull c => .cmp .ne (.nulls c) .rows
  | .bcol c => .or (.bmin c) (.bmax c)
  | .not (.bcol c) => .not (.and (.bmin c) (.bmax c))
  | .not _ => .lit (some true)
  | .and a b => simpAnd (prunePred a) (prunePred b)
  | .or a b => simpOr (prunePred a) (prunePred b)
  | .inList c ls neg =>
    if ls.length ≤ maxInList then inListS c neg ls else .lit (some true)
  | .distinct neg c l => if neg then notDistinctS c l else distinctS c l

/-! ### validity of statistics for a container's rows -/

def countNulls (rows : List Row) (c : Nat) : Nat :=
  (rows.filter (fun r => (r.iv c).isNone)).length

/-- exactly the property's hypothesis: min/max bound the non-null values, null and row counts
    are exact, and any statistic may be unknown -/
structure ValidStats (s : CStats) (rows : List Row) : Prop where
  min_ok : ∀ c m, (s.ic c).min = some m → ∀ r ∈ rows, ∀ v, r.iv c = some v → m ≤ v
  max_ok : ∀ c m, (s.ic c).max = some m → ∀ r ∈ rows, ∀ v, r.iv c = some v → v ≤ m
  nulls_ok : ∀ c n, (s.ic c).nulls = some n → n = countNulls rows c
  rows_ok : ∀ n, s.rows = some n → n = rows.length
  bmin_ok : ∀ c, (s.bc c).min = some true → ∀ r ∈ rows, ∀ v, r.bv c = some v → v = true
  bmax_ok : ∀ c, (s.bc c).max = some false → ∀ r ∈ rows, ∀ v, r.bv c = some v → v = false

end DfModel.Mech.Pruning
