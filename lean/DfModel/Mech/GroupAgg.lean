/-
  C06 — grouped aggregation: specification and strategies, generic in the accumulator algebra
  (`Mech.AggAcc.Acc`) and in the key type.

  Spec (`specAgg`): group-by as a FUNCTION of the row bag — for a key `k`, `none` if no row has key `k`,
  else `eval (update init (values of the rows with key k, in input order))`.  NULL key values are ordinary
  key values (`Option Int` cells), so NULL forms its own group.

  Strategies (datafusion/physical-plan/src/aggregates/*):
    `aggRows`       hash aggregation (`GroupedHashAggregateStream` / `AggregateMode::Single`): a table of
                    `(key, state)` in first-appearance order (`GroupValues` interns keys densely, C13);
    `partialAgg`    `AggregateMode::Partial` on one input partition: `aggRows` from the empty table; its
                    output rows are `(key, state)`;
    `mergeTable`    `AggregateMode::Final*` / `PartialReduce` / the merge after a spill: state rows are
                    interned by key and combined with `merge_batch`;
    `twoStage`      partial per input partition, hash repartition of the state rows by an ARBITRARY routing
                    function, final per output partition;
    `spillAgg`      under memory pressure (adversarial schedule) the table is emitted as a run of state
                    rows and cleared; at the end all runs and the live table are merged per key, in run order
                    (the sort + streaming merge by group key of the real code is stable in stream index — C08);
    `orderedAgg`    input ordered on (a subset `sk` of) the group key: when the sort key changes, all groups
                    of earlier sort keys are complete and are emitted early (`GroupOrderingFull/Partial`:
                    `emit_to = First(current_sort)`); modelled as: every maximal run of rows with one sort key
                    is aggregated on its own and emitted.
  Core Lean only.
-/
import DfModel.Mech.AggAcc
namespace DfModel.Mech.GroupAgg
open DfModel.Mech.AggAcc

variable {K σ ρ : Type} [DecidableEq K]

abbrev Row (K : Type) := K × NV
abbrev Table (K σ : Type) := List (K × σ)

/-- the values of the rows with key `k`, in input order -/
def valsOf (k : K) (rows : List (Row K)) : List NV := (rows.filter (fun r => r.1 = k)).map (·.2)

/-- **specification**: group-by as a function of the rows -/
def specAgg (a : Acc σ ρ) (rows : List (Row K)) (k : K) : Option ρ :=
  if rows.any (fun r => r.1 = k) then some (a.eval (a.update a.init (valsOf k rows))) else none

def lookup (t : Table K σ) (k : K) : Option σ := (t.find? (fun e => e.1 = k)).map (·.2)

/-- find the key's group or create it at the end (dense ids in first-appearance order), apply `f` -/
def upsert (t : Table K σ) (k : K) (dflt : σ) (f : σ → σ) : Table K σ :=
  match t with
  | [] => [(k, f dflt)]
  | e :: rest => if e.1 = k then (e.1, f e.2) :: rest else e :: upsert rest k dflt f

def aggRows (a : Acc σ ρ) (t : Table K σ) (rows : List (Row K)) : Table K σ :=
  rows.foldl (fun t r => upsert t r.1 a.init (fun s => a.step s r.2)) t

def partialAgg (a : Acc σ ρ) (rows : List (Row K)) : Table K σ := aggRows a [] rows

/-- merge state rows into a table -/
def mergeTable (a : Acc σ ρ) (t : Table K σ) (states : Table K σ) : Table K σ :=
  states.foldl (fun t e => upsert t e.1 a.init (fun s => a.merge s e.2)) t

def finalAgg (a : Acc σ ρ) (partials : List (Table K σ)) : Table K σ :=
  partials.foldl (mergeTable a) []

def finalize (a : Acc σ ρ) (t : Table K σ) : List (K × ρ) := t.map (fun e => (e.1, a.eval e.2))

/-- single-stage result -/
def singleAgg (a : Acc σ ρ) (rows : List (Row K)) : List (K × ρ) := finalize a (partialAgg a rows)

/-- two stages with hash repartition: partial per input partition; final partition `j` merges the state
    rows routed to it from every partial, in partition order; the output is the union of the final
    partitions -/
def twoStage (a : Acc σ ρ) (route : K → Nat) (nOut : Nat) (parts : List (List (Row K))) : List (K × ρ) :=
  let partials := parts.map (partialAgg a)
  ((List.range nOut).map (fun j =>
    finalize a (finalAgg a (partials.map (fun p => p.filter (fun e => route e.1 % nOut = j)))))).flatten

/-- cut the row stream where the schedule says "memory pressure": each segment becomes a spilled run -/
def segments {β : Type} : List Bool → List β → List (List β)
  | _, [] => []
  | [], xs => [xs]
  | b :: bs, x :: xs =>
    match segments bs xs with
    | [] => [[x]]
    | seg :: rest => if b then [x] :: seg :: rest else (x :: seg) :: rest

def spillAgg (a : Acc σ ρ) (sched : List Bool) (rows : List (Row K)) : List (K × ρ) :=
  finalize a (finalAgg a ((segments sched rows).map (partialAgg a)))

/-- maximal runs (head, tail) of rows whose sort key (a projection of the group key) is equal -/
def runsOn {S : Type} [DecidableEq S] (sk : K → S) : List (Row K) → List (Row K × List (Row K))
  | [] => []
  | r :: l =>
    match runsOn sk l with
    | [] => [(r, [])]
    | (q, run) :: rs => if sk r.1 = sk q.1 then (r, q :: run) :: rs else (r, []) :: (q, run) :: rs

/-- streaming aggregation over ordered input with early emission -/
def orderedAgg {S : Type} [DecidableEq S] (a : Acc σ ρ) (sk : K → S) (rows : List (Row K)) : List (K × ρ) :=
  ((runsOn sk rows).map (fun run => singleAgg a (run.1 :: run.2))).flatten

/-- "ordered input": once the sort key has changed, an earlier sort key never comes back -/
def Clustered {S : Type} [DecidableEq S] : List S → Prop
  | [] => True
  | a :: l => (∀ b ∈ l.dropWhile (fun x => x = a), b ≠ a) ∧ Clustered l

/-- lookup in an output -/
def lookupOut (out : List (K × ρ)) (k : K) : Option ρ := (out.find? (fun e => e.1 = k)).map (·.2)

end DfModel.Mech.GroupAgg
