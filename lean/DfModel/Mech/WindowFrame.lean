/-
  C09 — window frames and window function evaluation over ONE partition whose rows are already in
  ORDER BY order.  Order key: one nullable integer column with a sort option (`Base/Order.lean`).

  Declarative frames (`inFrame`): the SET of row indices of the frame of row `i`
    ROWS    index arithmetic:  `i - s ≤ j ≤ i + e`
    RANGE   key interval:      `key j` not before `target_lo` and not after `target_hi` in the ORDER BY order,
            where the targets are `key i ∓ offset` (NULL stays NULL: NULL rows are peers of NULL rows only)
    GROUPS  peer-group offsets: `grp j` between `grp i - s` and `grp i + e`
  Mechanisms (datafusion/expr/src/window_state.rs):
    `rowsRange`     = `WindowFrameContext::calculate_range_rows` (saturating at both partition ends)
    `searchFrom`    = `search_in_slice` (linear scan from a start position)
    `rangeBound`    = `WindowFrameStateRange::calculate_index_of_row`: target by checked add/sub (overflow
                      collapses to `search_start` for PRECEDING searches / `length` for FOLLOWING ones), scan
                      from the previous frame's bound (`last_range` memo)
    `slideStep`     = `SlidingAggregateWindowExpr::get_aggregate_result_inside_range`: update with the rows
                      that entered, retract the rows that left; an empty frame retracts everything
    `rankOf …`      = rank / dense_rank / percent_rank / cume_dist from the peer-group ranges
                      (`evaluate_all_with_rank`), row_number, ntile, lag / lead, first / last / nth_value
  Core Lean only.
-/
import DfModel.Base.Order
import DfModel.Mech.AggAcc
namespace DfModel.Mech.WindowFrame
open DfModel.RowOrd DfModel.Mech.AggAcc

inductive Bound where
  | unbPrec | prec (n : Nat) | cur | foll (n : Nat) | unbFoll
  deriving DecidableEq, Repr

inductive Kind where
  | rows | range | groups
  deriving DecidableEq, Repr

/-! ### ROWS -/

/-- `calculate_range_rows`, start; `none` = "Frame start cannot be UNBOUNDED FOLLOWING" -/
def rowsStart (b : Bound) (len i : Nat) : Option Nat :=
  match b with
  | .unbPrec => some 0
  | .prec n => some (i - n)                 -- saturating_sub
  | .cur => some i
  | .foll n => some (Nat.min (i + n) len)
  | .unbFoll => none

/-- `calculate_range_rows`, end (exclusive) -/
def rowsEnd (b : Bound) (len i : Nat) : Option Nat :=
  match b with
  | .unbPrec => none
  | .prec n => some (if i ≥ n then i - n + 1 else 0)
  | .cur => some (i + 1)
  | .foll n => some (Nat.min (i + n + 1) len)
  | .unbFoll => some len

/-- declarative lower / upper conditions of a ROWS frame -/
def rowsLowerOk (b : Bound) (i j : Nat) : Prop :=
  match b with
  | .unbPrec => True
  | .prec n => i ≤ j + n
  | .cur => i ≤ j
  | .foll n => i + n ≤ j
  | .unbFoll => False
def rowsUpperOk (b : Bound) (i j : Nat) : Prop :=
  match b with
  | .unbPrec => False
  | .prec n => j + n ≤ i
  | .cur => j ≤ i
  | .foll n => j ≤ i + n
  | .unbFoll => True

instance (b : Bound) (i j : Nat) : Decidable (rowsLowerOk b i j) := by
  cases b <;> simp only [rowsLowerOk] <;> infer_instance
instance (b : Bound) (i j : Nat) : Decidable (rowsUpperOk b i j) := by
  cases b <;> simp only [rowsUpperOk] <;> infer_instance

/-! ### RANGE -/

/-- `search_in_slice(.., low = s, high = len)`: advance while the predicate holds -/
def searchFrom {α : Type} (p : α → Bool) (xs : List α) (s : Nat) : Nat :=
  s + ((xs.drop s).takeWhile p).length

def i64Min : Int := -9223372036854775808
def i64Max : Int := 9223372036854775807
def checked (x : Int) : Option Int := if i64Min ≤ x ∧ x ≤ i64Max then some x else none

/-- target value of a bound for the current key; `none` = overflow.  `searchSide = true` for PRECEDING.
    `SEARCH_SIDE == is_descending → add_checked else sub_checked`; NULL stays NULL; CURRENT ROW has no delta -/
def target (o : SortOpt) (key : NVal) (searchSide : Bool) (delta : Option Nat) : Option NVal :=
  match delta, key with
  | none, k => some k
  | some _, none => some none
  | some d, some v => (checked (if searchSide == o.desc then v + d else v - d)).map some

/-- `calculate_index_of_row::<SIDE, SEARCH_SIDE>`; `searchStart` = `last_range.start` (SIDE) or `.end` -/
def rangeBound (o : SortOpt) (keys : List NVal) (side searchSide : Bool) (delta : Option Nat)
    (searchStart : Nat) (i : Nat) : Nat :=
  match target o (keys.getD i none) searchSide delta with
  | none => if searchSide then searchStart else keys.length
  | some t =>
    searchFrom (fun k => if side then cmpVal o k t == .lt else cmpVal o k t != .gt) keys searchStart

/-- RANGE frame of row `i`, given the previous row's frame -/
def rangeRange (o : SortOpt) (keys : List NVal) (s e : Bound) (last : Nat × Nat) (i : Nat) : Option (Nat × Nat) :=
  let lo := match s with
    | .unbPrec => some 0
    | .prec n => some (rangeBound o keys true true (some n) last.1 i)
    | .cur => some (rangeBound o keys true true none last.1 i)
    | .foll n => some (rangeBound o keys true false (some n) last.1 i)
    | .unbFoll => none
  let hi := match e with
    | .unbPrec => none
    | .prec n => some (rangeBound o keys false true (some n) last.2 i)
    | .cur => some (rangeBound o keys false false none last.2 i)
    | .foll n => some (rangeBound o keys false false (some n) last.2 i)
    | .unbFoll => some keys.length
  match lo, hi with
  | some l, some h => some (l, h)
  | _, _ => none

/-- declarative targets: a value of the key domain, or an offset that left the i64 range: "before all
    non-NULL keys" / "after all non-NULL keys" (leading NULLS-FIRST rows stay before, trailing NULLS-LAST
    rows stay after — exactly where a huge but representable offset would put the boundary) -/
inductive Tgt where
  | val (k : NVal) | startInf | endInf
  deriving DecidableEq, Repr

def cmpT (o : SortOpt) (k : NVal) : Tgt → Ordering
  | .val t => cmpVal o k t
  | .startInf => match k with | none => if o.nullsFirst then .lt else .gt | some _ => .gt
  | .endInf => match k with | none => if o.nullsFirst then .lt else .gt | some _ => .lt

def specTarget (o : SortOpt) (key : NVal) (searchSide : Bool) (delta : Option Nat) : Tgt :=
  match target o key searchSide delta with
  | some t => .val t
  | none => if searchSide then .startInf else .endInf

/-- declarative RANGE membership: not before the lower target, not after the upper target -/
def rangeLowerOk (o : SortOpt) (s : Bound) (ki kj : NVal) : Bool :=
  match s with
  | .unbPrec => true
  | .prec n => cmpT o kj (specTarget o ki true (some n)) != .lt
  | .cur => cmpVal o kj ki != .lt
  | .foll n => cmpT o kj (specTarget o ki false (some n)) != .lt
  | .unbFoll => false
def rangeUpperOk (o : SortOpt) (e : Bound) (ki kj : NVal) : Bool :=
  match e with
  | .unbPrec => false
  | .prec n => cmpT o kj (specTarget o ki true (some n)) != .gt
  | .cur => cmpVal o kj ki != .gt
  | .foll n => cmpT o kj (specTarget o ki false (some n)) != .gt
  | .unbFoll => true

/-- the frames of all rows of a partition as the operator computes them: row by row, each search starting
    from the previous row's frame (`last_range`, initially `0..0`) -/
def rangeFrames (o : SortOpt) (keys : List NVal) (s e : Bound) : List (Nat × Nat) :=
  ((List.range keys.length).foldl (fun (acc : List (Nat × Nat) × (Nat × Nat)) i =>
      match rangeRange o keys s e acc.2 i with
      | some fr => (acc.1 ++ [fr], fr)
      | none => (acc.1 ++ [(0, 0)], acc.2)) ([], (0, 0))).1

/-! ### GROUPS (declarative only) -/

/-- peer-group index of every row (rows with equal ORDER BY key are peers) -/
def groupIds : List NVal → List Nat
  | [] => []
  | k :: ks =>
    0 :: (match ks with
          | [] => []
          | k' :: _ => (groupIds ks).map (fun g => if k == k' then g else g + 1))

/-! ### the declarative frame as a list of indices -/

def inFrame (kind : Kind) (o : SortOpt) (s e : Bound) (keys : List NVal) (i j : Nat) : Bool :=
  match kind with
  | .rows => decide (rowsLowerOk s i j) && decide (rowsUpperOk e i j)
  | .range => rangeLowerOk o s (keys.getD i none) (keys.getD j none) && rangeUpperOk o e (keys.getD i none) (keys.getD j none)
  | .groups =>
    let g := groupIds keys
    decide (rowsLowerOk s (g.getD i 0) (g.getD j 0)) && decide (rowsUpperOk e (g.getD i 0) (g.getD j 0))

/-- a valid frame: start is not UNBOUNDED FOLLOWING, end is not UNBOUNDED PRECEDING -/
def validFrame (s e : Bound) : Bool := s != .unbFoll && e != .unbPrec

def frameIdx (kind : Kind) (o : SortOpt) (s e : Bound) (keys : List NVal) (i : Nat) : List Nat :=
  (List.range keys.length).filter (fun j => inFrame kind o s e keys i j)

/-! ### sliding aggregation -/

/-- rows `[lo, hi)` -/
def slice {α : Type} (xs : List α) (lo hi : Nat) : List α := (xs.drop lo).take (hi - lo)

/-- `get_aggregate_result_inside_range`: state and frame after moving from `last` to `cur` -/
def slideStep {σ ρ : Type} (a : Acc σ ρ) (retract : σ → NV → σ) (vals : List NV)
    (st : σ) (last cur : Nat × Nat) : σ :=
  if cur.1 = cur.2 then
    (slice vals last.1 last.2).foldl retract st
  else
    let st1 := a.update st (slice vals last.2 cur.2)
    (slice vals last.1 cur.1).foldl retract st1

/-! ### ranking and navigation functions -/

/-- `[start, end)` of the peer group of every row -/
def peerStart (keys : List NVal) (i : Nat) : Nat :=
  ((List.range keys.length).find? (fun j => keys.getD j none == keys.getD i none)).getD i
def peerEnd (keys : List NVal) (i : Nat) : Nat :=
  ((List.range keys.length).filter (fun j => keys.getD j none == keys.getD i none)).getLast?.map (· + 1) |>.getD (i + 1)

def rowNumber (i : Nat) : Nat := i + 1
/-- rank = 1 + rows before the peer group -/
def rank (keys : List NVal) (i : Nat) : Nat := peerStart keys i + 1
def denseRank (keys : List NVal) (i : Nat) : Nat := (groupIds keys).getD i 0 + 1
/-- `(rank - 1) / (n - 1)` as a fraction (0 when n = 1) -/
def percentRank (keys : List NVal) (i : Nat) : Nat × Nat :=
  if keys.length ≤ 1 then (0, 1) else (rank keys i - 1, keys.length - 1)
/-- rows up to and including the peer group / n -/
def cumeDist (keys : List NVal) (i : Nat) : Nat × Nat := (peerEnd keys i, keys.length)

/-- `ntile(n)` (`NtileEvaluator::evaluate_all`): the first `len % n` buckets hold `len / n + 1` rows, the
    others `len / n` (`n ≥ 1` is enforced when the function is planned) -/
def ntile (n len i : Nat) : Nat :=
  let base := len / n
  let rem := len % n
  let large := base + 1
  let largeRows := rem * large
  if i < largeRows then i / large + 1 else rem + (i - largeRows) / base + 1

def lag (vals : List NV) (off : Nat) (dflt : NV) (i : Nat) : NV :=
  if off ≤ i then vals.getD (i - off) none else dflt
def lead (vals : List NV) (off : Nat) (dflt : NV) (i : Nat) : NV :=
  if i + off < vals.length then vals.getD (i + off) none else dflt

end DfModel.Mech.WindowFrame
