/-
  C05 — reference semantics of the ten `JoinType`s (datafusion/common/src/join_type.rs) as a
  nested-loop evaluation over bags (lists) of rows of nullable integers.  Core Lean only.

  A pair of rows *matches* when the equality keys are equal under the NULL-equality flag
  (`NullEquality::NullEqualsNull` ⇒ NULL = NULL, `NullEqualsNothing` ⇒ a NULL key matches nothing)
  AND the residual filter evaluates to TRUE (a NULL filter result counts as "not true").
  The spec below is parametric in the match predicate `m : Row → Row → Bool`; `Cfg.matches` is the
  instance used by every operator model.
-/
namespace DfModel.Mech.Join

abbrev Val := Option Int
abbrev Row := List Val

inductive JoinType where
  | inner | left | right | full | leftSemi | rightSemi | leftAnti | rightAnti | leftMark | rightMark
  deriving DecidableEq, Repr, Inhabited

def JoinType.all : List JoinType :=
  [.inner, .left, .right, .full, .leftSemi, .rightSemi, .leftAnti, .rightAnti, .leftMark, .rightMark]

/-- `n` NULL cells (the padding of the non-preserved side of an outer join). -/
def nulls (n : Nat) : Row := List.replicate n none

/-- the mark column of a mark join: a non-NULL boolean, printed 1 / 0. -/
def markVal (b : Bool) : Val := some (if b then 1 else 0)

/-- key equality of one column under the NULL-equality flag. -/
def valEq (nullEq : Bool) : Val → Val → Bool
  | some x, some y => x == y
  | none, none => nullEq
  | _, _ => false

/-- key equality over all key columns (different arities never match). -/
def keysEq (nullEq : Bool) : List Val → List Val → Bool
  | [], [] => true
  | a :: as, b :: bs => valEq nullEq a b && keysEq nullEq as bs
  | _, _ => false

/-! ### the nested-loop definition -/

/-- right rows matching `l`, in input order -/
def matchesOfLeft (m : Row → Row → Bool) (R : List Row) (l : Row) : List Row := R.filter (m l)

def innerPart (m : Row → Row → Bool) (L R : List Row) : List Row :=
  L.flatMap fun l => (R.filter (m l)).map (l ++ ·)

def leftPart (m : Row → Row → Bool) (wr : Nat) (L R : List Row) : List Row :=
  L.flatMap fun l =>
    match R.filter (m l) with
    | [] => [l ++ nulls wr]
    | ms => ms.map (l ++ ·)

/-- right rows without any matching left row, NULL-padded on the left -/
def unmatchedRight (m : Row → Row → Bool) (wl : Nat) (L R : List Row) : List Row :=
  (R.filter fun r => !L.any (m · r)).map (nulls wl ++ ·)

/-- **The spec.** `wl`/`wr` are the widths of the two inputs (needed only for NULL padding). -/
def join (jt : JoinType) (m : Row → Row → Bool) (wl wr : Nat) (L R : List Row) : List Row :=
  match jt with
  | .inner => innerPart m L R
  | .left => leftPart m wr L R
  | .right => innerPart m L R ++ unmatchedRight m wl L R
  | .full => leftPart m wr L R ++ unmatchedRight m wl L R
  | .leftSemi => L.filter fun l => R.any (m l)
  | .leftAnti => L.filter fun l => !R.any (m l)
  | .rightSemi => R.filter fun r => L.any (m · r)
  | .rightAnti => R.filter fun r => !L.any (m · r)
  | .leftMark => L.map fun l => l ++ [markVal (R.any (m l))]
  | .rightMark => R.map fun r => r ++ [markVal (L.any (m · r))]

/-! ### `JoinType` decision tables (datafusion/common/src/join_type.rs, physical-plan/src/joins/utils.rs) -/

def JoinType.swap : JoinType → JoinType
  | .inner => .inner | .full => .full | .left => .right | .right => .left
  | .leftSemi => .rightSemi | .rightSemi => .leftSemi
  | .leftAnti => .rightAnti | .rightAnti => .leftAnti
  | .leftMark => .rightMark | .rightMark => .leftMark

/-- `JoinType::on_lr_is_preserved` -/
def JoinType.onLrIsPreserved : JoinType → Bool × Bool
  | .inner => (true, true)
  | .left => (false, true)
  | .right => (true, false)
  | .full => (false, false)
  | .leftSemi | .rightSemi => (true, true)
  | .leftAnti => (false, true)
  | .rightAnti => (true, false)
  | .leftMark => (false, true)
  | .rightMark => (true, false)

/-- `JoinType::empty_build_side_produces_empty_result` -/
def JoinType.emptyBuildEmpty : JoinType → Bool
  | .inner | .left | .leftSemi | .leftAnti | .leftMark | .rightSemi => true
  | _ => false

/-- `JoinType::empty_map_produces_empty_result` -/
def JoinType.emptyMapEmpty : JoinType → Bool
  | .inner | .leftSemi | .rightSemi => true
  | _ => false

/-- `need_produce_result_in_final` (joins/utils.rs): the build (left) side is emitted from the
    visited bitmap after the probe side is exhausted. -/
def JoinType.needFinal : JoinType → Bool
  | .left | .leftAnti | .leftSemi | .leftMark | .full => true
  | _ => false

/-- `need_produce_right_in_final` (nested loop join) -/
def JoinType.needRightFinal : JoinType → Bool
  | .full | .right | .rightAnti | .rightMark | .rightSemi => true
  | _ => false

/-! ### configuration shared by the operator models -/

structure Cfg where
  jt : JoinType
  nullEq : Bool
  /-- key extractors (`on` expressions evaluated on a build / probe row) -/
  kl : Row → List Val
  kr : Row → List Val
  /-- residual filter: `true` iff the filter expression evaluates to TRUE on the pair -/
  flt : Row → Row → Bool
  wl : Nat
  wr : Nat

def Cfg.matches (c : Cfg) (l r : Row) : Bool := keysEq c.nullEq (c.kl l) (c.kr r) && c.flt l r

abbrev Cfg.spec (c : Cfg) (L R : List Row) : List Row := join c.jt c.matches c.wl c.wr L R

end DfModel.Mech.Join
