/-
  L3 — models of the physical expression evaluation *strategies* (column-at-a-time), to be
  compared with the row-by-row semantics `eval` of L1.  Core Lean only.

  * IN list with a constant list: `StaticFilter` = (set of non-NULL list values, "list has a NULL"
    flag) + the truth table `build_result_from_contains` (in_list/result.rs); the set membership
    test is a branch-free OR-reduction (`BranchlessFilter`), a bitmap indexed by the value's bit
    pattern (`BitmapFilter`, 8/16-bit types), or a hash set (`PrimitiveHashSetFilter`,
    `ArrayStaticFilter`; modelled as a finite set).
  * searched CASE as sequential masks (`case_when_no_expr` in expressions/case.rs): per branch,
    WHEN is evaluated on the rows not decided yet, THEN only on the rows it selected (and not at
    all when it selected none), the rest goes on; ELSE gets what remains.
  * `PhysicalExpr::evaluate_selection`: filter, evaluate, scatter with NULLs.
  * LIKE: declarative pattern semantics `Matches` for the matcher `likeMatch` of L1.
-/
import DfModel.Sql.Expr
namespace DfModel.Strat
open DfModel

/-! ## IN list: static filters -/

/-- `build_result_from_contains`: the eight-row table (needle NULL?, list has NULL?, negated?, found?) -/
def buildInResult (needleNull hayHasNull negated contains : Bool) : Tri :=
  if needleNull then .u
  else match hayHasNull, negated with
    | true, false => if contains then .t else .u
    | true, true => if contains then .f else .u
    | false, false => Tri.ofBool contains
    | false, true => Tri.ofBool (!contains)

inductive Strategy where
  | branchless            -- OR-reduction over the (short) list, no early exit
  | bitmap (w : Nat)      -- one bit per possible value of a `w`-bit type
  | hashSet               -- finite set
  deriving Repr, DecidableEq

def nonNull (hay : List (Option Int)) : List Int := hay.filterMap id
def hasNull (hay : List (Option Int)) : Bool := hay.any Option.isNone

/-- `T::index(v)`: the value's bit pattern as an unsigned number -/
def bitIndex (w : Nat) (v : Int) : Nat := (v % (2 ^ w : Int)).toNat

def bitmapOf (w : Nat) (vs : List Int) : Nat := vs.foldl (fun b v => b ||| (1 <<< bitIndex w v)) 0

def containsBy (s : Strategy) (vs : List Int) (x : Int) : Bool :=
  match s with
  | .branchless => vs.foldl (fun acc v => acc || v == x) false
  | .bitmap w => (bitmapOf w vs).testBit (bitIndex w x)
  | .hashSet => vs.contains x

/-- a static filter applied to one needle -/
def staticIn (s : Strategy) (hay : List (Option Int)) (negated : Bool) (x : Option Int) : Tri :=
  match x with
  | none => buildInResult true (hasNull hay) negated false
  | some n => buildInResult false (hasNull hay) negated (containsBy s (nonNull hay) n)

def optVal (w : Nat) : Option Int → Val
  | none => .null
  | some n => .int w true n

/-! ## evaluate_selection -/

def filterByMask {α : Type} : List α → List Bool → List α
  | r :: rs, true :: ms => r :: filterByMask rs ms
  | _ :: rs, false :: ms => filterByMask rs ms
  | _, _ => []

/-- arrow `scatter`: the next value where the mask is set, NULL elsewhere -/
def scatter : List Bool → List Val → List Val
  | [], _ => []
  | true :: ms, v :: vs => v :: scatter ms vs
  | true :: ms, [] => .null :: scatter ms []
  | false :: ms, vs => .null :: scatter ms vs

/-- `PhysicalExpr::evaluate_selection` (array results): all-true shortcut, all-false shortcut (the
    expression is not evaluated at all), otherwise filter → evaluate → scatter -/
def evaluateSelection (e : Expr) (env : Env) (rows : List Row) (mask : List Bool) : Except RtErr (List Val) :=
  if mask.all id then rows.mapM (fun r => eval e r env)
  else if !(mask.any id) then .ok (scatter mask [])
  else do
    let vs ← (filterByMask rows mask).mapM (fun r => eval e r env)
    pure (scatter mask vs)

/-- row-by-row reading: evaluate on the selected rows only, NULL elsewhere -/
def selectionSpec (e : Expr) (env : Env) : List Row → List Bool → Except RtErr (List Val)
  | r :: rs, true :: ms => do
    let v ← eval e r env
    let vs ← selectionSpec e env rs ms
    pure (v :: vs)
  | _ :: rs, false :: ms => do
    let vs ← selectionSpec e env rs ms
    pure (.null :: vs)
  | _, _ => .ok []

/-! ## searched CASE as sequential masks -/

/-- per-row state while the branches are processed: `none` = not decided yet -/
abbrev CaseSt := List (Row × Option Val)

/-- phase 1 of a branch: WHEN on the rows not decided yet -/
def whenPhase (w : Expr) (env : Env) : CaseSt → Except RtErr (List (Option Tri))
  | [] => .ok []
  | (_, some _) :: st => do
    let cs ← whenPhase w env st
    pure (none :: cs)
  | (r, none) :: st => do
    let c ← evalTri w r env
    let cs ← whenPhase w env st
    pure (some c :: cs)

/-- phase 2 of a branch: THEN on the rows whose WHEN value is TRUE -/
def thenPhase (t : Expr) (env : Env) : CaseSt → List (Option Tri) → Except RtErr CaseSt
  | (r, d) :: st, c :: cs => do
    let d' ← if c == some .t then do pure (some (← eval t r env)) else pure d
    let st' ← thenPhase t env st cs
    pure ((r, d') :: st')
  | _, _ => .ok []

/-- one WHEN/THEN branch over the batch; when no row is selected the THEN expression is not
    evaluated at all (`if !when_value.has_true() { continue }`) -/
def branchStep (w t : Expr) (env : Env) (st : CaseSt) : Except RtErr CaseSt := do
  let cs ← whenPhase w env st
  if !(cs.any (· == some .t)) then pure st else thenPhase t env st cs

/-- ELSE on what remains (NULL without ELSE) -/
def elsePhase (els : Option Expr) (env : Env) : CaseSt → Except RtErr (List Val)
  | [] => .ok []
  | (_, some v) :: st => do
    let vs ← elsePhase els env st
    pure (v :: vs)
  | (r, none) :: st => do
    let v ← match els with
      | none => pure Val.null
      | some e => eval e r env
    let vs ← elsePhase els env st
    pure (v :: vs)

def caseGo (whens : List (Expr × Expr)) (els : Option Expr) (env : Env) (st : CaseSt) : Except RtErr (List Val) :=
  match whens with
  | [] => elsePhase els env st
  | (w, t) :: rest => do
    let st' ← branchStep w t env st
    caseGo rest els env st'

/-- `CaseExpr::case_when_no_expr` on a batch -/
def caseBatch (whens : List (Expr × Expr)) (els : Option Expr) (env : Env) (rows : List Row) : Except RtErr (List Val) :=
  caseGo whens els env (rows.map (fun r => (r, none)))

/-! ## AND / OR with pre-selection (`check_short_circuit` → `PreSelection` in expressions/binary.rs)

  The left operand is a NULL-free boolean column. For AND the rows where it is TRUE (for OR: FALSE)
  are the only ones whose result depends on the right operand; when they are at most 20 % of the
  batch the right operand is evaluated on those rows only (`filter_record_batch`), and
  * if its values there are NULL-free and uniform the result collapses
    (`uniform_pre_selection_result`: all `fill_value`, or the left column itself),
  * otherwise they are scattered back, the other rows being `fill_value` (FALSE for AND, TRUE for OR).
  A row is `(left value, right value)`. -/

def selMask (isAnd l : Bool) : Bool := if isAnd then l else !l
def fillTri (isAnd : Bool) : Tri := if isAnd then .f else .t

/-- the right operand's values on the selected rows (what `self.right.evaluate(&selection_batch)` sees) -/
def selectedRhs (isAnd : Bool) : List (Bool × Tri) → List Tri
  | [] => []
  | (l, r) :: rows => if selMask isAnd l then r :: selectedRhs isAnd rows else selectedRhs isAnd rows

/-- `pre_selection_scatter` -/
def scatterSel (isAnd : Bool) : List Bool → List Tri → List Tri
  | [], _ => []
  | l :: ls, sel =>
    if selMask isAnd l then
      match sel with
      | r :: rs => r :: scatterSel isAnd ls rs
      | [] => .u :: scatterSel isAnd ls []
    else fillTri isAnd :: scatterSel isAnd ls sel

/-- the `PreSelection` arm of `BinaryExpr::evaluate` -/
def preSelect (isAnd : Bool) (lhs : List Bool) (sel : List Tri) : List Tri :=
  if sel.all (· != .u) then
    if sel.all (· == .t) then            -- `!has_false()` : rhs_value = true
      (if isAnd then lhs.map Tri.ofBool else lhs.map (fun _ => Tri.t))
    else if sel.all (· == .f) then       -- `!has_true()`  : rhs_value = false
      (if isAnd then lhs.map (fun _ => Tri.f) else lhs.map Tri.ofBool)
    else scatterSel isAnd lhs sel
  else scatterSel isAnd lhs sel

/-- the Kleene table, row by row -/
def kleene (isAnd : Bool) (l : Bool) (r : Tri) : Tri :=
  if isAnd then Tri.and (Tri.ofBool l) r else Tri.or (Tri.ofBool l) r

/-! ## LIKE: declarative semantics -/

/-- `Matches p s`: the pattern tokens can be laid over the string: `%` covers any (possibly empty)
    run of characters, `_` exactly one, a literal character itself -/
inductive Matches : List PatTok → List Char → Prop where
  | nil : Matches [] []
  | anyEmpty {ps s} : Matches ps s → Matches (.any :: ps) s
  | anyMore {ps c s} : Matches (.any :: ps) s → Matches (.any :: ps) (c :: s)
  | one {ps c s} : Matches ps s → Matches (.one :: ps) (c :: s)
  | ch {ps c s} : Matches ps s → Matches (.ch c :: ps) (c :: s)

end DfModel.Strat
