/-
  C50 — queries over unbounded inputs.

  Part A: prefix semantics `out : Op → List Row → List Row` — what a query has to have delivered
  after its (never-ending, key-ordered) source has produced a finite prefix.
  Part B: the `Boundedness × EmissionType` algebra of
  `datafusion/physical-plan/src/execution_plan.rs` (`boundedness_from_children`,
  `emission_type_from_children`), the per-operator declarations (filter.rs, projection.rs,
  limit.rs, sorts/sort.rs, aggregates/mod.rs, windows/*, union.rs, joins/cross_join.rs,
  streaming.rs) and the acceptance test `check_finiteness_requirements` of
  `datafusion/physical-optimizer/src/sanity_checker.rs`.
  Core Lean only.
-/
namespace DfModel.Mech.Streaming

/-! ## Part A — prefix semantics -/

structure Row where
  k : Int          -- the ordering key (non-decreasing in the source)
  v : Int
  deriving Repr, DecidableEq

inductive Op where
  | source
  | filter (lo : Int) (inp : Op)      -- WHERE v >= lo
  | project (add : Int) (inp : Op)    -- SELECT k, v + add
  | limit (n : Nat) (inp : Op)        -- LIMIT n
  | agg (inp : Op)                    -- SELECT k, sum(v) … GROUP BY k   (streaming: input ordered by k)
  | union (a b : Op)                  -- UNION ALL
  deriving Repr, DecidableEq

/-- ordered (streaming) aggregation: `g` is the group still open; a group is emitted when the key
    advances.  Returns the groups closed while consuming the rows. -/
def aggGo : Option Row → List Row → List Row
  | _, [] => []
  | none, r :: rs => aggGo (some r) rs
  | some g, r :: rs =>
    if r.k = g.k then aggGo (some ⟨g.k, g.v + r.v⟩) rs else g :: aggGo (some r) rs

/-- the group left open after consuming the rows -/
def aggOpen : Option Row → List Row → Option Row
  | g, [] => g
  | none, r :: rs => aggOpen (some r) rs
  | some g, r :: rs =>
    if r.k = g.k then aggOpen (some ⟨g.k, g.v + r.v⟩) rs else aggOpen (some r) rs

def out : Op → List Row → List Row
  | .source, xs => xs
  | .filter lo i, xs => (out i xs).filter (fun r => decide (lo ≤ r.v))
  | .project a i, xs => (out i xs).map (fun r => ⟨r.k, r.v + a⟩)
  | .limit n i, xs => (out i xs).take n
  | .agg i, xs => aggGo none (out i xs)
  | .union a b, xs => out a xs ++ out b xs

/-- no UNION: the output order is determined -/
def linear : Op → Bool
  | .source => true
  | .filter _ i => linear i
  | .project _ i => linear i
  | .limit _ i => linear i
  | .agg i => linear i
  | .union _ _ => false

def hasLimit : Op → Bool
  | .source => false
  | .filter _ i => hasLimit i
  | .project _ i => hasLimit i
  | .limit _ _ => true
  | .agg i => hasLimit i
  | .union a b => hasLimit a || hasLimit b

/-- shapes with a determined meaning: LIMIT and the streaming aggregation sit only above
    UNION-free inputs (the order in which a UNION ALL interleaves its inputs is not determined, so
    "the first n rows" / "consecutive equal keys" of a union are not), and an aggregation never
    sits above a LIMIT (there the real operator additionally flushes its last group when the
    limited input ENDS). -/
def covered : Op → Bool
  | .source => true
  | .filter _ i => covered i
  | .project _ i => covered i
  | .limit _ i => covered i && linear i
  | .agg i => covered i && linear i && !hasLimit i
  | .union a b => covered a && covered b

/-- `FilterExec` AS CODED (`FilterExecStream::poll_next`, filter.rs): filtered rows go through a
    `LimitedBatchCoalescer`; only COMPLETED batches of `bs = batch_size` rows leave the operator,
    and nothing is flushed when the input merely has nothing new (`Pending`).  So after the input
    prefix `xs` — arriving ONE ROW PER BATCH, which is how the correspondence feeds it; arrow's
    coalescer lets input batches of more than `bs / 2` rows through unmerged — the operator has
    handed on the largest multiple of `bs` of the passing rows. -/
def filterDelivered (bs : Nat) (lo : Int) (xs : List Row) : List Row :=
  let o := out (.filter lo .source) xs
  o.take (bs * (o.length / bs))

/-! ## Part B — boundedness / emission algebra -/

inductive Bnd where
  | bounded
  | unbounded (infMem : Bool)
  deriving Repr, DecidableEq

inductive Emi where
  | incremental | final | both
  deriving Repr, DecidableEq

def Bnd.isUnbounded : Bnd → Bool
  | .bounded => false
  | .unbounded _ => true

/-- `boundedness_from_children` (early return on `requires_infinite_memory: true`) -/
def bndGo (seenFinite : Bool) : List Bnd → Bnd
  | [] => if seenFinite then .unbounded false else .bounded
  | .unbounded true :: _ => .unbounded true
  | .unbounded false :: bs => bndGo true bs
  | .bounded :: bs => bndGo seenFinite bs
def bndFromChildren (bs : List Bnd) : Bnd := bndGo false bs

/-- `emission_type_from_children` (early return on `Final`) -/
def emiGo (seenBoth : Bool) : List Emi → Emi
  | [] => if seenBoth then .both else .incremental
  | .final :: _ => .final
  | .both :: es => emiGo true es
  | .incremental :: es => emiGo seenBoth es
def emiFromChildren (es : List Emi) : Emi := emiGo false es

/-- `check_finiteness_requirements` (the part that does not concern symmetric hash joins) -/
def nodeAccepted (b : Bnd) (e : Emi) : Bool :=
  !(b == .unbounded true || (b.isUnbounded && e == .final))

inductive Plan where
  | stream (infinite : Bool)                       -- StreamingTableExec
  | mem                                            -- bounded source
  | pass (inp : Plan)                              -- filter / projection / coalesce / repartition / SPM / bounded window
  | limit (inp : Plan)                             -- Global/LocalLimitExec
  | sort (satisfied : Bool) (fetch : Bool) (inp : Plan)   -- SortExec
  | agg (linearMode : Bool) (inp : Plan)           -- AggregateExec (InputOrderMode::Linear or not)
  | windowAgg (inp : Plan)                         -- WindowAggExec (unbounded frames)
  | union (inputs : List Plan)
  | cross (l r : Plan)                             -- CrossJoinExec
  deriving Repr

mutual
/-- declared `(boundedness, pipeline_behavior)` -/
def props : Plan → Bnd × Emi
  | .stream inf => (if inf then .unbounded false else .bounded, .incremental)
  | .mem => (.bounded, .incremental)
  | .pass i => props i
  | .limit i => (.bounded, (props i).2)
  | .sort sat fetch i =>
    let p := props i
    let e := if sat then p.2 else Emi.final
    let b := if sat then p.1 else (match p.1 with | .unbounded _ => Bnd.unbounded true | b => b)
    -- `with_fetch`: a pipeline-friendly sort with a fetch is bounded
    (if fetch && (e == .incremental || e == .both) then .bounded else b, e)
  | .agg lin i => (if lin then Emi.final else (props i).2) |> fun e => ((props i).1, e)
  | .windowAgg i => ((props i).1, .final)
  | .union is => (bndFromChildren (propsL is |>.map (·.1)), emiFromChildren (propsL is |>.map (·.2)))
  | .cross l r => (bndFromChildren [(props l).1, (props r).1], .final)
def propsL : List Plan → List (Bnd × Emi)
  | [] => []
  | p :: ps => props p :: propsL ps
end

mutual
/-- `SanityCheckPlan`: every node passes `check_finiteness_requirements` -/
def accepted : Plan → Bool
  | .stream inf => nodeAccepted (props (.stream inf)).1 (props (.stream inf)).2
  | .mem => true
  | .pass i => accepted i && nodeAccepted (props (.pass i)).1 (props (.pass i)).2
  | .limit i => accepted i && nodeAccepted (props (.limit i)).1 (props (.limit i)).2
  | .sort s f i => accepted i && nodeAccepted (props (.sort s f i)).1 (props (.sort s f i)).2
  | .agg l i => accepted i && nodeAccepted (props (.agg l i)).1 (props (.agg l i)).2
  | .windowAgg i => accepted i && nodeAccepted (props (.windowAgg i)).1 (props (.windowAgg i)).2
  | .union is => acceptedL is && nodeAccepted (props (.union is)).1 (props (.union is)).2
  | .cross l r => accepted l && accepted r && nodeAccepted (props (.cross l r)).1 (props (.cross l r)).2
def acceptedL : List Plan → Bool
  | [] => true
  | p :: ps => accepted p && acceptedL ps
end

mutual
/-- some operator can only answer when an UNBOUNDED input has ended: an unsatisfied sort, a
    hash (Linear-mode) aggregation, an unbounded-frame window or a cross join directly over an
    unbounded input -/
def needsEnd : Plan → Bool
  | .stream _ => false
  | .mem => false
  | .pass i => needsEnd i
  | .limit i => needsEnd i
  | .sort sat _ i => needsEnd i || (!sat && (props i).1.isUnbounded)
  | .agg lin i => needsEnd i || (lin && (props i).1.isUnbounded)
  | .windowAgg i => needsEnd i || (props i).1.isUnbounded
  | .union is => needsEndL is
  | .cross l r => needsEnd l || needsEnd r || (props l).1.isUnbounded || (props r).1.isUnbounded
def needsEndL : List Plan → Bool
  | [] => false
  | p :: ps => needsEnd p || needsEndL ps
end

end DfModel.Mech.Streaming
