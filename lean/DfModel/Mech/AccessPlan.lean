/-
  C24 — `RowSelection` algebra (parquet crate, as used by `datasource-parquet`) and the
  `ParquetAccessPlan` built from pruning verdicts.

  A selection is a list of runs `(n, skip)`; its meaning is the mask `List Bool` (`true` = row is read).
  Functions mirror `parquet::arrow::arrow_reader::selection` (`FromIterator<RowSelector>`,
  `intersect_row_selections`, `and_then_iter`, `split_off_selectors`, `offset_selectors`,
  `limit_selectors`) and `datasource-parquet/src/access_plan.rs` (`RowGroupAccess`, `scan_selection`,
  `into_overall_row_selection`).  Panics of the crate are modelled as `none`.  Core Lean only.
-/
namespace DfModel.Mech.AccessPlan

structure Run where
  n : Nat
  skip : Bool
  deriving DecidableEq, Repr

abbrev Sel := List Run

def select (n : Nat) : Run := ⟨n, false⟩
def skipRun (n : Nat) : Run := ⟨n, true⟩

/-- the meaning of a selection -/
def mask : Sel → List Bool
  | [] => []
  | r :: rs => List.replicate r.n (!r.skip) ++ mask rs

/-- `FromIterator<RowSelector>`: drop empty runs, merge neighbours of the same kind -/
def normalize : Sel → Sel
  | [] => []
  | r :: rs =>
    if r.n = 0 then normalize rs
    else
      match normalize rs with
      | [] => [r]
      | s :: ss => if s.skip = r.skip then ⟨r.n + s.n, r.skip⟩ :: ss else r :: s :: ss

def rowCount (s : Sel) : Nat := ((s.filter (fun r => !r.skip)).map Run.n).sum
def totalRows (s : Sel) : Nat := (s.map Run.n).sum

/-- `intersect_row_selections` before the final `collect()` -/
def intersectRaw : Sel → Sel → Sel
  | [], r => r
  | l, [] => l
  | a :: l, b :: r =>
    if a.n = 0 then intersectRaw l (b :: r)
    else if b.n = 0 then intersectRaw (a :: l) r
    else if !a.skip && !b.skip then
      if a.n < b.n then a :: intersectRaw l (⟨b.n - a.n, b.skip⟩ :: r)
      else b :: intersectRaw (⟨a.n - b.n, a.skip⟩ :: l) r
    else
      if a.n < b.n then skipRun a.n :: intersectRaw l (⟨b.n - a.n, b.skip⟩ :: r)
      else skipRun b.n :: intersectRaw (⟨a.n - b.n, a.skip⟩ :: l) r
termination_by l r => l.length + r.length
decreasing_by all_goals simp_wf <;> omega

/-- `RowSelection::intersection` -/
def intersection (a b : Sel) : Sel := normalize (intersectRaw a b)

/-- pointwise AND on the common prefix; the tail of the longer mask passes through -/
def zipTail : List Bool → List Bool → List Bool
  | [], r => r
  | l, [] => l
  | x :: l, y :: r => (x && y) :: zipTail l r

/-- `and_then_iter` (+ the trailing drain).  `none` = one of the crate's panics
    ("selection exceeds / contains less than the number of selected rows"). -/
def andThenGo : Sel → Sel → Nat → Option Sel
  | first, [], toSkip =>
    if first.all (fun v => v.n = 0 || v.skip) then
      let t := toSkip + totalRows first
      some (if t = 0 then [] else [skipRun t])
    else none
  | [], _ :: _, _ => none
  | a :: first, b :: second, toSkip =>
    if b.n = 0 then andThenGo (a :: first) second toSkip
    else if a.n = 0 then andThenGo first (b :: second) toSkip
    else if a.skip then andThenGo first (b :: second) (toSkip + a.n)
    else
      let p := min a.n b.n
      if b.skip then andThenGo (⟨a.n - p, a.skip⟩ :: first) (⟨b.n - p, b.skip⟩ :: second) (toSkip + p)
      else
        match andThenGo (⟨a.n - p, a.skip⟩ :: first) (⟨b.n - p, b.skip⟩ :: second) 0 with
        | none => none
        | some rest => some ((if toSkip = 0 then [] else [skipRun toSkip]) ++ select p :: rest)
termination_by first second _ => totalRows first + first.length + totalRows second + second.length
decreasing_by
  all_goals simp_wf
  all_goals simp only [totalRows, List.map_cons, List.sum_cons] at *
  all_goals omega


/-- `RowSelection::and_then` -/
def andThen (a b : Sel) : Option Sel := (andThenGo a b 0).map normalize

/-- `other` is applied to the rows selected by `self` -/
def compose : List Bool → List Bool → Option (List Bool)
  | [], [] => some []
  | [], _ :: _ => none
  | false :: l, r => (compose l r).map (false :: ·)
  | true :: _, [] => none
  | true :: l, y :: r => (compose l r).map (y :: ·)

/-- `split_off_selectors(selectors, n)` = (head, tail) -/
def splitOff : Sel → Nat → Sel × Sel
  | [], _ => ([], [])
  | r :: rs, n =>
    if r.n ≤ n then
      let (h, t) := splitOff rs (n - r.n)
      (r :: h, t)
    else
      -- the run straddles the boundary
      ((if n = 0 then [] else [⟨n, r.skip⟩]), ⟨r.n - n, r.skip⟩ :: rs)

/-- `limit_selectors` -/
def limitSel : Sel → Nat → Sel
  | _, 0 => []
  | [], _ => []
  | r :: rs, k + 1 =>
    if r.skip then r :: limitSel rs (k + 1)
    else if r.n ≥ k + 1 then [⟨k + 1, false⟩]
    else r :: limitSel rs (k + 1 - r.n)

def takeTrues : List Bool → Nat → List Bool
  | _, 0 => []
  | [], _ => []
  | false :: l, k + 1 => false :: takeTrues l (k + 1)
  | true :: l, k + 1 => true :: takeTrues l k

/-- `offset_selectors`: the scan for the first selector with more than `offset` selected rows so far -/
def offsetGo : Sel → Nat → Nat → Nat → Option Sel
  | [], _, _, _ => none
  | r :: rs, offset, selected, skipped =>
    if r.skip then offsetGo rs offset selected (skipped + r.n)
    else if selected + r.n > offset then
      some (skipRun (skipped + offset) :: select (selected + r.n - offset) :: rs)
    else offsetGo rs offset (selected + r.n) skipped

def offsetSel (s : Sel) (offset : Nat) : Sel := (offsetGo s offset 0 0).getD []

def countTrue (m : List Bool) : Nat := (m.filter id).length

def clearTrues : List Bool → Nat → List Bool
  | l, 0 => l
  | [], _ => []
  | false :: l, k + 1 => false :: clearTrues l (k + 1)
  | true :: l, k + 1 => false :: clearTrues l k

/-! ### `ParquetAccessPlan` -/

inductive Access where
  | skip
  | scan
  | selection (s : Sel)
  deriving Repr

/-- `ParquetAccessPlan::scan_selection(idx, sel)` on one row group -/
def scanSelection : Access → Sel → Access
  | .skip, _ => .skip
  | .scan, s => .selection s
  | .selection e, s => .selection (intersection e s)

/-- mask of one row group of `rows` rows under an access -/
def accessMask (rows : Nat) : Access → List Bool
  | .skip => List.replicate rows false
  | .scan => List.replicate rows true
  | .selection s => mask s

/-- `into_overall_row_selection`'s meaning: the per-row-group masks, concatenated -/
def planMask : List (Nat × Access) → List Bool
  | [] => []
  | (rows, a) :: rest => accessMask rows a ++ planMask rest

/-- rows read under a mask -/
def selectRows {α : Type} : List Bool → List α → List α
  | true :: m, x :: xs => x :: selectRows m xs
  | false :: m, _ :: xs => selectRows m xs
  | _, _ => []

/-- a verdict mask is sound for predicate `p` on `rows`: same length, every matching row is kept -/
def soundMask {α : Type} (p : α → Bool) : List Bool → List α → Bool
  | [], [] => true
  | m :: ms, x :: xs => (m || !p x) && soundMask p ms xs
  | _, _ => false

end DfModel.Mech.AccessPlan
