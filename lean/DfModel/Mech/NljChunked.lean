/-
  C05 — model of `NestedLoopJoinExec`'s memory-limited fallback
  (datafusion/physical-plan/src/joins/nested_loop_join.rs: `handle_buffering_left_memory_limited`,
  `handle_fetching_right`, `handle_probe_end`, `handle_emit_left_unmatched`,
  `handle_emit_global_right_unmatched`).  Core Lean only.

  The left side is processed in CHUNKS (as many left batches as fit the budget). For every chunk the
  whole right side is replayed: matched pairs are emitted (Inner/Left/Right/Full), the chunk's own
  fresh left bitmap is filled and — at the chunk transition `EmitLeftUnmatched` — the chunk's left-side
  emission (unmatched / semi / anti / mark rows of THIS chunk) is produced from index 0; the right-side
  bitmaps are OR-ed into global bitmaps that persist across chunks.  After the last chunk ONE global
  right-side emission (`EmitGlobalRightUnmatched`) produces the right-side rows of
  Right/Full/RightSemi/RightAnti/RightMark.
-/
import DfModel.Mech.JoinSpec
namespace DfModel.Mech.Nlj
open DfModel.Mech.Join

/-- pairs emitted while probing right row `r` against one left chunk -/
def pairs (c : Cfg) (chunk : List Row) (r : Row) : List Row :=
  match c.jt with
  | .inner | .left | .right | .full => (chunk.filter fun l => c.matches l r).map (· ++ r)
  | _ => []

/-- the left-side emission of one chunk at the chunk transition (its bitmap is complete: the chunk has
    seen every right row) -/
def chunkLeftEmit (c : Cfg) (chunk R : List Row) : List Row :=
  match c.jt with
  | .left | .full => (chunk.filter fun l => !R.any (c.matches l)).map (· ++ nulls c.wr)
  | .leftSemi => chunk.filter fun l => R.any (c.matches l)
  | .leftAnti => chunk.filter fun l => !R.any (c.matches l)
  | .leftMark => chunk.map fun l => l ++ [markVal (R.any (c.matches l))]
  | _ => []

/-- the global right bitmap after all chunks: OR over the chunks -/
def globalRightMatched (c : Cfg) (chunks : List (List Row)) (r : Row) : Bool :=
  chunks.any fun ch => ch.any (c.matches · r)

/-- the single global right-side emission for right row `r` -/
def rightEmit (c : Cfg) (matched : Bool) (r : Row) : List Row :=
  match c.jt with
  | .right | .full => if matched then [] else [nulls c.wl ++ r]
  | .rightSemi => if matched then [r] else []
  | .rightAnti => if matched then [] else [r]
  | .rightMark => [r ++ [markVal matched]]
  | _ => []

/-- the operator: per chunk (pairs ++ that chunk's left emission), then one global right emission -/
def nljChunked (c : Cfg) (chunks : List (List Row)) (R : List Row) : List Row :=
  (chunks.flatMap fun ch => R.flatMap (pairs c ch) ++ chunkLeftEmit c ch R)
    ++ R.flatMap fun r => rightEmit c (globalRightMatched c chunks r) r

/-- the PINNED UPSTREAM behaviour (repaired in /repo by `fix:` commit c1e5d66, notes/C05.md): when the
    batch that trips the limit is the last left batch the stream ended without the global right-side
    emission -/
def nljChunkedSkippingGlobalRight (c : Cfg) (chunks : List (List Row)) (R : List Row) : List Row :=
  chunks.flatMap fun ch => R.flatMap (pairs c ch) ++ chunkLeftEmit c ch R

/-- `fixed = true`: the code after c1e5d66 (what /repo contains); `false`: the pinned upstream code on
    inputs whose last left batch trips the memory limit -/
def nljMemLimited (fixed : Bool) (c : Cfg) (chunks : List (List Row)) (R : List Row) : List Row :=
  if fixed then nljChunked c chunks R else nljChunkedSkippingGlobalRight c chunks R

end DfModel.Mech.Nlj
