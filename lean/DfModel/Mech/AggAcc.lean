/-
  C07 — accumulator algebra: `(State, init, step, merge, eval, retract?)` for the aggregate
  functions whose state is modelled exactly.  Values are nullable 64-bit integers (`BitVec 64`,
  so that `sum`'s `add_wrapping` / `sub_wrapping` and the bit operations are the native ones);
  booleans travel as 0/1.

  Mirrors datafusion/functions-aggregate/src/{count,sum,min_max,average,bool_and_or,
  bit_and_or_xor,first_last}.rs:
    count        `count += len - null_count`; retract `-=`; merge = sum of partial counts
    sum          `Option<i64>`, NULL until the first non-null value, `add_wrapping` (arrow `sum` kernel wraps too)
    sumSliding   `SlidingSumAccumulator {sum, count}`: `sub_wrapping` on retract, NULL iff count = 0
    min / max    `Option<i64>` keeping the signed minimum / maximum of the non-null values
    slidingMin/Max  `MovingMin/MovingMax`: a FIFO of the non-null values; retract pops the oldest ones
    avg          `{sum: Option<f64>, count: u64}`; retract subtracts; NULL iff count = 0.  The model keeps
                 the sum as an exact integer (assumption: |partial sums| < 2^53 so the f64 sum is exact)
    bool_and/or  `Option<bool>`; bit_and/or/xor `Option<i64>`; `bit_xor` retracts by xor-ing again and
                 therefore NEVER returns to NULL (see Props/C07: `bitXor_retract_not_null`)
    first/last   `{value, is_set}` (`Trivial{First,Last}ValueAccumulator`, RESPECT NULLS, input order)
    countDistinct  a set of the non-null values (`HashSet<ScalarValue>`), state = the set, merge = union;
                 sliding variant keeps a bag and retracts by erasing
  `update` is the fold of `step` over the rows; the real `update_batch` works batch-wise through arrow
  kernels — that they agree for every split into batches is what the correspondence checks.
  Core Lean only.
-/
namespace DfModel.Mech.AggAcc

abbrev V := BitVec 64
/-- nullable cell -/
abbrev NV := Option V

structure Acc (σ : Type) (ρ : Type) where
  init : σ
  step : σ → NV → σ
  merge : σ → σ → σ
  eval : σ → ρ

def Acc.update {σ ρ : Type} (a : Acc σ ρ) (s : σ) (xs : List NV) : σ := xs.foldl a.step s

/-- signed comparison -/
def sle (a b : V) : Bool := a.toInt ≤ b.toInt
def vmin (a b : V) : V := if sle a b then a else b
def vmax (a b : V) : V := if sle a b then b else a

/-- lift a binary operation to "NULL until the first value" states -/
def liftOpt (f : V → V → V) : Option V → NV → Option V
  | s, none => s
  | none, some x => some x
  | some a, some x => some (f a x)

def mergeOpt (f : V → V → V) : Option V → Option V → Option V
  | s, none => s
  | none, some y => some y
  | some a, some y => some (f a y)

/-! ### the accumulators -/

def count : Acc Int Int where
  init := 0
  step := fun s v => if v.isSome then s + 1 else s
  merge := fun s t => s + t
  eval := id

def countRetract (s : Int) (v : NV) : Int := if v.isSome then s - 1 else s

/-- `SumAccumulator`: `sum.get_or_insert(0).add_wrapping(x)` -/
def sum : Acc (Option V) (Option V) where
  init := none
  step := liftOpt (· + ·)
  merge := mergeOpt (· + ·)
  eval := id

/-- `SlidingSumAccumulator` -/
def sumSliding : Acc (V × Nat) (Option V) where
  init := (0, 0)
  step := fun s v => match v with | none => s | some x => (s.1 + x, s.2 + 1)
  merge := fun s t => (if t.2 = 0 then s.1 else s.1 + t.1, s.2 + t.2)   -- a partial with count 0 ships sum = NULL
  eval := fun s => if s.2 = 0 then none else some s.1

def sumSlidingRetract (s : V × Nat) (v : NV) : V × Nat :=
  match v with | none => s | some x => (s.1 - x, s.2 - 1)

def min : Acc (Option V) (Option V) where
  init := none
  step := liftOpt vmin
  merge := mergeOpt vmin
  eval := id

def max : Acc (Option V) (Option V) where
  init := none
  step := liftOpt vmax
  merge := mergeOpt vmax
  eval := id

def foldOpt (f : V → V → V) : List V → Option V
  | [] => none
  | a :: l => some (l.foldl f a)

/-- `SlidingMaxAccumulator` (`MovingMax`): FIFO of the non-null values -/
def slidingMax : Acc (List V) (Option V) where
  init := []
  step := fun s v => match v with | none => s | some x => s ++ [x]
  merge := fun s t => match foldOpt vmax t with | none => s | some m => s ++ [m]
  eval := foldOpt vmax

def slidingMin : Acc (List V) (Option V) where
  init := []
  step := fun s v => match v with | none => s | some x => s ++ [x]
  merge := fun s t => match foldOpt vmin t with | none => s | some m => s ++ [m]
  eval := foldOpt vmin

/-- pop one element per non-null retracted value -/
def slidingRetract (s : List V) (v : NV) : List V := if v.isSome then s.drop 1 else s

/-- `AvgAccumulator`: result is the exact rational `sum / count`, printed as a pair -/
def avg : Acc (Option Int × Nat) (Option (Int × Nat)) where
  init := (none, 0)
  step := fun s v => match v with | none => s | some x => (some (s.1.getD 0 + x.toInt), s.2 + 1)
  merge := fun s t => (match t.1 with | none => s.1 | some y => some (s.1.getD 0 + y), s.2 + t.2)
  eval := fun s => if s.2 = 0 then none else s.1.map (fun x => (x, s.2))

def avgRetract (s : Option Int × Nat) (v : NV) : Option Int × Nat :=
  match v with | none => s | some x => (some (s.1.getD 0 - x.toInt), s.2 - 1)

def bitAnd : Acc (Option V) (Option V) := { init := none, step := liftOpt (· &&& ·), merge := mergeOpt (· &&& ·), eval := id }
def bitOr : Acc (Option V) (Option V) := { init := none, step := liftOpt (· ||| ·), merge := mergeOpt (· ||| ·), eval := id }
/-- `BitXorAccumulator`: `value.get_or_insert(0) ^ x` -/
def bitXor : Acc (Option V) (Option V) := { init := none, step := liftOpt (· ^^^ ·), merge := mergeOpt (· ^^^ ·), eval := id }
/-- `retract_batch` = `update_batch` ("XOR is its own inverse") -/
def bitXorRetract (s : Option V) (v : NV) : Option V := liftOpt (· ^^^ ·) s v

/-- booleans as 0 / 1: AND = `&&&`, OR = `|||` on {0,1} -/
def boolAnd : Acc (Option V) (Option V) := bitAnd
def boolOr : Acc (Option V) (Option V) := bitOr

/-- `TrivialFirstValueAccumulator` (RESPECT NULLS): the first row wins, NULL or not -/
def first : Acc (NV × Bool) NV where
  init := (none, false)
  step := fun s v => if s.2 then s else (v, true)
  merge := fun s t => if s.2 then s else t
  eval := fun s => s.1

/-- `TrivialLastValueAccumulator`: every row overwrites -/
def last : Acc (NV × Bool) NV where
  init := (none, false)
  step := fun _ v => (v, true)
  merge := fun s t => if t.2 then t else s
  eval := fun s => s.1

/-- `DistinctCountAccumulator`: set of non-null values, kept as a duplicate-free list -/
def countDistinct : Acc (List V) Int where
  init := []
  step := fun s v => match v with | none => s | some x => if s.contains x then s else s ++ [x]
  merge := fun s t => t.foldl (fun acc x => if acc.contains x then acc else acc ++ [x]) s
  eval := fun s => s.length

/-- `SlidingDistinctCountAccumulator`: value → multiplicity, kept as a bag -/
def countDistinctSliding : Acc (List V) Int where
  init := []
  step := fun s v => match v with | none => s | some x => s ++ [x]
  merge := fun s t => s ++ t
  eval := fun s => s.eraseDups.length

def bagRetract (s : List V) (v : NV) : List V := match v with | none => s | some x => s.erase x

/-- merging any number of partials, left to right (`state()` of each part → `merge_batch`) -/
def mergeAll {σ ρ : Type} (a : Acc σ ρ) (parts : List (List NV)) : σ :=
  parts.foldl (fun s p => a.merge s (a.update a.init p)) a.init

/-! ### vectorised (per-group) accumulator -/

/-- one input row of a `GroupsAccumulator::update_batch` call: group index, value, filter bit -/
structure GRow where
  g : Nat
  v : NV
  keep : Bool

/-- `accumulate`: rows failing the filter are skipped; the others update their group's state -/
def groupsUpdate {σ ρ : Type} (a : Acc σ ρ) (sts : List σ) (rows : List GRow) : List σ :=
  rows.foldl (fun st r => if r.keep then st.modify r.g (fun s => a.step s r.v) else st) sts

/-- `EmitTo::First(n)`: emit the first `n` groups, the others shift down -/
def emitFirst {σ : Type} (n : Nat) (sts : List σ) : List σ × List σ := (sts.take n, sts.drop n)

/-! ### `NullState`: which groups have seen a (non-NULL, filter-passing) value

    functions-aggregate-common/src/aggregate/groups_accumulator/accumulate.rs: `SeenValues::All { num_values }` is the
    fast path "every group so far has seen a value" (entered by NULL-free, filter-free batches: `num_values =
    total_num_groups`), `SeenValues::Some { values }` a bitmap.  `get_builder` turns the counter into a bitmap
    (`num_values` trues, then falses up to `total_num_groups`); `build(EmitTo::First(n))` emits the validity of the
    first `n` groups and keeps the rest: the counter is decreased by `n` (saturating), the bitmap is split. -/
inductive Seen where
  | all (num : Nat)
  | some (bits : List Bool)
  deriving Repr, DecidableEq

/-- has group `i` seen a value? -/
def Seen.get : Seen → Nat → Bool
  | .all n, i => decide (i < n)
  | .some b, i => b.getD i false

/-- `get_builder(total_num_groups)` -/
def Seen.builder : Seen → Nat → List Bool
  | .all n, total => List.replicate n true ++ List.replicate (total - n) false
  | .some b, total => b ++ List.replicate (total - b.length) false

/-- `build(EmitTo::First(n))`: (validity of the emitted groups, tracker of the remaining groups) -/
def Seen.buildFirst : Seen → Nat → List Bool × Seen
  | .all k, n => (List.replicate n true, .all (k - n))
  | .some b, n => (b.take n, .some (b.drop n))

end DfModel.Mech.AggAcc
