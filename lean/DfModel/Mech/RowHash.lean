/-
  C12 — model of `create_hashes` (datafusion/common/src/hash_utils.rs).  Core Lean only.

  The per-value hash functions are UNINTERPRETED (`Hasher`): `one` = `value.hash_one(random_state)`,
  `seeded prev` = `random_state.seeded_state(prev).build_hasher(); value.hash_write(); finish()`.
  What is hashed physically is a `Leaf`: an integer, a byte string, or — for byte *views* of
  length ≤ 12 — the 128-bit view word itself (length + 12 data bytes).

  `Phys` are the physical encodings as the kernels see them (arrow-rs hands the kernels already
  sliced `values()` / `nulls()` for flat arrays; run-end arrays keep a logical offset, lists keep
  offsets into an unsliced child):

    prim   — PrimitiveArray: values, optional validity              (`hash_array_primitive`)
    bytes  — GenericByteArray: offsets + data, optional validity    (`hash_array`)
    view   — GenericByteViewArray: views + data buffers, validity   (`hash_generic_byte_view_array`)
    dict   — DictionaryArray: keys (+ key validity) + values array  (`hash_dictionary` + scatter)
    ree    — RunArray: run ends + values array + logical offset/len (`hash_run_array_inner`)
    list   — GenericListArray: offsets + child + validity           (`hash_list_array`)
    struct — StructArray with two children + validity               (`hash_struct_array`)

  `hashCol H p rehash buf` mirrors the kernel chosen by `hash_single_array`, branch for branch:
  null-free fast path vs `valid_indices` path, `rehash` (column ≥ 1 of a multi-column key) by
  seeding (primitive, view) or by `combine_hashes` (byte arrays, dictionary, run-end), dictionary
  value hashes computed once and scattered with the `HAS_NULL_KEYS/HAS_NULL_VALUES` tests,
  run expansion with clamping to the slice, child hashing from a zeroed buffer + per-row fold.
-/
namespace DfModel.Mech.RowHash

/-- what is fed to the hasher -/
inductive Leaf where
  | int (i : Int)
  /-- a `str` value (byte arrays of type Utf8) -/
  | str (b : List Nat)
  /-- a `[u8]` slice (out-of-line view data) -/
  | bytes (b : List Nat)
  /-- an inlined view word: length and the 12 data bytes -/
  | u128 (len : Nat) (data : List Nat)
  deriving DecidableEq, Repr

structure Hasher where
  one : Leaf → Nat
  seeded : Nat → Leaf → Nat

/-- `combine_hashes(l, r)` with u64 wrapping arithmetic -/
def combine (l r : Nat) : Nat := (((17 * 37 + l) % 2 ^ 64) * 37 % 2 ^ 64 + r) % 2 ^ 64

/-- logical values -/
inductive LVal where
  | null
  | int (i : Int)
  | bytes (b : List Nat)
  | list (xs : List LVal)
  | struct (a b : LVal)
  deriving Repr, Inhabited

/-- a byte view: inlined (≤ 12 bytes, zero padded) or a reference into a data buffer -/
inductive View where
  | inline (len : Nat) (data : List Nat)
  | ref (len : Nat) (buf off : Nat)
  deriving DecidableEq, Repr

abbrev Validity := Option (List Bool)

def Validity.nullCount : Validity → Nat
  | none => 0
  | some bs => bs.count false

def Validity.isValid : Validity → Nat → Bool
  | none, _ => true
  | some bs, i => bs.getD i true

inductive Phys where
  | prim (vals : List Int) (valid : Validity)
  | bytes (offsets : List Nat) (data : List Nat) (valid : Validity)
  | view (views : List View) (bufs : List (List Nat)) (valid : Validity)
  | dict (keys : List Nat) (keyValid : Validity) (values : Phys)
  | ree (runEnds : List Nat) (values : Phys) (offset len : Nat)
  | list (offsets : List Nat) (child : Phys) (valid : Validity)
  | struct (c1 c2 : Phys) (valid : Validity) (len : Nat)
  deriving Repr, Inhabited

/-- data types (two encodings are comparable only at the same type) -/
inductive Ty where
  | prim | bytes | view
  | dict (v : Ty) | ree (v : Ty) | list (c : Ty) | struct (a b : Ty)
  deriving DecidableEq, Repr

def Phys.ty : Phys → Ty
  | .prim .. => .prim
  | .bytes .. => .bytes
  | .view .. => .view
  | .dict _ _ v => .dict v.ty
  | .ree _ v _ _ => .ree v.ty
  | .list _ c _ => .list c.ty
  | .struct a b _ _ => .struct a.ty b.ty

/-- number of rows -/
def Phys.len : Phys → Nat
  | .prim vals _ => vals.length
  | .bytes offsets _ _ => offsets.length - 1
  | .view views _ _ => views.length
  | .dict keys _ _ => keys.length
  | .ree _ _ _ len => len
  | .list offsets _ _ => offsets.length - 1
  | .struct _ _ _ len => len

/-- `Array::null_count()` — the PHYSICAL null count (run-end arrays report 0; a dictionary
    reports its key nulls) -/
def Phys.physNullCount : Phys → Nat
  | .prim _ v => v.nullCount
  | .bytes _ _ v => v.nullCount
  | .view _ _ v => v.nullCount
  | .dict _ kv _ => kv.nullCount
  | .ree .. => 0
  | .list _ _ v => v.nullCount
  | .struct _ _ v _ => v.nullCount

/-- `Array::is_valid(i)` — the physical validity bit -/
def Phys.physValid : Phys → Nat → Bool
  | .prim _ v, i => v.isValid i
  | .bytes _ _ v, i => v.isValid i
  | .view _ _ v, i => v.isValid i
  | .dict _ kv _, i => kv.isValid i
  | .ree .., _ => true
  | .list _ _ v, i => v.isValid i
  | .struct _ _ v _, i => v.isValid i

def slice {α : Type} (xs : List α) (start stop : Nat) : List α := (xs.drop start).take (stop - start)

/-- consecutive pairs of an offsets buffer (`tuple_windows`) -/
def windows : List Nat → List (Nat × Nat)
  | a :: b :: rest => (a, b) :: windows (b :: rest)
  | _ => []

def viewBytes (bufs : List (List Nat)) : View → List Nat
  | .inline len data => data.take len
  | .ref len buf off => slice (bufs.getD buf []) off (off + len)

/-- `(end_in_slice, physical index)` of the runs covering the logical slice `[offset, offset+len)` -/
def reeRuns (offset len : Nat) : List Nat → Nat → List (Nat × Nat)
  | [], _ => []
  | e :: es, i =>
    if e ≤ offset then reeRuns offset len es (i + 1)
    else if len ≤ e - offset then [(len, i)]
    else (e - offset, i) :: reeRuns offset len es (i + 1)

/-- expand runs: `start` is `start_in_slice` -/
def reeExpand {α : Type} (f : Nat → α) : List (Nat × Nat) → Nat → List α
  | [], _ => []
  | (e, i) :: rs, start => List.replicate (e - start) (f i) ++ reeExpand f rs e

/-- the logical column -/
def Phys.logical : Phys → List LVal
  | .prim vals v => vals.zipIdx.map fun (x, i) => if v.isValid i then .int x else .null
  | .bytes offsets data v =>
    (windows offsets).zipIdx.map fun (w, i) => if v.isValid i then .bytes (slice data w.1 w.2) else .null
  | .view views bufs v =>
    views.zipIdx.map fun (w, i) => if v.isValid i then .bytes (viewBytes bufs w) else .null
  | .dict keys kv values =>
    let lv := values.logical
    keys.zipIdx.map fun (k, i) => if kv.isValid i then lv.getD k .null else .null
  | .ree runEnds values offset len =>
    let lv := values.logical
    if len = 0 then [] else reeExpand (fun i => lv.getD i .null) (reeRuns offset len runEnds 0) 0
  | .list offsets child v =>
    let lc := child.logical
    (windows offsets).zipIdx.map fun (w, i) => if v.isValid i then .list (slice lc w.1 w.2) else .null
  | .struct c1 c2 v _ =>
    (List.zip c1.logical c2.logical).zipIdx.map fun (xy, i) =>
      if v.isValid i then .struct xy.1 xy.2 else .null

/-! ### the kernels -/

def zeros (n : Nat) : List Nat := List.replicate n 0

/-- per-row update shared by the flat kernels: `upd prev x` on valid rows, unchanged on NULL rows.
    `fast` = the null-free path (no validity lookups at all). -/
def flatKernel {α : Type} (upd : Nat → α → Nat) (valid : Validity) (xs : List α) (buf : List Nat) : List Nat :=
  if valid.nullCount = 0 then
    List.zipWith upd buf xs
  else
    (List.zip buf xs).zipIdx.map fun ((h, x), i) => if valid.isValid i then upd h x else h

def viewLeaf (bufs : List (List Nat)) (hasBuffers : Bool) : View → Leaf
  | .inline len data => .u128 len data
  | .ref len buf off =>
    -- `!HAS_BUFFERS || view_len <= 12` ⇒ hash the view word; a well-formed array never has a
    -- `ref` view without buffers or of length ≤ 12 (see `Phys.WF`)
    if !hasBuffers || len ≤ 12 then .u128 len [] else .bytes (slice (bufs.getD buf []) off (off + len))

/-- fill / combine one run segment (`hash_run_array_inner`) -/
def reeFill (rehash : Bool) (vh : Nat → Nat) (skip : Nat → Bool) :
    List (Nat × Nat) → Nat → List Nat → List Nat
  | [], _, buf => buf
  | (e, i) :: rs, start, buf =>
    let seg := buf.take (e - start)
    let rest := buf.drop (e - start)
    (if skip i then seg else seg.map fun h => if rehash then combine (vh i) h else vh i)
      ++ reeFill rehash vh skip rs e rest

/-- `hash_single_array(array, random_state, hashes_buffer, rehash)` -/
def hashCol (H : Hasher) : Phys → Bool → List Nat → List Nat
  | .prim vals v, rehash, buf =>
    flatKernel (fun h x => if rehash then H.seeded h (.int x) else H.one (.int x)) v vals buf
  | .bytes offsets data v, rehash, buf =>
    flatKernel (fun h w => if rehash then combine (H.one (.str (slice data w.1 w.2))) h
                           else H.one (.str (slice data w.1 w.2))) v (windows offsets) buf
  | .view views bufs v, rehash, buf =>
    flatKernel (fun h w => if rehash then H.seeded h (viewLeaf bufs (!bufs.isEmpty) w)
                           else H.one (viewLeaf bufs (!bufs.isEmpty) w)) v views buf
  | .dict keys kv values, rehash, buf =>
    let dictHashes := hashCol H values false (zeros values.len)
    let hasNullValues := values.physNullCount ≠ 0
    (List.zip buf keys).zipIdx.map fun ((h, k), i) =>
      if kv.nullCount ≠ 0 ∧ !kv.isValid i then h
      else if hasNullValues ∧ !values.physValid k then h
      else if rehash then combine (dictHashes.getD k 0) h else dictHashes.getD k 0
  | .ree runEnds values offset len, rehash, buf =>
    if len = 0 then buf
    else
      let valuesHashes := hashCol H values false (zeros values.len)
      let hasNullValues := values.physNullCount ≠ 0
      reeFill rehash (fun i => valuesHashes.getD i 0)
        (fun i => hasNullValues && !values.physValid i) (reeRuns offset len runEnds 0) 0 buf
  | .list offsets child v, _, buf =>
    let valuesHashes := hashCol H child false (zeros child.len)
    (List.zip buf (windows offsets)).zipIdx.map fun ((h, w), i) =>
      if v.nullCount ≠ 0 ∧ !v.isValid i then h
      else (slice valuesHashes w.1 w.2).foldl combine h
  | .struct c1 c2 v len, _, buf =>
    -- `create_hashes(array.columns(), &mut values_hashes)`: first child initialises, second rehashes
    let valuesHashes := hashCol H c2 true (hashCol H c1 false (zeros len))
    (List.zip buf valuesHashes).zipIdx.map fun ((h, vh), i) =>
      if v.isValid i then combine h vh else h

/-- `create_hashes(arrays, random_state, buffer)`: column 0 initialises, later columns rehash -/
def createHashesFrom (H : Hasher) : List Phys → Bool → List Nat → List Nat
  | [], _, buf => buf
  | p :: ps, rehash, buf => createHashesFrom H ps true (hashCol H p rehash buf)

def createHashes (H : Hasher) (cols : List Phys) (n : Nat) : List Nat :=
  createHashesFrom H cols false (zeros n)

/-! ### the logical hash: what each row's hash is as a function of the previous hash and the
    row's logical value (per data type) -/

def padTo12 (b : List Nat) : List Nat := b ++ List.replicate (12 - b.length) 0

def lhash (H : Hasher) : Ty → Bool → Nat → LVal → Nat
  | .prim, rehash, prev, l =>
    match l with
    | .int x => if rehash then H.seeded prev (.int x) else H.one (.int x)
    | _ => prev
  | .bytes, rehash, prev, l =>
    match l with
    | .bytes b => if rehash then combine (H.one (.str b)) prev else H.one (.str b)
    | _ => prev
  | .view, rehash, prev, l =>
    match l with
    | .bytes b =>
      let leaf := if b.length ≤ 12 then Leaf.u128 b.length (padTo12 b) else Leaf.bytes b
      if rehash then H.seeded prev leaf else H.one leaf
    | _ => prev
  | .dict v, rehash, prev, l =>
    match l with
    | .null => prev
    | l => if rehash then combine (lhash H v false 0 l) prev else lhash H v false 0 l
  | .ree v, rehash, prev, l =>
    match l with
    | .null => prev
    | l => if rehash then combine (lhash H v false 0 l) prev else lhash H v false 0 l
  | .list c, _, prev, l =>
    match l with
    | .list xs => (xs.map (lhash H c false 0)).foldl combine prev
    | _ => prev
  | .struct a b, _, prev, l =>
    match l with
    | .struct x y => combine prev (lhash H b true (lhash H a false 0 x) y)
    | _ => prev

end DfModel.Mech.RowHash
