/-
  C44 — model of schema adaptation (`datafusion/physical-expr-adapter/src/schema_rewriter.rs`):
  `DefaultPhysicalExprAdapter::rewrite` (column → column | cast(column) | NULL literal, resolved BY
  NAME against the file's physical schema) and `BatchAdapter::adapt_batch` (the same rewrite applied
  to the identity projection of the table schema).  Core Lean only.

  Values, types and the cast kernel are those of `Base/ScalarModel.lean` (`convert`, modelled from
  arrow-cast, tied by C34's and this property's correspondence runs).
-/
import DfModel.Base.ScalarModel
namespace DfModel.SchemaAdapt
open DfModel.ScalarModel

/-- one physical file row, zipped with the file schema: (column name, type, nullable?, value) -/
structure FCol where
  name : String
  ty : PTy
  nullable : Bool
  v : Option PVal
  deriving DecidableEq, Repr

abbrev FileRow := List FCol

/-- table (logical) column -/
structure TCol where
  name : String
  ty : PTy
  nullable : Bool
  deriving DecidableEq, Repr

abbrev TableSchema := List TCol

inductive AErr
  | missingNonNull    -- "Non-nullable column … is missing from the physical schema"
  | incompatible      -- `validate_data_type_compatibility` / `can_cast_types` rejected the pair
  | cast              -- the (unsafe) cast of a value failed
  | unknownColumn     -- a column that is in neither schema
  | panic
  | unsup
  deriving DecidableEq, Repr

/-- `Schema::index_of` / `field_with_name`: the FIRST field with that name -/
def lookup (row : FileRow) (name : String) : Option FCol := row.find? (fun c => c.name == name)

/-- the (source, target) pairs of the modelled lattice arrow's `can_cast_types` accepts -/
def canCast : PTy → PTy → Bool
  | .int _ _, .int _ _ => true
  | .int _ _, .str _ => true
  | .str _, .int _ _ => true
  | .str _, .str _ => true
  | .str _, .bin _ => true
  | .bin _, .bin _ => true
  | .date32, .date64 | .date64, .date32 => true
  | .int _ _, .dec _ _ _ | .dec _ _ _, .int _ _ | .dec _ _ _, .dec _ _ _ => true
  | a, b => a == b

/-- `CastExpr` with default options (`safe = false`) on one value -/
def castVal (src : PTy) (v : Option PVal) (tgt : PTy) : Except AErr (Option PVal) :=
  match v with
  | none => .ok none
  | some x =>
    if src = tgt then .ok (some x) else
    if kernelTypeErr src tgt then .error .cast else
    match convert src x tgt with
    | .ok y => .ok (some y)
    | .bad => .error .cast
    | .unchecked => .error .panic
    | .unsup => .error .unsup

/-- how one table column is produced from the file: `rewrite_column` -/
inductive Plan
  | nullLit (t : PTy)                 -- missing in the file, nullable in the table
  | direct (name : String)            -- same field: the column as it is
  | cast (name : String) (src tgt : PTy)
  deriving DecidableEq, Repr

def planColumn (row : FileRow) (c : TCol) : Except AErr Plan :=
  match lookup row c.name with
  | none => if c.nullable then .ok (.nullLit c.ty) else .error .missingNonNull
  | some f =>
    if f.ty = c.ty && f.nullable = c.nullable then .ok (.direct c.name)
    else if canCast f.ty c.ty then .ok (.cast c.name f.ty c.ty) else .error .incompatible

def runPlan (row : FileRow) : Plan → Except AErr (Option PVal)
  | .nullLit _ => .ok none
  | .direct n =>
    match lookup row n with
    | some f => .ok f.v
    | none => .error .unknownColumn
  | .cast n src tgt =>
    match lookup row n with
    | some f => castVal src f.v tgt
    | none => .error .unknownColumn

def adaptCol (row : FileRow) (c : TCol) : Except AErr (Option PVal) :=
  match planColumn row c with
  | .ok p => runPlan row p
  | .error e => .error e

/-- `BatchAdapter::adapt_batch` on one row: table-schema order, values by name -/
def adapt (row : FileRow) : TableSchema → Except AErr (List (Option PVal))
  | [] => .ok []
  | c :: cs =>
    match adaptCol row c, adapt row cs with
    | .ok v, .ok vs => .ok (v :: vs)
    | .error e, _ => .error e
    | _, .error e => .error e

/-! ### filters -/

inductive Expr
  | col (name : String)
  | lit (v : Option PVal)
  | eq (a b : Expr) | lt (a b : Expr)
  | and (a b : Expr) | or (a b : Expr) | not (a : Expr)
  | isNull (a : Expr)
  /-- produced by the rewrite only -/
  | castCol (name : String) (src tgt : PTy)
  deriving Repr

/-- three-valued booleans travel as `Option PVal` with `.b` payload -/
def tri (o : Option Bool) : Option PVal := o.map .b

def asBool : Option PVal → Option Bool
  | some (.b x) => some x
  | _ => none

def and3 : Option Bool → Option Bool → Option Bool
  | some false, _ | _, some false => some false
  | some true, some true => some true
  | _, _ => none

def or3 : Option Bool → Option Bool → Option Bool
  | some true, _ | _, some true => some true
  | some false, some false => some false
  | _, _ => none

/-- evaluation against an environment that resolves a column name -/
def eval (env : String → Except AErr (Option PVal)) (castEnv : String → PTy → PTy → Except AErr (Option PVal)) :
    Expr → Except AErr (Option PVal)
  | .col n => env n
  | .castCol n s t => castEnv n s t
  | .lit v => .ok v
  | .eq a b => do
    let x ← eval env castEnv a
    let y ← eval env castEnv b
    match x, y with
    | some x, some y => pure (tri (some (cmpPVal x y == .eq)))
    | _, _ => pure none
  | .lt a b => do
    let x ← eval env castEnv a
    let y ← eval env castEnv b
    match x, y with
    | some x, some y => pure (tri (some (cmpPVal x y == .lt)))
    | _, _ => pure none
  -- `BinaryExpr` short-circuits: a (non-NULL) FALSE left side of AND / TRUE left side of OR is
  -- returned without evaluating the right side, so an error there does not surface
  | .and a b => do
    let x ← eval env castEnv a
    if asBool x == some false then pure (tri (some false)) else
    let y ← eval env castEnv b
    pure (tri (and3 (asBool x) (asBool y)))
  | .or a b => do
    let x ← eval env castEnv a
    if asBool x == some true then pure (tri (some true)) else
    let y ← eval env castEnv b
    pure (tri (or3 (asBool x) (asBool y)))
  | .not a => do
    let x ← eval env castEnv a
    pure (tri ((asBool x).map (!·)))
  | .isNull a => do
    let x ← eval env castEnv a
    pure (tri (some x.isNone))

/-- evaluation of a table-level filter on the ADAPTED row -/
def tableEnv (row : FileRow) (ts : TableSchema) (n : String) : Except AErr (Option PVal) :=
  match ts.find? (fun c => c.name == n) with
  | some c => adaptCol row c
  | none => .error .unknownColumn

def evalTable (row : FileRow) (ts : TableSchema) (f : Expr) : Except AErr (Option PVal) :=
  eval (tableEnv row ts) (fun _ _ _ => .error .unknownColumn) f

/-- evaluation of a rewritten (file-level) filter on the FILE row -/
def fileEnv (row : FileRow) (n : String) : Except AErr (Option PVal) :=
  match lookup row n with
  | some f => .ok f.v
  | none => .error .unknownColumn

def fileCastEnv (row : FileRow) (n : String) (s t : PTy) : Except AErr (Option PVal) :=
  match lookup row n with
  | some f => castVal s f.v t
  | none => .error .unknownColumn

def evalFile (row : FileRow) (f : Expr) : Except AErr (Option PVal) :=
  eval (fileEnv row) (fileCastEnv row) f

/-- `DefaultPhysicalExprAdapter::rewrite`: every column reference is replaced according to its plan -/
def rewriteFilter (row : FileRow) (ts : TableSchema) : Expr → Except AErr Expr
  | .col n =>
    match ts.find? (fun c => c.name == n) with
    | none => .error .unknownColumn
    | some c =>
      match planColumn row c with
      | .error e => .error e
      | .ok (.nullLit _) => .ok (.lit none)
      | .ok (.direct m) => .ok (.col m)
      | .ok (.cast m s t) => .ok (.castCol m s t)
  | .castCol n s t => .ok (.castCol n s t)
  | .lit v => .ok (.lit v)
  | .eq a b => do pure (.eq (← rewriteFilter row ts a) (← rewriteFilter row ts b))
  | .lt a b => do pure (.lt (← rewriteFilter row ts a) (← rewriteFilter row ts b))
  | .and a b => do pure (.and (← rewriteFilter row ts a) (← rewriteFilter row ts b))
  | .or a b => do pure (.or (← rewriteFilter row ts a) (← rewriteFilter row ts b))
  | .not a => do pure (.not (← rewriteFilter row ts a))
  | .isNull a => do pure (.isNull (← rewriteFilter row ts a))

/-- table-level expressions never contain `castCol` -/
def Expr.plain : Expr → Bool
  | .castCol _ _ _ => false
  | .col _ | .lit _ => true
  | .eq a b | .lt a b | .and a b | .or a b => a.plain && b.plain
  | .not a | .isNull a => a.plain

end DfModel.SchemaAdapt
