/-
  C08 — algorithmic models of the sort machinery of datafusion/physical-plan/src/sorts/* and
  topk/mod.rs, generic in the element type and in a comparison `le : α → α → Bool`
  (instantiated with `RowOrd.leRows opts` by the driver).

  * `isort`       reference sort (stable insertion sort) — stands for `sort_batch` / `lexsort_to_indices`
  * `merge2`      two-way merge, ties to the left stream
  * `kMergeBy`    k-way merge = `SortPreservingMergeStream`: repeatedly emit the head of a stream whose
                  head is least.  The loser tree is abstracted to "a stream with a least head"; WHICH of
                  several tied streams wins is decided by
                    – `is_gt(a,b) = cmp(a,b).then(a.cmp(b))`  → the LOWEST stream index (default), or
                    – the round-robin tie breaker (poll counts) → any tied stream;
                  the model takes an arbitrary oracle `pol : step → proposed stream` and uses the proposal
                  iff that stream's head is least, otherwise the lowest-index rule.  `kMerge` = no oracle.
  * `multiLevel`  `MultiLevelMergeBuilder::create_stream`: a queue of sorted runs; each pass merges a
                  prefix of `k ≥ 2` runs (how many fit in memory: adversarial) and pushes the merged run
                  to the BACK of the queue, until one pass takes everything that is left.
  * `extSort`     `ExternalSorter`: buffer batches (empty ones are ignored); under memory pressure
                  (adversarial schedule) sort the buffered batches into one run and spill it; at the end
                  either sort in memory, or spill the rest and multi-level merge all runs.
                  `inMemSort`: buffered batches are grouped into consecutive groups (one group =
                  concat-and-sort path, singleton groups = sort-each-batch path, anything else =
                  `coalesce_in_mem_batches_into_runs`), each group sorted, the runs k-way merged.
  * `topK`        `TopK` / `TopKHeap`: bounded heap abstracted to its sorted content; a row enters iff the
                  heap is not full or the row is STRICTLY below the current maximum, which it replaces.
  * `partialSort` `PartialSortExec`: input is cut where the common-prefix key changes; each part sorted.
  * judges        decidable checks used by the driver to judge real outputs.
  Core Lean only.
-/
namespace DfModel.Mech.SortMerge
variable {α : Type}

/-! ### reference sort -/

/-- insert before the first element that is not strictly smaller (stable) -/
def insertS (le : α → α → Bool) (a : α) : List α → List α
  | [] => [a]
  | b :: l => if le a b then a :: b :: l else b :: insertS le a l

def isort (le : α → α → Bool) : List α → List α
  | [] => []
  | a :: l => insertS le a (isort le l)

/-! ### two-way merge -/

def merge2 (le : α → α → Bool) : List α → List α → List α
  | [], ys => ys
  | xs, [] => xs
  | a :: as, b :: bs =>
    if le a b then a :: merge2 le as (b :: bs) else b :: merge2 le (a :: as) bs
termination_by xs ys => xs.length + ys.length

/-! ### k-way merge -/

def heads (ss : List (List α)) : List α := ss.filterMap List.head?

/-- `(index, head)` of the stream with the least head; among equal heads the lowest index
    (`is_gt`: `ac.cmp(bc).then_with(|| a.cmp(&b))`); exhausted streams (`None` cursor) lose. -/
def minIdx (le : α → α → Bool) : List (List α) → Option (Nat × α)
  | [] => none
  | [] :: rest => (minIdx le rest).map (fun p => (p.1 + 1, p.2))
  | (a :: _) :: rest =>
    match minIdx le rest with
    | none => some (0, a)
    | some (j, b) => if le a b then some (0, a) else some (j + 1, b)

/-- advance the cursor of stream `i` -/
def popAt : List (List α) → Nat → Option (α × List (List α))
  | [], _ => none
  | s :: ss, 0 =>
    match s with
    | [] => none
    | a :: t => some (a, t :: ss)
  | s :: ss, i + 1 => (popAt ss i).map (fun p => (p.1, s :: p.2))

def isMinAt (le : α → α → Bool) (ss : List (List α)) (i : Nat) : Bool :=
  match popAt ss i with
  | some (a, _) => (heads ss).all (fun b => le a b)
  | none => false

/-- the winner: the oracle's proposal if its head is least, else the lowest-index least head -/
def choose (le : α → α → Bool) (prop : Option Nat) (ss : List (List α)) : Option Nat :=
  match prop with
  | some i => if isMinAt le ss i then some i else (minIdx le ss).map (·.1)
  | none => (minIdx le ss).map (·.1)

def kMergeFuel (le : α → α → Bool) (pol : Nat → Option Nat) : Nat → List (List α) → List α
  | 0, _ => []
  | n + 1, ss =>
    match choose le (pol n) ss with
    | none => []
    | some i =>
      match popAt ss i with
      | none => []
      | some (a, ss') => a :: kMergeFuel le pol n ss'

def totalLen (ss : List (List α)) : Nat := (ss.map List.length).sum

def kMergeBy (le : α → α → Bool) (pol : Nat → Option Nat) (ss : List (List α)) : List α :=
  kMergeFuel le pol (totalLen ss) ss

/-- the default tie rule: lowest stream index -/
def kMerge (le : α → α → Bool) (ss : List (List α)) : List α := kMergeBy le (fun _ => none) ss

/-! ### multi-level merge -/

def multiLevel (le : α → α → Bool) : List Nat → List (List α) → List α
  | [], runs => kMerge le runs
  | k :: ks, runs =>
    if 2 ≤ k ∧ k < runs.length then
      multiLevel le ks (runs.drop k ++ [kMerge le (runs.take k)])
    else kMerge le runs

/-! ### external sort -/

/-- consecutive groups of sizes `k+1` for the listed `k`; what is left forms one last group -/
def chunk {β : Type} : List Nat → List β → List (List β)
  | [], xs => if xs.isEmpty then [] else [xs]
  | k :: ks, xs => if xs.isEmpty then [] else xs.take (k + 1) :: chunk ks (xs.drop (k + 1))

def inMemSort (le : α → α → Bool) (grp : List Nat) (bufs : List (List α)) : List α :=
  kMerge le ((chunk grp bufs).map (fun g => isort le g.flatten))

/-- one schedule entry per non-empty inserted batch: `(memory pressure before inserting it, grouping
    used by the in-memory sort that the spill performs)` -/
abbrev SpillSched := List (Bool × List Nat)

def extSortGo (le : α → α → Bool) :
    List (List α) → SpillSched → List (List α) → List (List α) → List (List α) × List (List α)
  | [], _, buf, runs => (buf, runs)
  | b :: bs, sch, buf, runs =>
    if b.isEmpty then extSortGo le bs sch buf runs
    else
      match sch with
      | (true, grp) :: sch' =>
        if buf.isEmpty then extSortGo le bs sch' [b] runs
        else extSortGo le bs sch' [b] (runs ++ [inMemSort le grp buf])
      | (false, _) :: sch' => extSortGo le bs sch' (buf ++ [b]) runs
      | [] => extSortGo le bs [] (buf ++ [b]) runs

def extSort (le : α → α → Bool) (batches : List (List α)) (sch : SpillSched)
    (finalGrp : List Nat) (fanin : List Nat) : List α :=
  let st := extSortGo le batches sch [] []
  if st.2.isEmpty then inMemSort le finalGrp st.1
  else multiLevel le fanin (if st.1.isEmpty then st.2 else st.2 ++ [inMemSort le finalGrp st.1])

/-! ### TopK -/

/-- state: (heap content, sorted; rows dropped so far) -/
def topKInsert (le : α → α → Bool) (k : Nat) (st : List α × List α) (a : α) : List α × List α :=
  if st.1.length < k then (insertS le a st.1, st.2)
  else
    match st.1.getLast? with
    | none => (st.1, a :: st.2)
    | some m =>
      if le m a then (st.1, a :: st.2)                 -- `row >= max_row` ⇒ not a new top-k row
      else (insertS le a st.1.dropLast, m :: st.2)      -- replaces the current maximum

def topKGo (le : α → α → Bool) (k : Nat) (xs : List α) : List α × List α :=
  xs.foldl (topKInsert le k) ([], [])

def topK (le : α → α → Bool) (k : Nat) (xs : List α) : List α := (topKGo le k xs).1

/-! ### partial sort -/

/-- cut `xs` into maximal runs of `eqv`-adjacent elements (the `evaluate_partition_ranges` of the
    common prefix columns) -/
def runsBy (eqv : α → α → Bool) : List α → List (List α)
  | [] => []
  | a :: l =>
    match runsBy eqv l with
    | [] => [[a]]
    | (b :: r) :: rs => if eqv a b then (a :: b :: r) :: rs else [a] :: (b :: r) :: rs
    | [] :: rs => [a] :: rs

/-- `PartialSortExec` without fetch: every prefix-run is sorted by the full key (the operator sorts
    unions of consecutive whole runs, which gives the same multiset per run boundary) -/
def partialSort (le : α → α → Bool) (eqv : α → α → Bool) (xs : List α) : List α :=
  ((runsBy eqv xs).map (isort le)).flatten

/-! ### judges (decidable; used by the driver on real outputs) -/

def sortedB (le : α → α → Bool) : List α → Bool
  | [] => true
  | [_] => true
  | a :: b :: l => le a b && sortedB le (b :: l)

/-- `some rest` with `out ++ rest ~ l`, or `none` if `out` is not a sub-bag of `l` -/
def bagDiff [BEq α] : List α → List α → Option (List α)
  | l, [] => some l
  | l, a :: as => if l.contains a then bagDiff (l.erase a) as else none

inductive Verdict where
  | ok | unsorted | count | notperm | notsubbag | droppedSmaller
  deriving DecidableEq, Repr

def Verdict.show : Verdict → String
  | .ok => "ok"
  | .unsorted => "bad:unsorted"
  | .count => "bad:count"
  | .notperm => "bad:notperm"
  | .notsubbag => "bad:notsubbag"
  | .droppedSmaller => "bad:dropped-smaller"

/-- sorted ∧ same multiset (multisets compared through a canonical sort by `full`) -/
def judgeSort [BEq α] (le full : α → α → Bool) (inp out : List α) : Verdict :=
  if !sortedB le out then .unsorted
  else if inp.length != out.length then .count
  else if !(inp.mergeSort full == out.mergeSort full) then .notperm
  else .ok

/-- top-k relation: sorted, `min k n` rows, a sub-bag of the input, nothing dropped is below a kept row -/
def judgeTopK [BEq α] (le : α → α → Bool) (k : Nat) (inp out : List α) : Verdict :=
  if !sortedB le out then .unsorted
  else if out.length != min k inp.length then .count
  else
    match bagDiff inp out with
    | none => .notsubbag
    | some rest => if out.all (fun t => rest.all (fun d => le t d)) then .ok else .droppedSmaller

end DfModel.Mech.SortMerge
