/-
  C31 (b), (c) — what the dynamic filters published by `HashJoinExec` and `TopK` accept.
  Core Lean only.

  (b) `SharedBuildAccumulator::build_collect_left_filter` publishes, once the build side is
      complete, `preserve_probe_nulls (bounds AND membership)` over the probe-side key columns:
        bounds      = ⋀ columns `key_i >= min_i AND key_i <= max_i`   (min/max of the non-NULL
                       build keys of column i; a comparison with NULL is not true),
        membership  = `key IN (build keys)` (IN-list) or the hash-table lookup,
        preserve_probe_nulls: OR `key_i IS NULL` (any i) when the join is null-equal and the
                       build keys contain a NULL (or the join is null-aware).
      Before that the filter is the placeholder `true`.  In partitioned mode the filter is a
      `CASE hash(key) % n` dispatch to the per-partition filter built the same way.
      The gate is `HashJoinExec::allow_join_dynamic_filter_pushdown`:
      `join_type.on_lr_is_preserved().1`.

  (c) `TopK::update_filter` publishes `row < boundary` (lexicographic in the sort order) where
      `boundary` is the worst row of a FULL heap of `k` rows; a scan may apply any threshold
      published so far (possibly stale) to any row.
-/
import DfModel.Mech.JoinSpec
namespace DfModel.Mech.DynSound
open DfModel.Mech.Join

/-! ### (b) join build-side filter -/

def colMin : List Int → Option Int
  | [] => none
  | x :: xs => some (xs.foldl min x)

def colMax : List Int → Option Int
  | [] => none
  | x :: xs => some (xs.foldl max x)

/-- non-NULL values of key column `i` over the build keys -/
def colVals (buildKeys : List (List Val)) (i : Nat) : List Int :=
  buildKeys.filterMap fun k => (k.getD i none)

/-- `key_i >= min_i AND key_i <= max_i` (not true for a NULL key or when the column has no bounds
    value, i.e. min/max are NULL) -/
def boundsCol (buildKeys : List (List Val)) (i : Nat) (v : Val) : Bool :=
  match v, colMin (colVals buildKeys i), colMax (colVals buildKeys i) with
  | some x, some lo, some hi => decide (lo ≤ x) && decide (x ≤ hi)
  | _, _, _ => false

def boundsPred (buildKeys : List (List Val)) (k : List Val) : Bool :=
  k.zipIdx.all fun (v, i) => boundsCol buildKeys i v

/-- IN-list / hash lookup: true only for a fully non-NULL key present among the build keys -/
def memberPred (buildKeys : List (List Val)) (k : List Val) : Bool :=
  k.all Option.isSome && buildKeys.contains k

/-- the filter published after the build side is complete -/
def publishedFilter (nullEq : Bool) (buildKeys : List (List Val)) (k : List Val) : Bool :=
  (nullEq && buildKeys.any (·.any Option.isNone) && k.any Option.isNone)
    || (boundsPred buildKeys k && memberPred buildKeys k)

/-- partitioned mode: route by a function of the key, then the partition's own filter -/
def routedFilter (nullEq : Bool) (route : List Val → Nat) (buildKeys : List (List Val))
    (k : List Val) : Bool :=
  publishedFilter nullEq (buildKeys.filter fun b => route b == route k) k

/-- `allow_join_dynamic_filter_pushdown` (the join-type part) -/
def gate (jt : JoinType) : Bool := jt.onLrIsPreserved.2

/-! ### (c) TopK -/

section TopK
variable {α : Type} (le : α → α → Bool)

/-- insert into a list sorted by `le` (after all elements that are `le` the new one: stable) -/
def insertSorted (x : α) : List α → List α
  | [] => [x]
  | y :: ys => if le y x then y :: insertSorted x ys else x :: y :: ys

/-- the heap after seeing one more row: keep the `k` best -/
def heapStep (k : Nat) (heap : List α) (x : α) : List α := (insertSorted le x heap).take k

/-- the published threshold: the worst row of a full heap -/
def threshold (k : Nat) (heap : List α) : Option α :=
  if heap.length = k then heap.getLast? else none

/-- the filter `row < boundary` -/
def passes (t : α) (x : α) : Bool := le x t && !le t x

/-- TopK without any dynamic filter -/
def runPlain (k : Nat) : List α → List α → List α
  | heap, [] => heap
  | heap, x :: xs => runPlain k (heapStep le k heap x) xs

/-- which published threshold a scan sees for the next row: `some (some j)` = the j-th one
    published so far (stale reads allowed), anything else = none yet -/
def seenThreshold (pubs : List α) : Option (Option Nat) → Option α
  | some (some j) => pubs[j]?
  | _ => none

/-- is the row discarded by the scan-side filter? -/
def rejects (seen : Option α) (x : α) : Bool :=
  match seen with
  | some t => !passes le t x
  | none => false

/-- publish the threshold of the heap (if it is full) -/
def publish (k : Nat) (heap pubs : List α) : List α :=
  match threshold k heap with
  | some t => pubs ++ [t]
  | none => pubs

/-- TopK whose input is pre-filtered by the dynamic filter: for each row the scan applies the
    threshold it happens to see (`picks`, see `seenThreshold`) -/
def runFiltered (k : Nat) : List α → List α → List α → List (Option Nat) → List α
  | heap, _, [], _ => heap
  | heap, pubs, x :: xs, picks =>
    let heap' := if rejects le (seenThreshold pubs picks.head?) x then heap else heapStep le k heap x
    runFiltered k heap' (publish k heap' pubs) xs picks.tail

end TopK

end DfModel.Mech.DynSound
