/-
  C53 — counting points (model of `BaselineMetrics::record_poll` / `RecordOutput`,
  `datafusion/physical-expr-common/src/metrics/baseline.rs`; of the way one operator composes
  several streams that share ONE `ExecutionPlanMetricsSet` — `RepartitionExec::execute`
  (`PerPartitionStream` with `Some(metrics)` / `None` under `StreamingMergeBuilder::with_metrics`),
  `datafusion/physical-plan/src/repartition/mod.rs`; and of the spill counters updated in
  `InProgressSpillFile::append_batch`, `datafusion/physical-plan/src/spill/in_progress_spill_file.rs`).
  Core Lean only.
-/
namespace DfModel.Mech.Counting

/-! ### one stream, one counter -/

/-- what `poll_next` can return -/
inductive Poll where
  | pending
  | batch (rows : Nat)        -- `Ready(Some(Ok(batch)))`
  | error                     -- `Ready(Some(Err(_)))`
  | done                      -- `Ready(None)`
  deriving Repr, DecidableEq

structure Metrics where
  outputRows : Nat
  outputBatches : Nat
  ended : Bool                -- `end_time` recorded
  deriving Repr, DecidableEq

def Metrics.zero : Metrics := ⟨0, 0, false⟩

/-- `BaselineMetrics::record_poll` -/
def recordPoll (m : Metrics) : Poll → Metrics
  | .pending => m
  | .batch n => { m with outputRows := m.outputRows + n, outputBatches := m.outputBatches + 1 }
  | .error => { m with ended := true }
  | .done => { m with ended := true }

def recordAll (m : Metrics) (ps : List Poll) : Metrics := ps.foldl recordPoll m

/-- rows the consumer actually received -/
def emitted : List Poll → Nat
  | [] => 0
  | .batch n :: ps => n + emitted ps
  | _ :: ps => emitted ps

def batches : List Poll → Nat
  | [] => 0
  | .batch _ :: ps => 1 + batches ps
  | _ :: ps => batches ps

/-! ### several streams of ONE operator sharing one metrics set

`MetricsSet::output_rows()` sums every `OutputRows` counter registered in the operator's set, so
what the operator reports is the sum over all counting points placed anywhere in the stream
composition it returns from `execute`. -/

inductive Wrap where
  | source (batches : List Nat)         -- rows arriving from the children / channels
  | counted (inner : Wrap)              -- a stream that calls `record_poll` with metrics of THIS node
  | merge (inputs : List Wrap)          -- order-preserving merge / interleave: every row, re-batched
  | rebatch (inner : Wrap)              -- coalescing / splitting: same rows, other batch boundaries
  | limit (n : Nat) (inner : Wrap)      -- fetch: stops after n rows
  deriving Repr

mutual
/-- rows that come out at the top -/
def rows : Wrap → Nat
  | .source bs => bs.sum
  | .counted w => rows w
  | .merge ws => rowsL ws
  | .rebatch w => rows w
  | .limit n w => min n (rows w)
def rowsL : List Wrap → Nat
  | [] => 0
  | w :: ws => rows w + rowsL ws
end

mutual
/-- what the operator's metrics set reports: every counting point adds the rows passing it.
    (A counting point below a `limit` has seen everything its inner stream produced up to the
    moment the limit stopped pulling — the model takes the worst case "everything".) -/
def reported : Wrap → Nat
  | .source _ => 0
  | .counted w => rows w + reported w
  | .merge ws => reportedL ws
  | .rebatch w => reported w
  | .limit _ w => reported w
def reportedL : List Wrap → Nat
  | [] => 0
  | w :: ws => reported w + reportedL ws
end

mutual
/-- no counting point anywhere inside -/
def uncounted : Wrap → Bool
  | .source _ => true
  | .counted _ => false
  | .merge ws => uncountedL ws
  | .rebatch w => uncounted w
  | .limit _ w => uncounted w
def uncountedL : List Wrap → Bool
  | [] => true
  | w :: ws => uncounted w && uncountedL ws
end

mutual
/-- every row that comes out at the top has passed exactly one counting point, and no row is
    dropped above a counting point -/
def exactlyOnce : Wrap → Bool
  | .source _ => false
  | .counted w => uncounted w
  | .merge ws => exactlyOnceL ws
  | .rebatch w => exactlyOnce w
  | .limit _ _ => false
def exactlyOnceL : List Wrap → Bool
  | [] => true
  | w :: ws => exactlyOnce w && exactlyOnceL ws
end

/-- `RepartitionExec::execute`, one output partition fed by `k` input partitions:
    * not order-preserving: one `PerPartitionStream` with `Some(metrics)`;
    * order-preserving: `k` `PerPartitionStream`s with `inner` = `None` (as the code is) or
      `Some(metrics)` (the double-counting variant), merged by a `StreamingMerge` with metrics. -/
def repartitionOut (preserveOrder innerCounted : Bool) (inputs : List (List Nat)) : Wrap :=
  if preserveOrder then
    .counted (.merge (inputs.map fun bs => if innerCounted then .counted (.source bs) else .source bs))
  else
    .counted (.source inputs.flatten)

/-! ### spill counters -/

inductive Io where
  | ok | fail
  deriving Repr, DecidableEq

inductive SpillOp where
  | append (rows : Nat) (io : Io)       -- `InProgressSpillFile::append_batch`
  | finish
  deriving Repr, DecidableEq

structure Spill where
  finished : Bool
  fileRows : List Nat       -- batches readable from the file, in order
  spilledRows : Nat         -- `SpillMetrics::spilled_rows`
  spillFiles : Nat          -- `SpillMetrics::spill_file_count`
  opened : Bool
  deriving Repr, DecidableEq

def Spill.init : Spill := ⟨false, [], 0, 0, false⟩

inductive SpillOut where
  | ok | err
  deriving Repr, DecidableEq

def spillStep (s : Spill) : SpillOp → Spill × SpillOut
  | .append n io =>
    if s.finished then (s, .err)                       -- "No active in-progress file"
    else
      -- the writer is opened (and the file counted) by the first append, before the write
      let s1 := if s.opened then s else { s with opened := true, spillFiles := s.spillFiles + 1 }
      match io with
      | .fail => (s1, .err)                            -- `writer.write(..)?` — counters untouched
      | .ok => ({ s1 with fileRows := s1.fileRows ++ [n], spilledRows := s1.spilledRows + n }, .ok)
  | .finish =>
    if s.finished then (s, .err)                       -- "file has already been finalized"
    else if s.opened then ({ s with finished := true }, .ok)
    else (s, .ok)                                      -- nothing was written: `Ok(None)`, file stays usable

def spillRun (s : Spill) : List SpillOp → Spill
  | [] => s
  | op :: ops => spillRun (spillStep s op).1 ops

end DfModel.Mech.Counting
