/-
  C10 — routing of rows to output partitions in `BatchPartitioner`
  (`datafusion/physical-plan/src/repartition/mod.rs`) and the row comparison it uses
  (`datafusion/common/src/utils/mod.rs::compare_rows`).

    * `cmpCol` / `cmpRows`     = the loop body / the loop of `compare_rows` (NULLS FIRST/LAST, ASC/DESC;
                                 two NULLs `continue`; `zip` stops at the shortest of the three slices)
    * `rangeIdAux` / `rangeId` = the `while low < high` binary search of `range_partition_id`
    * `rrStart`, `rrNext`      = `new_round_robin_partitioner` / the `RoundRobin` arm of `partition_iter`
    * `routeLoop`              = the index-vector fill (`indices[partition].push(row_idx)`) of
                                 `partition_range_indices` / `StrengthReducedU64::partition_indices`
    * `groupedTake`            = `partition_grouped_take`: non-empty index vectors concatenated, one
                                 take, each partition = `slice(start, len)` of the reordered rows

  Keys are tuples of nullable 64-bit integers (`Option Int`); other column types enter only through
  their `try_cmp` being a strict total order (theorem `bsearch_eq_count` is stated for an arbitrary
  monotone predicate).  Core Lean only.
-/
namespace DfModel.Mech.Repart

structure SortOpt where
  descending : Bool
  nullsFirst : Bool
  deriving Repr, DecidableEq

/-- `i64::cmp` -/
def cmpInt (a b : Int) : Ordering := if a < b then .lt else if a = b then .eq else .gt

/-- one iteration of the loop in `compare_rows`; `.eq` for two NULLs is the `continue` -/
def cmpCol (o : SortOpt) (l r : Option Int) : Ordering :=
  match l, r with
  | none, none => .eq
  | none, some _ => if o.nullsFirst then .lt else .gt
  | some _, none => if o.nullsFirst then .gt else .lt
  | some a, some b => if o.descending then cmpInt b a else cmpInt a b

/-- `compare_rows(x, y, sort_options)` -/
def cmpRows : List (Option Int) → List (Option Int) → List SortOpt → Ordering
  | l :: ls, r :: rs, o :: os =>
    match cmpCol o l r with
    | .eq => cmpRows ls rs os
    | x => x
  | _, _, _ => .eq

/-- the `while low < high` loop of `range_partition_id` over an abstract probe
    `lt i` = "`compare_rows(key, split_points[i]) == Less`" -/
def bsearch (lt : Nat → Bool) (low high : Nat) : Nat :=
  if low < high then
    let mid := low + (high - low) / 2
    if lt mid then bsearch lt low mid else bsearch lt (mid + 1) high
  else low
termination_by high - low
decreasing_by all_goals omega

/-- `range_partition_id(row_key, split_points, sort_options)`; every probe index is in range -/
def rangeIdAux (key : List (Option Int)) (splits : List (List (Option Int))) (opts : List SortOpt)
    (low high : Nat) (hh : high ≤ splits.length) : Nat :=
  if h : low < high then
    let mid := low + (high - low) / 2
    have hm : mid < splits.length := by omega
    match cmpRows key splits[mid] opts with
    | .lt => rangeIdAux key splits opts low mid (by omega)
    | _ => rangeIdAux key splits opts (mid + 1) high hh
  else low
termination_by high - low
decreasing_by all_goals omega

def rangeId (key : List (Option Int)) (splits : List (List (Option Int))) (opts : List SortOpt) : Nat :=
  rangeIdAux key splits opts 0 splits.length (Nat.le_refl _)

/-- `validate_range_split_points`: widths equal the ordering width, adjacent points strictly ordered -/
def validSplits (splits : List (List (Option Int))) (opts : List SortOpt) : Bool :=
  splits.all (fun s => s.length == opts.length) &&
  (splits.zip splits.tail).all (fun p => cmpRows p.1 p.2 opts == .lt)

/-- first output of input partition `i` of `m` for `n` outputs -/
def rrStart (i n m : Nat) : Nat := (i * n) / m
/-- `*next_idx = (*next_idx + 1) % *num_partitions` -/
def rrNext (idx n : Nat) : Nat := (idx + 1) % n

/-- outputs chosen for `k` successive batches -/
def rrSeq (idx n : Nat) : Nat → List Nat
  | 0 => []
  | k + 1 => idx :: rrSeq (rrNext idx n) n k

/-- `indices[p].push(row)`; `none` = index out of bounds (panic) -/
def pushAt : List (List Nat) → Nat → Nat → Option (List (List Nat))
  | [], _, _ => none
  | b :: bs, 0, row => some ((b ++ [row]) :: bs)
  | b :: bs, p + 1, row => (pushAt bs p row).map (b :: ·)

/-- the routing loop: row `row0 + j` has route `routes[j]` -/
def routeLoop : List Nat → Nat → List (List Nat) → Option (List (List Nat))
  | [], _, bs => some bs
  | r :: rs, row, bs =>
    match pushAt bs r row with
    | some bs' => routeLoop rs (row + 1) bs'
    | none => none

/-- `partition_ranges` and `reordered_indices` of `partition_grouped_take` -/
def takePlan : List (List Nat) → Nat → List Nat → List (Nat × Nat × Nat) × List Nat
  | [], _, reordered => ([], reordered)
  | b :: bs, p, reordered =>
    if b.isEmpty then takePlan bs (p + 1) reordered
    else
      let r := takePlan bs (p + 1) (reordered ++ b)
      ((p, reordered.length, b.length) :: r.1, r.2)

/-- `partition_grouped_take`: (partition, rows of `reordered.slice(start, len)`) -/
def groupedTake (buckets : List (List Nat)) : List (Nat × List Nat) :=
  let plan := takePlan buckets 0 []
  plan.1.map (fun x => (x.1, (plan.2.drop x.2.1).take x.2.2))

/-- hash / range arm of `partition_iter` on one batch given each row's route -/
def partitionBatch (routes : List Nat) (n : Nat) : Option (List (Nat × List Nat)) :=
  (routeLoop routes 0 (List.replicate n [])).map groupedTake

end DfModel.Mech.Repart
