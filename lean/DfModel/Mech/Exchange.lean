/-
  C10 — the memory-or-spill marker protocol of `RepartitionExec` for ONE output partition in
  non-preserve-order mode (`repartition/mod.rs`: `OutputChannel::send`, `PerPartitionStream`,
  and the shared multi-producer spill pool `spill/spill_pool.rs`).

    * every input task (writer `w`) sends each batch either as `Memory(b)` or — when the memory
      reservation fails — pushes it to the pool shared by all inputs and sends a `Spilled` marker;
    * `SpillPoolSink::push_batch` = `pushBegin` (pop the front of `open_write_files`, or create a
      new file and append it to `files` when the queue is empty) … disk I/O … `pushEnd` (append,
      put the file back at the END of `open_write_files`; or finish it when it is full);
    * the channel is one distribution channel: with a single channel the gate is closed exactly when
      the channel is non-empty (C15 `send_pending_iff_all_open_nonempty`), so `send` is `Pending`
      iff the queue is non-empty;
    * `PerPartitionStream`: `ReadingMemory` pops the channel; a `Spilled` marker switches to
      `ReadingSpilled`, which reads the FRONT file of the pool and does not poll the channel; an
      exhausted front file is popped only when `writer_finished`, otherwise the reader is `Pending`;
    * files are finished when full, on a failed write, or when the LAST sink is dropped.

  `none` = the action is blocked (`Pending`) or not available; blocked actions do not change the
  state.  Core Lean only.
-/
namespace DfModel.Mech.Exchange

inductive Msg where
  | mem (v : Nat)
  | spilled
  | done
  deriving Repr, DecidableEq

structure SFile where
  id : Nat
  batches : List Nat
  finished : Bool
  deriving Repr, DecidableEq

inductive RState where
  | readingMemory
  | readingSpilled
  deriving Repr, DecidableEq

structure St where
  files : List SFile
  openQ : List Nat
  held : List (Nat × Nat)
  nextFile : Nat
  sinks : Nat
  chan : List Msg
  rstate : RState
  out : List Nat
  deriving Repr, DecidableEq

def init (sinks : Nat) : St :=
  { files := [], openQ := [], held := [], nextFile := 0, sinks := sinks, chan := [],
    rstate := .readingMemory, out := [] }

inductive Op where
  | pushBegin (w : Nat)
  | pushEnd (w v : Nat) (full : Bool)     -- `full` = `estimated_size > max_file_size_bytes`
  | send (w : Nat) (m : Msg)
  | dropSink
  | poll
  deriving Repr, DecidableEq

def appendTo (fs : List SFile) (f v : Nat) (fin : Bool) : List SFile :=
  fs.map (fun x => if x.id = f then { x with batches := x.batches ++ [v], finished := x.finished || fin } else x)

def heldBy (held : List (Nat × Nat)) (w : Nat) : Option Nat :=
  (held.find? (fun p => p.1 = w)).map (·.2)

def step (s : St) : Op → Option St
  | .pushBegin w =>
    if (heldBy s.held w).isSome then none else
    match s.openQ with
    | f :: rest => some { s with openQ := rest, held := (w, f) :: s.held }
    | [] =>
      some { s with files := s.files ++ [{ id := s.nextFile, batches := [], finished := false }],
                    held := (w, s.nextFile) :: s.held, nextFile := s.nextFile + 1 }
  | .pushEnd w v full =>
    match heldBy s.held w with
    | none => none
    | some f =>
      some { s with files := appendTo s.files f v full,
                    held := s.held.filter (fun p => ¬ p.1 = w),
                    openQ := if full then s.openQ else s.openQ ++ [f] }
  | .send _ m =>
    -- one channel: gate closed iff the channel is non-empty
    if s.chan.isEmpty then some { s with chan := [m] } else none
  | .dropSink =>
    if s.sinks = 0 then none
    else if s.sinks = 1 then
      -- last writer: finish every open file
      some { s with sinks := 0, openQ := [],
                    files := s.files.map (fun x => if s.openQ.contains x.id then { x with finished := true } else x) }
    else some { s with sinks := s.sinks - 1 }
  | .poll =>
    match s.rstate with
    | .readingMemory =>
      match s.chan with
      | [] => none
      | .mem v :: r => some { s with chan := r, out := s.out ++ [v] }
      | .spilled :: r => some { s with chan := r, rstate := .readingSpilled }
      | .done :: r => some { s with chan := r }
    | .readingSpilled =>
      match s.files with
      | [] => none
      | f :: fs =>
        match f.batches with
        | b :: bs =>
          some { s with files := { f with batches := bs } :: fs, rstate := .readingMemory,
                        out := s.out ++ [b] }
        | [] => if f.finished then some { s with files := fs } else none

/-- run a schedule; blocked actions are skipped (they will be retried) -/
def run (s : St) : List Op → St
  | [] => s
  | op :: ops => run ((step s op).getD s) ops

def stored (s : St) : List Nat := s.files.flatMap (·.batches)

/-- repair candidate (notes/C10_fix.patch): a file is put back into `open_write_files` only while it
    is still the NEWEST file of the pool; otherwise it is finished, exactly like a full file -/
def isNewest (s : St) (f : Nat) : Bool := s.files.getLast?.map (·.id) == some f

def stepFix (s : St) : Op → Option St
  | .pushEnd w v full =>
    match heldBy s.held w with
    | none => none
    | some f => step s (.pushEnd w v (full || !isNewest s f))
  | op => step s op

def runFix (s : St) : List Op → St
  | [] => s
  | op :: ops => runFix ((stepFix s op).getD s) ops


end DfModel.Mech.Exchange

/-! ### the single-producer instance (`spsc_channel`: preserve-order mode, one pool per input)

  With one sink there is never more than one open file and it is the newest one (a new file is only
  created when `open_write_files` is empty, i.e. after the previous one was finished), so the pool
  is a FIFO of finished files followed by at most one unfinished file.  That shape is built into
  this instance (assumption, see notes/C10.md); everything else is as above. -/
namespace DfModel.Mech.Exchange.Spsc

open DfModel.Mech.Exchange

structure St1 where
  finishedFiles : List (List Nat)      -- unread batches of the finished files, oldest first
  cur : Option (List Nat)              -- unread batches of the unfinished file
  alive : Bool                         -- the sink has not been dropped
  owed : Nat                           -- batches pushed whose `Spilled` marker was not yet accepted
  chan : List Msg
  rstate : RState
  out : List Nat
  deriving Repr, DecidableEq

def init1 : St1 :=
  { finishedFiles := [], cur := none, alive := true, owed := 0, chan := [], rstate := .readingMemory, out := [] }

inductive Op1 where
  | spill (v : Nat) (full : Bool)    -- `push_batch` (begin + end; nothing of this pool interleaves)
  | sendSpilled                      -- `sender.send(Some(Ok(Spilled)))`
  | sendMem (v : Nat)
  | sendDone
  | dropSink
  | poll
  deriving Repr, DecidableEq

def step1 (s : St1) : Op1 → Option St1
  | .spill v full =>
    if !s.alive ∨ s.owed ≠ 0 then none else
    let f := (s.cur.getD []) ++ [v]
    if full then some { s with finishedFiles := s.finishedFiles ++ [f], cur := none, owed := 1 }
    else some { s with cur := some f, owed := 1 }
  | .sendSpilled =>
    if s.owed = 0 then none
    else if s.chan.isEmpty then some { s with chan := [.spilled], owed := s.owed - 1 } else none
  | .sendMem v =>
    if s.owed ≠ 0 then none
    else if s.chan.isEmpty then some { s with chan := [.mem v] } else none
  | .sendDone =>
    if s.owed ≠ 0 then none
    else if s.chan.isEmpty then some { s with chan := [.done] } else none
  | .dropSink =>
    if !s.alive ∨ s.owed ≠ 0 then none
    else
      some { s with alive := false, cur := none,
                    finishedFiles := match s.cur with
                      | some f => s.finishedFiles ++ [f]
                      | none => s.finishedFiles }
  | .poll =>
    match s.rstate with
    | .readingMemory =>
      match s.chan with
      | [] => none
      | .mem v :: r => some { s with chan := r, out := s.out ++ [v] }
      | .spilled :: r => some { s with chan := r, rstate := .readingSpilled }
      | .done :: r => some { s with chan := r }
    | .readingSpilled =>
      match s.finishedFiles with
      | (b :: bs) :: fs =>
        some { s with finishedFiles := bs :: fs, rstate := .readingMemory, out := s.out ++ [b] }
      | [] :: fs => some { s with finishedFiles := fs }
      | [] =>
        match s.cur with
        | some (b :: bs) => some { s with cur := some bs, rstate := .readingMemory, out := s.out ++ [b] }
        | _ => none

def run1 (s : St1) : List Op1 → St1
  | [] => s
  | op :: ops => run1 ((step1 s op).getD s) ops

def stored1 (s : St1) : Nat := (s.finishedFiles.map List.length).sum + (s.cur.getD []).length
def markers (c : List Msg) : Nat := c.countP (· == .spilled)

/-! #### ghost bookkeeping and the guard `if batch.num_rows() == 0 { continue; }`

  `spill v` is `SpillPoolSink::push_batch` on a NON-EMPTY batch: it always stores `v`. That is what
  `pull_from_input`'s guard guarantees (schemes that forward a batch unchanged would otherwise hand
  zero-row batches to `OutputChannel::send`). `OpP.spillEmpty` is the same call on a ZERO-ROW batch,
  reachable only without the guard: `push_batch` returns `Ok(())` WITHOUT storing anything and the
  caller still sends a `Spilled` marker. -/

/-- batches pushed to the pool, `Spilled` markers accepted by the channel, and the values handed to
    `OutputChannel::send` in program order -/
structure Ghost where
  pushed : Nat
  markersSent : Nat
  sent : List Nat
  deriving Repr, DecidableEq

def ghost0 : Ghost := { pushed := 0, markersSent := 0, sent := [] }

/-- bookkeeping for an ACCEPTED step -/
def ghostStep (g : Ghost) : Op1 → Ghost
  | .spill v _ => { g with pushed := g.pushed + 1, sent := g.sent ++ [v] }
  | .sendSpilled => { g with markersSent := g.markersSent + 1 }
  | .sendMem v => { g with sent := g.sent ++ [v] }
  | _ => g

def run1g (s : St1) (g : Ghost) : List Op1 → St1 × Ghost
  | [] => (s, g)
  | op :: ops =>
    match step1 s op with
    | some s' => run1g s' (ghostStep g op) ops
    | none => run1g s g ops

/-- the protocol WITHOUT the zero-row guard -/
inductive OpP where
  | base (op : Op1)
  | spillEmpty
  deriving Repr, DecidableEq

def stepP (s : St1) : OpP → Option St1
  | .base op => step1 s op
  | .spillEmpty => if !s.alive ∨ s.owed ≠ 0 then none else some { s with owed := 1 }

def ghostStepP (g : Ghost) : OpP → Ghost
  | .base op => ghostStep g op
  | .spillEmpty => g            -- nothing pushed, no row sent

def runPg (s : St1) (g : Ghost) : List OpP → St1 × Ghost
  | [] => (s, g)
  | op :: ops =>
    match stepP s op with
    | some s' => runPg s' (ghostStepP g op) ops
    | none => runPg s g ops

/-- unread stored batches in pool order -/
def storedL (s : St1) : List Nat := s.finishedFiles.flatten ++ s.cur.getD []

/-- values sent and not yet delivered, in the order in which the reader will deliver them:
    the batch the reader is fetching, then the channel's message (an in-memory batch, or a marker
    standing for the next stored batch), then the stored batch whose marker is still to be sent -/
def inflightOf (rs : Bool) (chan : List Msg) (st : List Nat) : List Nat :=
  match chan with
  | [.mem v] => (if rs then st.take 1 else []) ++ [v] ++ (if rs then st.drop 1 else st)
  | _ => (if rs then st.take 1 else []) ++ (if rs then st.drop 1 else st)

def inflight (s : St1) : List Nat := inflightOf (s.rstate == .readingSpilled) s.chan (storedL s)

end DfModel.Mech.Exchange.Spsc
