/-
  Mech/Precision.lean — hand model of `Precision<usize>` (datafusion/common/src/stats.rs):
  `add / sub / multiply / min / max / to_inexact / with_estimated_selectivity`'s exactness logic
  and the `num_rows` part of `Statistics::with_fetch` (with `check_num_rows`).
  `usize` is 64 bit: checked arithmetic fails above `usizeMax`, then the saturating value is
  returned as `Inexact`.  Core Lean only.
-/
namespace DfModel.Mech.Precision

def usizeMax : Nat := 2 ^ 64 - 1

inductive P where
  | exact (n : Nat)
  | inexact (n : Nat)
  | absent
  deriving Repr, DecidableEq

/-- concretisation: `Exact n` claims the true value is `n`; the others claim nothing -/
def P.claims (p : P) (v : Nat) : Prop :=
  match p with
  | .exact n => v = n
  | _ => True

def P.toInexact : P → P
  | .exact n => .inexact n
  | p => p

def P.value? : P → Option Nat
  | .exact n | .inexact n => some n
  | .absent => none

def P.isExact? : P → Option Bool
  | .exact _ => some true
  | .inexact _ => some false
  | .absent => none

def sat (n : Nat) : Nat := if n ≤ usizeMax then n else usizeMax

def P.add : P → P → P
  | .exact a, .exact b => if a + b ≤ usizeMax then .exact (a + b) else .inexact usizeMax
  | .inexact a, .exact b | .exact a, .inexact b | .inexact a, .inexact b => .inexact (sat (a + b))
  | _, _ => .absent

def P.sub : P → P → P
  | .exact a, .exact b => if b ≤ a then .exact (a - b) else .inexact 0
  | .inexact a, .exact b | .exact a, .inexact b | .inexact a, .inexact b => .inexact (a - b)
  | _, _ => .absent

def P.mul : P → P → P
  | .exact a, .exact b => if a * b ≤ usizeMax then .exact (a * b) else .inexact usizeMax
  | .inexact a, .exact b | .exact a, .inexact b | .inexact a, .inexact b => .inexact (sat (a * b))
  | _, _ => .absent

def P.max : P → P → P
  | .exact a, .exact b => .exact (if a ≥ b then a else b)
  | .inexact a, .exact b | .exact a, .inexact b | .inexact a, .inexact b =>
    .inexact (if a ≥ b then a else b)
  | _, _ => .absent

def P.min : P → P → P
  | .exact a, .exact b => .exact (if a ≥ b then b else a)
  | .inexact a, .exact b | .exact a, .inexact b | .inexact a, .inexact b =>
    .inexact (if a ≥ b then b else a)
  | _, _ => .absent

/-- `check_num_rows(value, is_exact)`; `value = none` is an overflowed `checked_mul` -/
def checkNumRows (value : Option Nat) (isExact : Bool) : P :=
  match value with
  | some v => if isExact then .exact v else .inexact v
  | none => .absent

def checkedMul (a b : Nat) : Option Nat := if a * b ≤ usizeMax then some (a * b) else none

/-- `num_rows` after `Statistics::with_fetch(fetch, skip, n_partitions)` -/
def withFetchRows (rows : P) (fetch : Option Nat) (skip nPart : Nat) : P :=
  if fetch.isNone && skip == 0 then rows
  else
    let fetchVal := match fetch with | some f => f | none => usizeMax
    match rows with
    | .absent => checkNumRows (fetch.bind (fun v => checkedMul v nPart)) false
    | .exact nr | .inexact nr =>
      let ex := match rows with | .exact _ => true | _ => false
      if nr ≤ skip then checkNumRows (some 0) ex
      else if nr ≤ fetchVal && skip == 0 then rows
      else if nr - skip ≤ fetchVal then checkNumRows (checkedMul (nr - skip) nPart) ex
      else checkNumRows (checkedMul fetchVal nPart) ex

/-- the rows a LIMIT really produces from a list of rows -/
def limitRows {α : Type} (l : List α) (fetch : Option Nat) (skip : Nat) : List α :=
  match fetch with
  | some f => (l.drop skip).take f
  | none => l.drop skip

end DfModel.Mech.Precision
