/-
  C25 — the hive-style partition demultiplexer (datasource/src/write/demux.rs), row level.
  Core Lean only.

  A row is `(partition cells, data cells)`.  `compute_partition_keys_by_row` renders each partition
  cell to text WITHOUT looking at the validity bitmap (`array.value(i)`), so a NULL cell is rendered as
  the slot's default value ("" / "0" / "false"); `compute_take_arrays` groups row indices by the
  rendered key; `remove_partition_by_columns` drops the partition columns; the reader re-attaches the
  values parsed from the directory names.
-/
namespace DfModel.Mech.Demux

/-- a partition cell: `none` = NULL -/
inductive Cell where
  | str (s : List Nat)
  | int (i : Int)
  | bool (b : Bool)
  deriving DecidableEq, Repr

inductive Ty where
  | utf8 | int | bool
  deriving DecidableEq, Repr

def tyOf : Cell → Ty
  | .str _ => .utf8
  | .int _ => .int
  | .bool _ => .bool

/-- the value stored in a NULL slot of an arrow array built the usual way (zeroed / empty) -/
def nullSlot : Ty → Cell
  | .utf8 => .str []
  | .int => .int 0
  | .bool => .bool false

/-- what `array.value(i)` sees -/
def slot (ty : Ty) : Option Cell → Cell
  | some c => c
  | none => nullSlot ty

structure Row (D : Type) where
  part : List (Option Cell)
  data : D

/-- `compute_partition_keys_by_row` for one row: the key the row is filed under -/
def keyOf (tys : List Ty) (part : List (Option Cell)) : List Cell :=
  List.zipWith slot tys part

/-- `compute_take_arrays`: group rows by key, keeping first-seen key order and row order -/
def insertRow {K D : Type} [DecidableEq K] (k : K) (d : D) : List (K × List D) → List (K × List D)
  | [] => [(k, [d])]
  | (k', ds) :: rest => if k' = k then (k', ds ++ [d]) :: rest else (k', ds) :: insertRow k d rest

def demux {D : Type} (tys : List Ty) (rows : List (Row D)) : List (List Cell × List D) :=
  rows.foldl (fun acc r => insertRow (keyOf tys r.part) r.data acc) []

/-- reading back: every data row of a file gets the file's key as partition values (never NULL) -/
def readBack {D : Type} (files : List (List Cell × List D)) : List (Row D) :=
  files.flatMap (fun f => f.2.map (fun d => { part := f.1.map some, data := d }))

/-- the rows as they would have to read back for the property to hold at a row without NULL partition cells -/
def NoNullPart {D : Type} (r : Row D) : Prop := ∀ c ∈ r.part, c ≠ none

end DfModel.Mech.Demux
