/-
  C05 — model of `HashJoinExec` (datafusion/physical-plan/src/joins/hash_join/{exec,stream}.rs,
  joins/utils.rs, joins/join_hash_map.rs, joins/array_map.rs).  Core Lean only.

  The build side is always the LEFT input.  What is mirrored, branch for branch:

  * `collect_left_input` / `update_hash` / `ArrayMap::fill_data`: which build rows enter the map
    (`inMap`): under `NullEqualsNothing` rows with a NULL key are left out of the hash map; the
    dense `ArrayMap` ignores NULL keys and is only built for a single key column and, under
    `NullEqualsNull`, only when the build keys contain no NULL (`try_create_array_map`).
  * `state_after_build_ready`: the two short-circuits (empty build side / empty map) consulting
    `empty_build_side_produces_empty_result` and `empty_map_produces_empty_result`.
  * `fetch_probe_batch` + `process_probe_batch`: per probe batch the candidate pairs
    (hash-equal pairs, probe rows with unmatchable keys skipped — `matchable_join_keys`) are
    produced in probe-row order and consumed in *chunks* (the `limit`/`offset` protocol of
    `get_matched_indices_with_limit_offset`; here: ANY split of the candidate list, which covers
    both the chain path (chunks of `batch_size` candidates) and the unique-key path (chunks of
    `batch_size` probe rows)); per chunk: `equal_rows_arr` (hash collisions and NULL semantics),
    the residual filter (`apply_join_filter_to_indices`, NULL ⇒ dropped), marking the visited
    bitmap (only if `need_produce_result_in_final`), the *alignment range*
    `[joined_probe_idx+1 , (last chunk ? num_rows : last_joined+1 | 0))` and
    `adjust_indices_by_join_type` on that range.
  * `build_batch_empty_build_side` when the map is empty.
  * `process_unmatched_build_batch` / `get_final_indices_from_bit_map`: final emission from the
    visited bitmap.

  Indices are modelled as (row, index) pairs taken from `List.zipIdx`, so that `take` is a
  projection; ranges / membership tests are on the index component exactly as in the code.
  `get_anti_indices` / `get_semi_indices` / `get_mark_indices` / `append_right_indices` are
  modelled by their documented contracts (range ∖ indices, range ∩ indices without duplicates,
  bitmap of range, matched ++ unmatched); the order-preserving variant
  `append_probe_indices_in_order` emits the same bag and is not distinguished.
-/
import DfModel.Mech.JoinSpec
namespace DfModel.Mech.HashJoin
open DfModel.Mech.Join

/-- a row together with its index in its batch (`List.zipIdx` order) -/
abbrev IRow := Row × Nat
/-- a (build row, probe row) index pair -/
abbrev Pair := IRow × IRow

inductive MapKind where
  /-- `JoinHashMapU32/U64` with an arbitrary hash function of the key values -/
  | hash (h : List Val → Nat)
  /-- `ArrayMap` (perfect hash join on a dense single integer key) -/
  | array

/-- `matchable_join_keys`: under `NullEqualsNothing` a row is matchable iff no key is NULL -/
def matchable (nullEq : Bool) (k : List Val) : Bool := nullEq || k.all Option.isSome

/-- is build row `l` inserted into the map? -/
def inMap (mk : MapKind) (c : Cfg) (l : Row) : Bool :=
  match mk with
  | .hash _ => matchable c.nullEq (c.kl l)
  | .array => match c.kl l with
    | [some _] => true
    | _ => false

/-- candidate test performed by the map lookup for probe row `r` against build row `l` -/
def cand (mk : MapKind) (c : Cfg) (l r : Row) : Bool :=
  match mk with
  | .hash h => inMap mk c l && matchable c.nullEq (c.kr r) && h (c.kl l) == h (c.kr r)
  | .array => match c.kl l, c.kr r with
    | [some a], [some b] => a == b
    | _, _ => false

/-- `equal_rows_arr` (only on the hash-map path; with zero key columns it returns nothing) -/
def keyCheck (mk : MapKind) (c : Cfg) (l r : Row) : Bool :=
  match mk with
  | .hash _ => match c.kl l with
    | [] => false
    | k => keysEq c.nullEq k (c.kr r)
  | .array => true

/-- all candidate pairs of one probe batch, in probe-row order -/
def allCands (mk : MapKind) (c : Cfg) (Li Bi : List IRow) : List Pair :=
  Bi.flatMap fun r => (Li.filter fun l => cand mk c l.1 r.1).map fun l => (l, r)

/-- pairs surviving `equal_rows_arr` and the residual filter -/
def matchedOf (mk : MapKind) (c : Cfg) (C : List Pair) : List Pair :=
  C.filter fun p => keyCheck mk c p.1.1 p.2.1 && c.flt p.1.1 p.2.1

def probeIdxs (M : List Pair) : List Nat := M.map (·.2.2)
def buildIdxs (M : List Pair) : List Nat := M.map (·.1.2)

def lastJoined (M : List Pair) : Option Nat := M.getLast?.map (·.2.2)

def rangeStart : Option Nat → Nat
  | none => 0
  | some v => v + 1

def rangeEnd (isLast : Bool) (n : Nat) (lj : Option Nat) : Nat :=
  if isLast then n else
    match lj with
    | none => 0
    | some v => v + 1

def inRange (s e i : Nat) : Bool := decide (s ≤ i) && decide (i < e)

/-- `adjust_indices_by_join_type` + `build_batch_from_indices` on the alignment range `[s,e)` -/
def adjust (c : Cfg) (M : List Pair) (s e : Nat) (Bi : List IRow) : List Row :=
  let inner := M.map fun p => p.1.1 ++ p.2.1
  let hit := fun (r : IRow) => (probeIdxs M).contains r.2
  match c.jt with
  | .inner | .left => inner
  | .right | .full =>
    inner ++ (Bi.filter fun r => inRange s e r.2 && !hit r).map fun r => nulls c.wl ++ r.1
  | .rightSemi => (Bi.filter fun r => inRange s e r.2 && hit r).map (·.1)
  | .rightAnti => (Bi.filter fun r => inRange s e r.2 && !hit r).map (·.1)
  | .rightMark => (Bi.filter fun r => inRange s e r.2).map fun r => r.1 ++ [markVal (hit r)]
  | .leftSemi | .leftAnti | .leftMark => []

/-- `ProcessProbeBatchState::advance` -/
def chunkJoined (mk : MapKind) (c : Cfg) (joined : Option Nat) (C : List Pair) : Option Nat :=
  (lastJoined (matchedOf mk c C)).or joined

/-- one call of `process_probe_batch` on one chunk of candidates -/
def chunkOut (mk : MapKind) (c : Cfg) (Bi : List IRow) (n : Nat) (isLast : Bool)
    (joined : Option Nat) (C : List Pair) : List Row :=
  let M := matchedOf mk c C
  adjust c M (rangeStart joined) (rangeEnd isLast n (lastJoined M)) Bi

/-- all calls of `process_probe_batch` for one probe batch: non-final chunks, then the final one
    (`next_offset = None`) -/
def runChunks (mk : MapKind) (c : Cfg) (Bi : List IRow) (n : Nat) :
    Option Nat → List (List Pair) → List Pair → List Row
  | joined, [], last => chunkOut mk c Bi n true joined last
  | joined, C :: rest, last =>
    chunkOut mk c Bi n false joined C ++ runChunks mk c Bi n (chunkJoined mk c joined C) rest last

/-- cut a list at the given successive sizes; the remainder is the final chunk -/
def splitBy {α : Type} : List Nat → List α → List (List α) × List α
  | [], xs => ([], xs)
  | k :: ks, xs => ((xs.take k) :: (splitBy ks (xs.drop k)).1, (splitBy ks (xs.drop k)).2)

/-- `build_batch_empty_build_side` -/
def emptyBuildBatch (c : Cfg) (B : List Row) : List Row :=
  if c.jt.emptyBuildEmpty then [] else
    match c.jt with
    | .rightAnti => B
    | .rightMark => B.map fun r => r ++ [markVal false]
    | _ => B.map fun r => nulls c.wl ++ r

/-- a probe batch together with the sizes at which its candidate list is cut into chunks -/
structure Batch where
  rows : List Row
  cuts : List Nat

/-- `process_probe_batch` over a whole batch: output rows and the build indices marked visited -/
def probeBatch (mk : MapKind) (c : Cfg) (L : List Row) (b : Batch) : List Row × List Nat :=
  if !(L.any (inMap mk c)) then (emptyBuildBatch c b.rows, [])
  else
    let Li := L.zipIdx
    let Bi := b.rows.zipIdx
    let C := allCands mk c Li Bi
    let sp := splitBy b.cuts C
    (runChunks mk c Bi b.rows.length none sp.1 sp.2,
      if c.jt.needFinal then buildIdxs (matchedOf mk c C) else [])

/-- `process_unmatched_build_batch` + `get_final_indices_from_bit_map` + `build_batch_from_indices` -/
def finalEmit (c : Cfg) (Li : List IRow) (visited : List Nat) : List Row :=
  if !c.jt.needFinal then [] else
    match c.jt with
    | .leftMark => Li.map fun l => l.1 ++ [markVal (visited.contains l.2)]
    | .leftSemi => (Li.filter fun l => visited.contains l.2).map (·.1)
    | .leftAnti => (Li.filter fun l => !visited.contains l.2).map (·.1)
    | _ => (Li.filter fun l => !visited.contains l.2).map fun l => l.1 ++ nulls c.wr

/-- the visited bitmap after all probe batches -/
def visitedAll (mk : MapKind) (c : Cfg) (L : List Row) (batches : List Batch) : List Nat :=
  batches.flatMap fun b => (probeBatch mk c L b).2

/-- **the operator**: `HashJoinStream` from `WaitBuildSide` to `Completed` -/
def hashJoin (mk : MapKind) (c : Cfg) (L : List Row) (batches : List Batch) : List Row :=
  if (L.isEmpty && c.jt.emptyBuildEmpty) || (!(L.any (inMap mk c)) && c.jt.emptyMapEmpty) then []
  else
    (batches.flatMap fun b => (probeBatch mk c L b).1)
      ++ finalEmit c L.zipIdx (visitedAll mk c L batches)

/-- when may the map kind be used (`HashJoinExec` rejects an empty `on`; `try_create_array_map`) -/
def Eligible (mk : MapKind) (c : Cfg) (L : List Row) : Prop :=
  match mk with
  | .hash _ => ∀ l ∈ L, c.kl l ≠ []
  | .array => (∀ l ∈ L, ∃ v, c.kl l = [v]) ∧ (∀ r, ∃ v, c.kr r = [v]) ∧
      (c.nullEq = true → ∀ l ∈ L, c.kl l ≠ [none])

/-- chunking by an output limit: cut after every `limit` candidates -/
def limitCuts (limit len : Nat) : List Nat := List.replicate (len / limit) limit

/-- partitioned mode: both inputs are split by a function of the key; each partition is joined
    independently and the outputs are concatenated -/
def partitionedHashJoin (mk : MapKind) (c : Cfg) (nparts : Nat) (part : List Val → Nat)
    (L : List Row) (batchesOf : Nat → List Batch) : List Row :=
  (List.range nparts).flatMap fun k =>
    hashJoin mk c (L.filter fun l => part (c.kl l) == k) (batchesOf k)

end DfModel.Mech.HashJoin
