/-
  L3 — vocabulary for the expression-simplifier rule models (C04).  Core Lean only.

  A rewrite `a ⟶ b` is sound when `b` evaluates to `a`'s value on every row on which `a` evaluates
  without error (`Refines a b`).  The NULL-sensitive rules of `expr_simplifier.rs` are guarded by
  `!info.nullable(A)`; here the guard is the semantic hypothesis `NonNull A`.
-/
import DfModel.Sql.Expr
namespace DfModel.Simp
open DfModel

def okB {ε α : Type} : Except ε α → Bool
  | .ok _ => true
  | .error _ => false

/-- `b` has `a`'s value wherever `a` evaluates -/
def Refines (a b : Expr) : Prop := ∀ ρ env, okB (eval a ρ env) = true → eval b ρ env = eval a ρ env

theorem Refines.val {a b : Expr} (h : Refines a b) (ρ : Row) (env : Env) (v : Val)
    (hv : eval a ρ env = .ok v) : eval b ρ env = .ok v := by
  rw [h ρ env (by rw [hv]; rfl), hv]

/-- the guard `!info.nullable(A)` -/
def NonNull (a : Expr) : Prop := ∀ ρ env, eval a ρ env ≠ .ok .null

/-- a value of a declared integer type lies in that type's range (what a typed column holds) -/
def Val.wf : Val → Bool
  | .int w s n => decide (0 < w) && inRange w s n
  | _ => true

def Wf (a : Expr) : Prop := ∀ ρ env v, eval a ρ env = .ok v → Val.wf v = true

/-- `a` has integer type `(w, s)`: it only ever yields NULL or an in-range `w`-bit integer -/
def HasIntTy (a : Expr) (w : Nat) (s : Bool) : Prop :=
  ∀ ρ env v, eval a ρ env = .ok v → v = .null ∨ ∃ n, v = .int w s n ∧ inRange w s n = true

/-- `Operator::negate` restricted to the modelled operators (datafusion/expr-common/src/operator.rs) -/
def negateOp : BinOp → Option BinOp
  | .eq => some .ne
  | .ne => some .eq
  | .lt => some .ge
  | .le => some .gt
  | .gt => some .le
  | .ge => some .lt
  | .distinct => some .notDistinct
  | .notDistinct => some .distinct
  | _ => none

/-- `Operator::swap` -/
def swapOp : BinOp → Option BinOp
  | .eq => some .eq
  | .ne => some .ne
  | .lt => some .gt
  | .le => some .ge
  | .gt => some .lt
  | .ge => some .le
  | .distinct => some .distinct
  | .notDistinct => some .notDistinct
  | _ => none

/-! unfolding lemmas for `eval` -/
theorem eval_col (i : Nat) (ρ : Row) (env : Env) (v : Val) (h : ρ[i]? = some v) :
    eval (.col i) ρ env = .ok v := by rw [eval, h]
theorem eval_lit (v : Val) (ρ : Row) (env : Env) : eval (.lit v) ρ env = .ok v := by rw [eval]
theorem eval_bin (op : BinOp) (a b : Expr) (ρ : Row) (env : Env) :
    eval (.bin op a b) ρ env = (eval a ρ env >>= fun x => eval b ρ env >>= fun y => evalBin op x y) := by
  rw [eval]
theorem eval_not (a : Expr) (ρ : Row) (env : Env) : eval (.not a) ρ env = (eval a ρ env >>= evalNot) := by
  rw [eval]
theorem eval_neg (a : Expr) (ρ : Row) (env : Env) : eval (.neg a) ρ env = (eval a ρ env >>= evalNeg) := by
  rw [eval]
theorem eval_is (k : IsKind) (n : Bool) (a : Expr) (ρ : Row) (env : Env) :
    eval (.is k n a) ρ env = (eval a ρ env >>= evalIs k n) := by rw [eval]
theorem eval_cast (ty : Ty) (t : Bool) (a : Expr) (ρ : Row) (env : Env) :
    eval (.cast ty t a) ρ env = (eval a ρ env >>= evalCast ty t) := by rw [eval]
theorem eval_between (n : Bool) (a lo hi : Expr) (ρ : Row) (env : Env) :
    eval (.between n a lo hi) ρ env = (do
      let x ← eval a ρ env
      let l ← eval lo ρ env
      let h ← eval hi ρ env
      let c1 ← evalBin .ge x l
      let c2 ← evalBin .le x h
      let r ← evalBin .and c1 c2
      if n then evalNot r else pure r) := by rw [eval]
theorem eval_inList (n : Bool) (a : Expr) (l : List Expr) (ρ : Row) (env : Env) :
    eval (.inList n a l) ρ env = (do
      let x ← eval a ρ env
      let vs ← evalList l ρ env
      let r ← inListTri x vs
      pure (if n then r.not.toVal else r.toVal)) := by rw [eval]
theorem evalList_nil (ρ : Row) (env : Env) : evalList [] ρ env = .ok [] := by rw [evalList]
theorem evalList_cons (e : Expr) (es : List Expr) (ρ : Row) (env : Env) :
    evalList (e :: es) ρ env = (do
      let v ← eval e ρ env
      let vs ← evalList es ρ env
      pure (v :: vs)) := by rw [evalList]

end DfModel.Simp
