/-
  Mech/OrderProps.lean — the concretisation γ of declared plan properties
  (`EquivalenceProperties` orderings / constants / equivalence classes, `Partitioning::Hash`)
  as executable judges over exported rows, and a stable sort to state what "the ordering holds"
  buys (sort elimination).  Values are nullable integers (the harness evaluates every declared
  expression on the produced batches and exports the resulting key columns).  Core Lean only.
-/
namespace DfModel.Mech.OrderProps

/-- `SortOptions` -/
structure SortOpt where
  desc : Bool
  nullsFirst : Bool
  deriving Repr, DecidableEq

abbrev Key := List (Option Int)

/-- compare one sort key value under `SortOptions` (arrow row order): NULLs first/last
    independently of `descending`, values reversed when descending -/
def cmpVal (o : SortOpt) : Option Int → Option Int → Ordering
  | none, none => .eq
  | none, some _ => if o.nullsFirst then .lt else .gt
  | some _, none => if o.nullsFirst then .gt else .lt
  | some a, some b =>
    if a = b then .eq
    else if (a < b) != o.desc then .lt else .gt

/-- lexicographic comparison (`compare_rows`) -/
def cmpKeys : List SortOpt → Key → Key → Ordering
  | o :: os, a :: as, b :: bs =>
    match cmpVal o a b with
    | .eq => cmpKeys os as bs
    | r => r
  | _, _, _ => .eq

def le (os : List SortOpt) (a b : Key) : Bool := cmpKeys os a b != .gt

/-- every earlier row is ≤ every later row (no transitivity needed to use it) -/
def allLe (os : List SortOpt) (x : Key) : List Key → Bool
  | [] => true
  | y :: ys => le os x y && allLe os x ys

def sortedJudge (os : List SortOpt) : List Key → Bool
  | [] => true
  | x :: xs => allLe os x xs && sortedJudge os xs

/-- index of the first row that is greater than some later row (for the `bad:` message) -/
def firstUnsorted (os : List SortOpt) : List Key → Nat → Option Nat
  | [], _ => none
  | x :: xs, i => if allLe os x xs then firstUnsorted os xs (i + 1) else some i

/-- stable insertion sort by the declared ordering: what a `SortExec` would produce -/
def insertKey (os : List SortOpt) (x : Key) : List Key → List Key
  | [] => [x]
  | y :: ys => if le os x y then x :: y :: ys else y :: insertKey os x ys

def sortBy (os : List SortOpt) : List Key → List Key
  | [] => []
  | x :: xs => insertKey os x (sortBy os xs)

/-- constants: one value on all rows -/
def constJudge : List (Option Int) → Bool
  | [] => true
  | x :: xs => xs.all (· == x)

/-- equivalence class: on every row all member expressions have the same value -/
def eqClassJudge (rows : List Key) : Bool := rows.all constJudge

/-- hash partitioning: no key value occurs in two different partitions -/
def colocJudge : List (List Key) → Bool
  | [] => true
  | p :: ps => p.all (fun k => ps.all (fun q => !q.contains k)) && colocJudge ps

end DfModel.Mech.OrderProps
