-- This module serves as the root of the `DfModel` library.
-- Import modules here that should be built as part of the library.
import DfModel.Basic
