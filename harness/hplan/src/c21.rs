//! C21 — spill files round-trip exactly; disk usage accounting stays exact.
//!
//! (a) accounting: random histories of create / clone / drop / write{ok, rejected by limit,
//!     failing in write_all through RLIMIT_FSIZE} / set-limit on the real `DiskManager`,
//!     compared op by op with the Lean state machine `Sm.Disk` (equality), plus the
//!     implementation-level oracle `used_disk_space() == Σ size() of live files` after every op
//!     and `== 0` after releasing everything.
//! (b) round trip: `SpillManager::spill_record_batch_and_finish` → `read_spill_as_stream` over
//!     batch sequences of several types (views, dictionaries, nested, sliced, empty) × codecs;
//!     implementation-level oracle: same batches, same order (FIFO list spec).
use std::io::Write;
use std::sync::Arc;

use arrow::array::*;
use arrow::datatypes::{DataType, Field, Int32Type, Schema};
use datafusion_common::config::SpillCompression;
use datafusion_execution::disk_manager::{DiskManager, DiskManagerBuilder, DiskManagerMode};
use datafusion_execution::runtime_env::RuntimeEnvBuilder;
use datafusion_execution::{SpillFile, SpillWriter};
use datafusion_physical_plan::SpillManager;
use datafusion_physical_plan::metrics::{ExecutionPlanMetricsSet, SpillMetrics};
use futures::StreamExt;
use hutil::{Args, Rng, Run};

/// run `f` while the process file-size limit is 0 (every write to a regular file fails with
/// EFBIG; SIGXFSZ ignored).  The harness is single-threaded here.
fn with_fsize_zero<T>(f: impl FnOnce() -> T) -> T {
    unsafe {
        libc::signal(libc::SIGXFSZ, libc::SIG_IGN);
        let mut old: libc::rlimit = std::mem::zeroed();
        libc::getrlimit(libc::RLIMIT_FSIZE, &mut old);
        let new = libc::rlimit { rlim_cur: 0, rlim_max: old.rlim_max };
        libc::setrlimit(libc::RLIMIT_FSIZE, &new);
        let r = f();
        libc::setrlimit(libc::RLIMIT_FSIZE, &old);
        r
    }
}

/// run `f` while the process file-size limit is `limit` bytes: a write that would extend a file
/// beyond it is cut short by the OS (the first `write(2)` is partial, the retry fails with EFBIG).
fn with_fsize_limit<T>(limit: u64, f: impl FnOnce() -> T) -> T {
    unsafe {
        libc::signal(libc::SIGXFSZ, libc::SIG_IGN);
        let mut old: libc::rlimit = std::mem::zeroed();
        libc::getrlimit(libc::RLIMIT_FSIZE, &mut old);
        let new = libc::rlimit { rlim_cur: limit as libc::rlim_t, rlim_max: old.rlim_max };
        libc::setrlimit(libc::RLIMIT_FSIZE, &new);
        let r = f();
        libc::setrlimit(libc::RLIMIT_FSIZE, &old);
        r
    }
}

struct LiveFile {
    id: usize,
    handles: Vec<Arc<dyn SpillFile>>,
    writer: Option<Box<dyn SpillWriter>>,
    /// bytes physically in the file (accepted writes + the accepted part of cut-short writes)
    phys: u64,
}

fn accounting(run: &mut Run, rng: &mut Rng) {
    let n_hist = run.budget(1500, 40_000);
    let sizes: [u64; 8] = [0, 1, 7, 30, 100, 1000, 4096, 70_000];
    for h in 0..n_hist {
        let limit0 = *rng.pick(&[0u64, 50, 100, 1000, 5000, 100_000, 1 << 40]);
        let dm: Arc<DiskManager> = Arc::new(
            DiskManagerBuilder::default()
                .with_mode(DiskManagerMode::OsTmpDirectory)
                .with_max_temp_directory_size(limit0)
                .build()
                .unwrap(),
        );
        let len = 3 + rng.below(if run.thorough() { 40 } else { 16 }) as usize;
        let mut live: Vec<LiveFile> = vec![];
        let mut next_id = 0usize;
        let mut req = format!("({limit0}");
        let mut ans: Vec<String> = vec![];
        let mut kinds = std::collections::BTreeSet::new();
        let mut oracle_ok = true;
        let mut oracle_detail = String::new();
        for _ in 0..len {
            let choice = rng.below(100);
            let tag: String;
            if live.is_empty() || choice < 15 {
                let f = dm.create_tmp_file("verif").unwrap();
                live.push(LiveFile { id: next_id, handles: vec![f], writer: None, phys: 0 });
                req.push_str(" (create)");
                tag = format!("created:{next_id}");
                next_id += 1;
                kinds.insert("create");
            } else if choice < 25 {
                let i = rng.below(live.len() as u64) as usize;
                let c = Arc::clone(&live[i].handles[0]);
                live[i].handles.push(c);
                req.push_str(&format!(" (clone {})", live[i].id));
                tag = "done".into();
                kinds.insert("clone");
            } else if choice < 45 {
                let i = rng.below(live.len() as u64) as usize;
                req.push_str(&format!(" (drop {})", live[i].id));
                live[i].handles.pop();
                if live[i].handles.is_empty() {
                    // the writer does not keep the temp file alive; drop it with the file
                    live.remove(i);
                }
                tag = "done".into();
                kinds.insert("drop");
            } else if choice < 55 {
                let n = *rng.pick(&[0u64, 10, 64, 100, 1000, 4000, 100_000, 1 << 40]);
                dm.set_max_temp_directory_size(n).unwrap();
                req.push_str(&format!(" (limit {n})"));
                tag = "done".into();
                kinds.insert("limit");
            } else {
                let i = rng.below(live.len() as u64) as usize;
                let n = *rng.pick(&sizes);
                let fail = rng.chance(1, 4);
                req.push_str(&format!(" (write {} {} {})", live[i].id, n, if fail { "fail" } else { "ok" }));
                if live[i].writer.is_none() {
                    live[i].writer = Some(live[i].handles[0].open_writer().unwrap());
                }
                let buf = vec![0xabu8; n as usize];
                // fault flavour: whole call fails (limit 0) or the OS cuts the write short
                // strictly inside the buffer (limit = physical size + k, 0 < k < n)
                let short = fail && n >= 2 && rng.chance(1, 2);
                let phys = live[i].phys;
                let w = live[i].writer.as_mut().unwrap();
                let res = if short {
                    let k = 1 + rng.below(n - 1);
                    let r = with_fsize_limit(phys + k, || w.write(&buf));
                    // unless the write was rejected by the disk-manager limit before touching
                    // the file, k bytes are now physically in it, whatever the writer reports
                    let rejected = matches!(&r, Err(e) if e.to_string().contains("exceeded the allowable limit"));
                    if !rejected {
                        live[i].phys = phys + k;
                        kinds.insert("write-cut-short");
                    }
                    r
                } else if fail {
                    with_fsize_zero(|| w.write(&buf))
                } else {
                    w.write(&buf)
                };
                if let (Ok(k), false) = (&res, short) {
                    live[i].phys += *k as u64;
                }
                tag = match res {
                    Ok(k) => {
                        kinds.insert("write-ok");
                        format!("wrote:{k}")
                    }
                    Err(e) => {
                        let m = e.to_string();
                        if m.contains("exceeded the allowable limit") {
                            kinds.insert("write-rejected");
                            "rejected".into()
                        } else {
                            kinds.insert("write-ioerr");
                            "ioerr".into()
                        }
                    }
                };
            }
            let used = dm.used_disk_space();
            let sum: u64 = live.iter().map(|f| f.handles[0].size().unwrap_or(0)).sum();
            ans.push(format!("{tag}/{used}/{sum}"));
            if used != sum && oracle_ok {
                oracle_ok = false;
                oracle_detail = format!("after `{req})`: used_disk_space()={used} but live files hold {sum} bytes");
            }
        }
        req.push(')');
        // release everything: usage must return to zero
        live.clear();
        let used_end = dm.used_disk_space();
        if used_end != 0 && oracle_ok {
            oracle_ok = false;
            oracle_detail = format!("after history `{req}` and releasing every file: used_disk_space()={used_end}, expected 0");
        }
        for k in &kinds {
            run.count(k);
        }
        let nontrivial = kinds.len() >= 3;
        run.case("run", &req, &ans.join(" "), nontrivial);
        run.oracle(oracle_ok, &format!("accounting history#{h} {req}"), &oracle_detail);
    }
}

fn make_batches(rng: &mut Rng, kind: u64) -> (Arc<Schema>, Vec<RecordBatch>) {
    let nb = rng.below(4) as usize + 1;
    // kinds >= 4 carry view data large enough (> 10 KiB per column) to trigger the pre-spill
    // view GC, flat and nested under List / Struct / Dictionary parents with their own NULLs
    let big = kind >= 4;
    let mut mk = |rng: &mut Rng, rows: usize| -> Vec<ArrayRef> {
        let ints: Int64Array = (0..rows).map(|_| if rng.chance(1, 5) { None } else { Some(rng.range(-3, 1000)) }).collect();
        let strs: Vec<Option<String>> = (0..rows)
            .map(|_| {
                if rng.chance(1, 6) {
                    None
                } else {
                    let l = if big { *rng.pick(&[13usize, 40, 64]) } else { *rng.pick(&[0usize, 1, 5, 12, 13, 40]) };
                    Some((0..l).map(|_| (b'a' + rng.below(26) as u8) as char).collect())
                }
            })
            .collect();
        match kind {
            0 => vec![Arc::new(ints), Arc::new(StringArray::from(strs))],
            1 | 4 => vec![Arc::new(ints), Arc::new(StringViewArray::from(strs))],
            2 => {
                let d: DictionaryArray<Int32Type> = strs.iter().map(|s| s.as_deref()).collect();
                vec![Arc::new(ints), Arc::new(d)]
            }
            3 => {
                let mut b = ListBuilder::new(Int64Builder::new());
                for _ in 0..rows {
                    if rng.chance(1, 5) {
                        b.append(false);
                    } else {
                        for _ in 0..rng.below(4) {
                            b.values().append_value(rng.range(0, 9));
                        }
                        b.append(true);
                    }
                }
                vec![Arc::new(ints), Arc::new(b.finish())]
            }
            5 => {
                // List<Utf8View> with NULL lists
                let mut b = ListBuilder::new(StringViewBuilder::new());
                for s in &strs {
                    if rng.chance(1, 4) {
                        b.append(false);
                    } else {
                        for _ in 0..1 + rng.below(2) {
                            b.values().append_option(s.as_deref());
                        }
                        b.append(true);
                    }
                }
                vec![Arc::new(ints), Arc::new(b.finish())]
            }
            6 => {
                // Struct{v: Utf8View} with NULL structs
                let child: ArrayRef = Arc::new(StringViewArray::from(strs.clone()));
                let nulls: Vec<bool> = (0..rows).map(|_| !rng.chance(1, 4)).collect();
                let st = StructArray::new(
                    vec![Field::new("v", DataType::Utf8View, true)].into(),
                    vec![child],
                    Some(arrow::buffer::NullBuffer::from(nulls)),
                );
                vec![Arc::new(ints), Arc::new(st)]
            }
            _ => {
                // Dictionary<Int32, Utf8View> with NULL keys
                let values: ArrayRef = Arc::new(StringViewArray::from(
                    strs.iter().map(|s| Some(s.clone().unwrap_or_else(|| "a-default-value-longer-than-12".into()))).collect::<Vec<_>>(),
                ));
                let keys: Int32Array = (0..rows).map(|i| if rng.chance(1, 4) { None } else { Some(((i * 7) % rows) as i32) }).collect();
                let d = DictionaryArray::<Int32Type>::try_new(keys, values).unwrap();
                vec![Arc::new(ints), Arc::new(d)]
            }
        }
    };
    let f1 = match kind {
        0 => Field::new("s", DataType::Utf8, true),
        1 | 4 => Field::new("s", DataType::Utf8View, true),
        2 => Field::new("s", DataType::Dictionary(Box::new(DataType::Int32), Box::new(DataType::Utf8)), true),
        3 => Field::new("s", DataType::List(Arc::new(Field::new_list_field(DataType::Int64, true))), true),
        5 => Field::new("s", DataType::List(Arc::new(Field::new_list_field(DataType::Utf8View, true))), true),
        6 => Field::new("s", DataType::Struct(vec![Field::new("v", DataType::Utf8View, true)].into()), true),
        _ => Field::new("s", DataType::Dictionary(Box::new(DataType::Int32), Box::new(DataType::Utf8View)), true),
    };
    let schema = Arc::new(Schema::new(vec![Field::new("i", DataType::Int64, true), f1]));
    let mut out = vec![];
    for _ in 0..nb {
        let rows = if big { *rng.pick(&[0usize, 1, 300, 450]) } else { *rng.pick(&[0usize, 1, 3, 17, 100]) };
        let off = *rng.pick(&[0usize, 1, 2, 7, 8, 9]);
        let extra = if big { 400 } else { 4 };
        let cols = mk(rng, rows + off + extra);
        let full = RecordBatch::try_new(schema.clone(), cols).unwrap();
        // sliced batch (random offset) of `rows` rows
        out.push(full.slice(off, rows));
    }
    (schema, out)
}

fn rows_of(b: &RecordBatch) -> Vec<String> {
    use arrow::util::display::{ArrayFormatter, FormatOptions};
    let opt = FormatOptions::default().with_null("NULL");
    let fs: Vec<_> = b.columns().iter().map(|c| ArrayFormatter::try_new(c.as_ref(), &opt).unwrap()).collect();
    (0..b.num_rows()).map(|r| fs.iter().map(|f| f.value(r).to_string()).collect::<Vec<_>>().join("|")).collect()
}

fn roundtrip(run: &mut Run, rng: &mut Rng) {
    let n = run.budget(120, 4000);
    let rt = tokio::runtime::Builder::new_current_thread().enable_all().build().unwrap();
    for i in 0..n {
        let kind = rng.below(8);
        let codec = match rng.below(3) {
            0 => SpillCompression::Uncompressed,
            1 => SpillCompression::Lz4Frame,
            _ => SpillCompression::Zstd,
        };
        let (schema, batches) = make_batches(rng, kind);
        let env = Arc::new(RuntimeEnvBuilder::new().build().unwrap());
        let metrics = SpillMetrics::new(&ExecutionPlanMetricsSet::new(), 0);
        let sm = SpillManager::new(env.clone(), metrics, schema.clone()).with_compression_type(codec);
        let want: Vec<Vec<String>> = batches.iter().filter(|b| b.num_rows() > 0).map(rows_of).collect();
        let res: Result<Vec<Vec<String>>, String> = rt.block_on(async {
            let file = sm.spill_record_batch_and_finish(&batches, "verif").map_err(|e| e.to_string())?;
            let mut got = vec![];
            if let Some(file) = file {
                let mut st = sm.read_spill_as_stream(file, None).map_err(|e| e.to_string())?;
                while let Some(b) = st.next().await {
                    let b = b.map_err(|e| e.to_string())?;
                    if b.schema().fields() != schema.fields() {
                        return Err(format!("schema changed: {:?}", b.schema()));
                    }
                    got.push(rows_of(&b));
                }
            }
            Ok(got)
        });
        // empty batches may or may not be materialised; compare the row sequence and,
        // for non-empty batches, the batch boundaries
        let ok = match &res {
            Ok(got) => {
                let g: Vec<&Vec<String>> = got.iter().filter(|b| !b.is_empty()).collect();
                let w: Vec<&Vec<String>> = want.iter().collect();
                g == w
            }
            Err(_) => false,
        };
        run.count(&format!("roundtrip_kind{kind}"));
        run.oracle(
            ok,
            &format!("roundtrip#{i} kind={kind} codec={codec:?}"),
            &format!("wrote {:?} read {:?}", want, res),
        );
        drop(sm);
        let used = env.disk_manager.used_disk_space();
        run.oracle(used == 0, &format!("roundtrip#{i} usage-after-release"), &format!("used_disk_space()={used} after the spill file was dropped"));
    }
}

pub fn run(run: &mut Run, args: &Args) {
    let mut rng = Rng::new(args.seed);
    accounting(run, &mut rng);
    roundtrip(run, &mut rng);
}
