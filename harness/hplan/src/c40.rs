//! C40 — file caches: LRU/TTL validity rules and memory budget.
//!
//! (a) `generic`: the real `DefaultCache<K, V>` with harness key/value types (explicit key size,
//!     value size, table reference) and a mock `TimeProvider`; random histories of
//!     put / get / contains_key / remove / clear / update_cache_limit / update_cache_ttl /
//!     advance-clock / drop_table_entries over ≤ 5 keys, value sizes at limit−1 / limit / limit+1,
//!     zero-size values; after EVERY op the return value, `len`, `memory_used`, `cache_limit`,
//!     `cache_ttl` and `list_entries` (sorted; value, size_bytes, hits, expires) are compared with
//!     the Lean state machine `Sm.Lru` (equality).
//! (b) `exhaustive`: all histories up to a small length over a 2-key alphabet.
//! (c) `files`: the real `DefaultCache<Path, CachedFileMetadataEntry>` (file-metadata cache) and
//!     `DefaultCache<TableScopedPath, CachedFileMetadata>` (statistics cache) driven through the
//!     engine's usage pattern get → `is_valid_for` → else recompute + put, over files that are
//!     rewritten (size / mtime / schema change) between lookups; the real `CacheKey::size` /
//!     `CacheValue::size` are what the model receives.
//! (d) `listing`: the real `DefaultCache<TableScopedPath, CachedFileList>` with TTL and
//!     `drop_table_entries`, pattern get → miss → list + put (as `list_with_cache`).
//!
//! Implementation-level oracles (no model): `memory_used == Σ(key.size + size_bytes)` and
//! `≤ cache_limit` after every op, `len == |list_entries|`, a `get` hit returns the last value put
//! under the key, hits are within the TTL of that put, evicted entries are less recently used than
//! surviving ones, `drop_table_entries` removes exactly that table, a cached value is used only for
//! an unchanged file.
use std::collections::{BTreeMap, BTreeSet};
use std::sync::{Arc, Mutex};
use std::time::{Duration, UNIX_EPOCH};

use arrow::datatypes::{DataType, Field, Schema};
use datafusion_common::instant::Instant;
use datafusion_common::stats::Precision;
use datafusion_common::{HashMap, Statistics, TableReference};
use datafusion_execution::cache::cache_manager::{CachedFileList, CachedFileMetadata, CachedFileMetadataEntry, FileMetadata};
use datafusion_execution::cache::default_cache::{DefaultCache, TimeProvider};
use datafusion_execution::cache::{Cache, CacheKey, CacheValue, SchemaFingerprint, TableScopedPath};
use hutil::{Args, Rng, Run};
use object_store::ObjectMeta;
use object_store::path::Path;

// ------------------------------------------------------------------------------------------
struct MockTime {
    base: Instant,
    offset: Mutex<Duration>,
}
impl MockTime {
    fn new() -> Arc<Self> {
        Arc::new(MockTime { base: Instant::now(), offset: Mutex::new(Duration::ZERO) })
    }
    fn advance(&self, ms: u64) {
        *self.offset.lock().unwrap() += Duration::from_millis(ms);
    }
    fn now_ms(&self) -> u64 {
        self.offset.lock().unwrap().as_millis() as u64
    }
}
impl TimeProvider for MockTime {
    fn now(&self) -> Instant {
        self.base + *self.offset.lock().unwrap()
    }
}

#[derive(Clone, PartialEq, Eq, Hash, Debug)]
struct HK {
    id: u64,
    size: usize,
    table: Option<TableReference>,
}
impl CacheKey for HK {
    fn size(&self) -> usize {
        self.size
    }
    fn table_ref(&self) -> Option<&TableReference> {
        self.table.as_ref()
    }
}
#[derive(Clone, PartialEq, Debug)]
struct HV {
    id: u64,
    size: usize,
}
impl CacheValue for HV {
    fn size(&self) -> usize {
        self.size
    }
}

fn table(i: u64) -> TableReference {
    TableReference::bare(format!("t{i}"))
}
fn tbl_txt(t: Option<u64>) -> String {
    t.map(|x| x.to_string()).unwrap_or_else(|| "-".into())
}

/// what every cache exposes after an op, in the canonical text both sides print
/// `<len>/<memory_used>/<limit>/<ttl>/[<key>=<val>,<size_bytes>,<hits>,<expires>;…]`
/// plus the structural oracles that need no model.
struct Obs {
    text: String,
    keys: BTreeSet<u64>,
    problems: Vec<String>,
}
fn observe<K: CacheKey, V: CacheValue>(c: &DefaultCache<K, V>, base: Instant, kid: &dyn Fn(&K) -> u64, vid: &dyn Fn(&V) -> u64) -> Obs {
    let len = c.len();
    let used = c.memory_used();
    let limit = c.cache_limit();
    let ttl = c.cache_ttl().map(|d| d.as_millis().to_string()).unwrap_or_else(|| "none".into());
    let entries: HashMap<K, _> = c.list_entries();
    let mut rows: BTreeMap<u64, String> = BTreeMap::new();
    let mut sum = 0usize;
    for (k, info) in &entries {
        sum += k.size() + info.size_bytes;
        let exp = info.expires.map(|e| e.duration_since(base).as_millis().to_string()).unwrap_or_else(|| "none".into());
        rows.insert(kid(k), format!("{}={},{},{},{}", kid(k), vid(&info.value), info.size_bytes, info.hits, exp));
    }
    let mut problems = vec![];
    if used != sum {
        problems.push(format!("memory_used()={used} but entries sum to {sum}"));
    }
    if used > limit {
        problems.push(format!("memory_used()={used} exceeds cache_limit()={limit}"));
    }
    if len != entries.len() {
        problems.push(format!("len()={len} but list_entries has {}", entries.len()));
    }
    Obs {
        text: format!("{len}/{used}/{limit}/{ttl}/[{}]", rows.values().cloned().collect::<Vec<_>>().join(";")),
        keys: rows.keys().cloned().collect(),
        problems,
    }
}

/// harness-side bookkeeping for the oracles that speak about histories (no model involved)
#[derive(Default)]
struct Book {
    /// last value put under a key: (value id, value size, clock at put, ttl at put)
    last_put: BTreeMap<u64, (u64, usize, u64, Option<u64>)>,
    /// index of the op that last put (accepted) / successfully got the key
    last_use: BTreeMap<u64, u64>,
    op_no: u64,
    fails: Vec<(String, String)>,
}
impl Book {
    fn fail(&mut self, sig: &str, detail: String) {
        if !self.fails.iter().any(|(s, _)| s == sig) {
            self.fails.push((sig.to_string(), detail));
        }
    }
    /// a `get` returned `Some(value id)` at clock `now`
    fn on_get_hit(&mut self, k: u64, vid: u64, now: u64) {
        match self.last_put.get(&k).cloned() {
            Some((lv, lsize, t0, ttl)) => {
                if lv != vid {
                    if lsize == 0 {
                        self.fail("stale-get-after-zero-size-put", format!("get(key {k}) returned value {vid} but the last value put under the key is {lv} (size 0)"));
                    } else {
                        self.fail("stale-get", format!("get(key {k}) returned value {vid} but the last value put under the key is {lv}"));
                    }
                } else if let Some(ttl) = ttl {
                    if now > t0 + ttl {
                        self.fail("expired-served", format!("get(key {k}) served value {vid} at t={now}, put at t={t0} with ttl={ttl}"));
                    }
                }
            }
            None => self.fail("get-without-put", format!("get(key {k}) returned value {vid} that was never put")),
        }
        self.last_use.insert(k, self.op_no);
    }
    /// entries that vanished although they were not addressed by the op must be older than survivors
    fn on_eviction(&mut self, before: &BTreeSet<u64>, after: &BTreeSet<u64>, op_key: Option<u64>) -> usize {
        let gone: Vec<u64> = before.iter().filter(|k| !after.contains(k) && Some(**k) != op_key).cloned().collect();
        for g in &gone {
            for s in after.iter().filter(|k| Some(**k) != op_key && before.contains(k)) {
                let (a, b) = (self.last_use.get(g).cloned().unwrap_or(0), self.last_use.get(s).cloned().unwrap_or(0));
                if a >= b {
                    self.fail("evicted-more-recent", format!("key {g} (last used at op {a}) evicted while key {s} (last used at op {b}) kept"));
                }
            }
        }
        gone.len()
    }
}

// ------------------------------------------------------------------------------------------ (a)
struct Gen {
    keys: Vec<(u64, usize, Option<u64>)>,
    limit: u64,
}

fn key_of(g: &Gen, i: usize) -> HK {
    let (id, size, t) = g.keys[i];
    HK { id, size, table: t.map(table) }
}
fn key_txt(g: &Gen, i: usize) -> String {
    let (id, size, t) = g.keys[i];
    format!("({id} {size} {})", tbl_txt(t))
}

/// one op of a generic history
#[derive(Clone, Debug)]
enum GOp {
    Put(usize, u64, usize),
    Get(usize),
    Has(usize),
    Rm(usize),
    Clear,
    Limit(u64),
    Ttl(Option<u64>),
    Adv(u64),
    Drop(u64),
}

fn run_generic_history(run: &mut Run, g: &Gen, ttl0: Option<u64>, ops: &[GOp], tag: &str) {
    let time = MockTime::new();
    let cache: DefaultCache<HK, HV> = DefaultCache::new_with_ttl(g.limit as usize, ttl0.map(Duration::from_millis)).with_time_provider(time.clone() as Arc<dyn TimeProvider>);
    let kid = |k: &HK| k.id;
    let vid = |v: &HV| v.id;
    let mut book = Book::default();
    let mut req = format!("({} {}", g.limit, ttl0.map(|t| t.to_string()).unwrap_or_else(|| "none".into()));
    let mut ans: Vec<String> = vec![];
    let mut kinds: BTreeSet<&'static str> = BTreeSet::new();
    let mut cur_ttl = ttl0;
    let mut before = observe(&cache, time.base, &kid, &vid).keys;
    for op in ops {
        book.op_no += 1;
        let now = time.now_ms();
        let out: String;
        let mut op_key = None;
        match op {
            GOp::Put(i, v, vs) => {
                let k = key_of(g, *i);
                op_key = Some(k.id);
                req.push_str(&format!(" (put {} ({v} {vs} 0 0 0))", key_txt(g, *i)));
                let had = before.contains(&k.id);
                let r = cache.put(&k, HV { id: *v, size: *vs });
                book.last_put.insert(k.id, (*v, *vs, now, cur_ttl));
                out = r.map(|v| format!("some:{}", v.id)).unwrap_or_else(|| "none".into());
                let limit_now = cache.cache_limit();
                if *vs == 0 {
                    kinds.insert(if had { "put-zero-size-over-existing" } else { "put-zero-size" });
                } else if k.size + vs > limit_now {
                    kinds.insert(if had { "put-oversize-removes" } else { "put-oversize" });
                } else {
                    kinds.insert(if had { "put-replace" } else { "put-new" });
                    if k.size + vs == limit_now {
                        kinds.insert("put-exactly-limit");
                    }
                    book.last_use.insert(k.id, book.op_no);
                }
            }
            GOp::Get(i) => {
                let k = key_of(g, *i);
                op_key = Some(k.id);
                req.push_str(&format!(" (get {})", key_txt(g, *i)));
                let had = before.contains(&k.id);
                match cache.get(&k) {
                    Some(v) => {
                        book.on_get_hit(k.id, v.id, now);
                        kinds.insert("get-hit");
                        out = format!("some:{}", v.id);
                    }
                    None => {
                        kinds.insert(if had { "get-expired" } else { "get-miss" });
                        out = "none".into();
                    }
                }
            }
            GOp::Has(i) => {
                let k = key_of(g, *i);
                op_key = Some(k.id);
                req.push_str(&format!(" (has {})", key_txt(g, *i)));
                let had = before.contains(&k.id);
                let r = cache.contains_key(&k);
                if r {
                    if let Some((_, _, t0, Some(ttl))) = book.last_put.get(&k.id).cloned() {
                        // only meaningful when the entry is the last put (zero-size case flagged by get)
                        let entries = cache.list_entries();
                        let is_last = entries.get(&k).map(|e| e.value.id) == book.last_put.get(&k.id).map(|x| x.0);
                        if is_last && now > t0 + ttl {
                            book.fail("expired-contains", format!("contains_key(key {}) true at t={now}, put at t={t0} ttl={ttl}", k.id));
                        }
                    }
                }
                kinds.insert(if r { "has-true" } else if had { "has-expired" } else { "has-false" });
                out = r.to_string();
            }
            GOp::Rm(i) => {
                let k = key_of(g, *i);
                op_key = Some(k.id);
                req.push_str(&format!(" (rm {})", key_txt(g, *i)));
                let r = cache.remove(&k);
                kinds.insert(if r.is_some() { "rm-hit" } else { "rm-miss" });
                out = r.map(|v| format!("some:{}", v.id)).unwrap_or_else(|| "none".into());
            }
            GOp::Clear => {
                req.push_str(" (clear)");
                cache.clear();
                kinds.insert("clear");
                out = "unit".into();
            }
            GOp::Limit(n) => {
                req.push_str(&format!(" (limit {n})"));
                cache.update_cache_limit(*n as usize);
                out = "unit".into();
            }
            GOp::Ttl(t) => {
                req.push_str(&format!(" (ttl {})", t.map(|t| t.to_string()).unwrap_or_else(|| "none".into())));
                cache.update_cache_ttl(t.map(Duration::from_millis));
                cur_ttl = *t;
                kinds.insert("ttl-change");
                out = "unit".into();
            }
            GOp::Adv(d) => {
                req.push_str(&format!(" (adv {d})"));
                time.advance(*d);
                out = "unit".into();
            }
            GOp::Drop(t) => {
                req.push_str(&format!(" (drop {t})"));
                let r = cache.drop_table_entries(&table(*t));
                out = if r.is_ok() { "unit".into() } else { "err".into() };
            }
        }
        let obs = observe(&cache, time.base, &kid, &vid);
        for p in &obs.problems {
            book.fail("accounting", format!("after op {} ({op:?}): {p}", book.op_no));
        }
        match op {
            GOp::Put(..) | GOp::Limit(_) => {
                let n = book.on_eviction(&before, &obs.keys, op_key);
                if n > 0 {
                    kinds.insert(if matches!(op, GOp::Put(..)) { "put-evicts" } else { "limit-evicts" });
                    if obs.keys.is_empty() {
                        kinds.insert("limit-below-most-recent-entry(evicts-all)");
                    } else if obs.keys.len() == 1 && matches!(op, GOp::Put(..)) {
                        kinds.insert("put-evicts-all-others");
                    }
                }
            }
            GOp::Drop(t) => {
                // exactly the keys of table t disappear
                for (id, _, kt) in &g.keys {
                    let was = before.contains(id);
                    let is = obs.keys.contains(id);
                    if *kt == Some(*t) && is {
                        book.fail("drop-table-left-entry", format!("key {id} of table t{t} still cached after drop_table_entries"));
                    }
                    if *kt != Some(*t) && was != is {
                        book.fail("drop-table-removed-other", format!("key {id} (table {kt:?}) changed presence on drop of t{t}"));
                    }
                    if *kt == Some(*t) && was {
                        kinds.insert("drop-table-hit");
                    }
                }
            }
            GOp::Get(_) | GOp::Has(_) | GOp::Rm(_) => {
                // only the addressed key may disappear
                for k in before.iter() {
                    if !obs.keys.contains(k) && Some(*k) != op_key {
                        book.fail("unrelated-entry-removed", format!("key {k} vanished on {op:?}"));
                    }
                }
            }
            _ => {}
        }
        ans.push(format!("{out}/{}", obs.text));
        before = obs.keys;
    }
    req.push(')');
    for k in &kinds {
        run.count(k);
    }
    let nontrivial = kinds.len() >= 4;
    run.case("run", &req, &ans.join(" "), nontrivial);
    if book.fails.is_empty() {
        run.oracle(true, "", "");
    }
    for (sig, detail) in &book.fails {
        run.oracle(false, &format!("{sig} {tag} history={req}"), detail);
    }
}

fn generic(run: &mut Run, rng: &mut Rng) {
    let n_hist = run.budget(6000, 150_000);
    for h in 0..n_hist {
        let limit = *rng.pick(&[0u64, 1, 4, 6, 10, 12, 20, 50]);
        let tables = [Some(0u64), Some(0), Some(1), None, Some(1)];
        let nk = 2 + rng.below(4) as usize;
        let g = Gen { keys: (0..nk).map(|i| (i as u64, *rng.pick(&[0usize, 1, 2, 3]), tables[i])).collect(), limit };
        let ttl0 = *rng.pick(&[None, None, Some(0u64), Some(5), Some(10)]);
        let len = 4 + rng.below(if run.thorough() { 60 } else { 36 }) as usize;
        let mut ops = vec![];
        let mut lim = limit;
        let mut next_v = 1u64;
        for _ in 0..len {
            let c = rng.below(100);
            let op = if c < 36 {
                let i = rng.below(nk as u64) as usize;
                let ks = g.keys[i].1 as u64;
                let room = lim.saturating_sub(ks);
                let vs = *rng.pick(&[0u64, 0, 1, 2, 3, 5, room.saturating_sub(1), room, room + 1, lim, room / 2, room / 3 + 1]);
                next_v += 1;
                GOp::Put(i, next_v, vs as usize)
            } else if c < 58 {
                GOp::Get(rng.below(nk as u64) as usize)
            } else if c < 67 {
                GOp::Has(rng.below(nk as u64) as usize)
            } else if c < 73 {
                GOp::Rm(rng.below(nk as u64) as usize)
            } else if c < 75 {
                GOp::Clear
            } else if c < 82 {
                lim = *rng.pick(&[0u64, 1, 3, 5, 8, 10, 12, 20, 50]);
                GOp::Limit(lim)
            } else if c < 86 {
                GOp::Ttl(*rng.pick(&[None, Some(0u64), Some(5), Some(10)]))
            } else if c < 96 {
                GOp::Adv(*rng.pick(&[0u64, 1, 4, 5, 6, 10, 11]))
            } else {
                GOp::Drop(rng.below(2))
            };
            ops.push(op);
        }
        let tag = format!("generic#{h}");
        if let Err(p) = hutil::catch(std::panic::AssertUnwindSafe(|| run_generic_history(run, &g, ttl0, &ops, &tag))) {
            run.oracle(false, &format!("panic {tag} limit={} ttl={ttl0:?} keys={:?} ops={ops:?}", g.limit, g.keys), &p);
        }
    }
}

// ------------------------------------------------------------------------------------------ (a')
/// hand-picked histories for slips that random histories hit only by luck: limit decreased to exactly /
/// just below the most recently used entry, expiry at the exact boundary noticed by `get` vs
/// `contains_key`, `contains_key` not promoting, TTL changes not touching stamped entries, replacing the
/// least recently used key with a value that needs the others' room.
fn directed(run: &mut Run) {
    use GOp::*;
    let g = Gen { keys: vec![(0, 1, Some(0)), (1, 2, None), (2, 0, Some(1))], limit: 20 };
    let hs: Vec<(Option<u64>, Vec<GOp>)> = vec![
        (None, vec![Put(0, 1, 5), Put(1, 2, 6), Limit(8), Get(0), Get(1), Limit(7), Get(1), Put(1, 3, 5), Limit(7), Get(1), Limit(6), Get(1), Put(1, 4, 4), Limit(20)]),
        (Some(5), vec![Put(0, 1, 3), Adv(5), Get(0), Has(0), Adv(1), Has(0), Get(0), Put(0, 2, 3), Adv(6), Get(0), Has(0), Put(0, 3, 3), Adv(6), Has(0), Get(0)]),
        (None, vec![Put(0, 1, 5), Put(1, 2, 5), Has(0), Put(2, 3, 9), Has(0), Has(1), Clear, Put(0, 4, 5), Put(1, 5, 5), Get(0), Put(2, 6, 9), Has(0), Has(1)]),
        (Some(5), vec![Put(0, 1, 3), Ttl(None), Adv(6), Get(0), Put(0, 2, 3), Ttl(Some(0)), Adv(100), Get(0), Put(1, 3, 3), Has(1), Adv(1), Has(1)]),
        (None, vec![Put(0, 1, 4), Put(1, 2, 4), Put(2, 3, 4), Put(0, 4, 17), Get(1), Get(2), Get(0), Put(0, 5, 19), Put(0, 6, 20), Get(0)]),
        (Some(10), vec![Put(0, 1, 4), Adv(4), Put(1, 2, 4), Adv(6), Get(0), Get(1), Adv(1), Get(0), Adv(3), Get(1), Adv(1), Has(1)]),
        (None, vec![Put(0, 1, 4), Put(2, 2, 4), Put(1, 3, 4), Drop(0), Get(0), Get(2), Drop(1), Get(2), Get(1), Rm(1), Rm(1)]),
    ];
    for (i, (ttl, ops)) in hs.iter().enumerate() {
        run_generic_history(run, &g, *ttl, ops, &format!("directed#{i}"));
        run.count("directed-history");
    }
}

// ------------------------------------------------------------------------------------------ (b)
fn exhaustive(run: &mut Run) {
    // alphabet over 2 keys (sizes 1 and 2), limit 10, ttl 5
    let g = Gen { keys: vec![(0, 1, Some(0)), (1, 2, None)], limit: 10 };
    let alphabet: Vec<GOp> = vec![
        GOp::Put(0, 1, 4),
        GOp::Put(0, 2, 0),
        GOp::Put(0, 3, 9),
        GOp::Put(0, 4, 10),
        GOp::Put(1, 5, 5),
        GOp::Put(1, 6, 8),
        GOp::Get(0),
        GOp::Get(1),
        GOp::Has(0),
        GOp::Rm(1),
        GOp::Limit(6),
        GOp::Adv(6),
        GOp::Drop(0),
    ];
    let maxlen = if run.thorough() { 5 } else { 3 };
    let n = alphabet.len();
    let mut idx: Vec<usize> = vec![];
    // iterate all sequences of length 1..=maxlen
    for len in 1..=maxlen {
        idx.clear();
        idx.resize(len, 0);
        loop {
            let ops: Vec<GOp> = idx.iter().map(|i| alphabet[*i].clone()).collect();
            run_generic_history(run, &g, Some(5), &ops, "exhaustive");
            run.count("exhaustive-history");
            // next
            let mut p = len;
            loop {
                if p == 0 {
                    break;
                }
                p -= 1;
                idx[p] += 1;
                if idx[p] < n {
                    break;
                }
                idx[p] = 0;
                if p == 0 {
                    p = usize::MAX;
                    break;
                }
            }
            if p == usize::MAX {
                break;
            }
        }
    }
}

// ------------------------------------------------------------------------------------------ (c)
struct HMeta {
    id: u64,
    size: usize,
}
impl FileMetadata for HMeta {
    fn as_any(&self) -> &dyn std::any::Any {
        self
    }
    fn memory_size(&self) -> usize {
        self.size
    }
    fn extra_info(&self) -> HashMap<String, String> {
        HashMap::new()
    }
}

#[derive(Clone)]
struct SimFile {
    path: Path,
    size: u64,
    mtime: u64,
    /// version of the content; bumped on every rewrite
    version: u64,
}
/// `mtime` is in NANOSECONDS after 2023-11-14T22:13:20Z: sub-second changes of `last_modified` are
/// changes of the file generation like any other
fn object_meta(f: &SimFile) -> ObjectMeta {
    ObjectMeta { location: f.path.clone(), last_modified: (UNIX_EPOCH + Duration::from_secs(1_700_000_000) + Duration::from_nanos(f.mtime)).into(), size: f.size, e_tag: None, version: None }
}

fn files(run: &mut Run, rng: &mut Rng) {
    let n_hist = run.budget(1500, 30_000);
    let schemas: Vec<Arc<SchemaFingerprint>> = (0..2)
        .map(|i| Arc::new(SchemaFingerprint::from_schema(&Schema::new(vec![Field::new("a", if i == 0 { DataType::Int64 } else { DataType::Utf8 }, true)]))))
        .collect();
    let plain_schema = Schema::new(vec![Field::new("a", DataType::Int64, true)]);
    for h in 0..n_hist {
        // the first 24 histories are directed: lookup, one rewrite of each kind, lookup — for both caches
        let scripted = h < 24;
        let stats_cache = if scripted { h >= 12 } else { rng.chance(1, 2) };
        let nfiles = 2 + rng.below(3) as usize;
        let mut fs: Vec<SimFile> = (0..nfiles).map(|i| SimFile { path: Path::from(format!("d/f{}{}", i, "x".repeat(i))), size: 100 + i as u64, mtime: 10_500_000_000, version: 1 }).collect();
        let tables = [Some(0u64), Some(1), None, Some(0)];
        let time = MockTime::new();
        // real key/value sizes decide which limits are interesting
        let mk_stats = |f: &SimFile, fp: usize, payload: u64| {
            let mut st = Statistics::new_unknown(&plain_schema);
            st.num_rows = Precision::Exact(payload as usize);
            CachedFileMetadata::new(object_meta(f), Arc::clone(&schemas[fp]), Arc::new(st), None)
        };
        let probe_k = TableScopedPath { table: Some(table(0)), path: fs[0].path.clone() };
        let unit = if stats_cache { CacheKey::size(&probe_k) + CacheValue::size(&mk_stats(&fs[0], 0, 0)) } else { CacheKey::size(&fs[0].path) + 40 };
        let limit = if scripted { 100 * unit } else { *rng.pick(&[unit - 1, unit, unit + 1, 2 * unit + 8, 3 * unit + 20, 100 * unit]) };
        let c_meta: DefaultCache<Path, CachedFileMetadataEntry> = DefaultCache::new(limit).with_time_provider(time.clone() as Arc<dyn TimeProvider>);
        let c_stat: DefaultCache<TableScopedPath, CachedFileMetadata> = DefaultCache::new(limit).with_time_provider(time.clone() as Arc<dyn TimeProvider>);
        let idx_of: BTreeMap<String, u64> = fs.iter().enumerate().map(|(i, f)| (f.path.to_string(), i as u64)).collect();
        let kid_p = |k: &Path| idx_of[&k.to_string()];
        let kid_t = |k: &TableScopedPath| idx_of[&k.path.to_string()];
        let vid_m = |v: &CachedFileMetadataEntry| v.file_metadata.as_any().downcast_ref::<HMeta>().unwrap().id;
        let vid_s = |v: &CachedFileMetadata| *v.statistics.num_rows.get_value().unwrap() as u64;
        let mut req = format!("({limit} none");
        let mut ans = vec![];
        let mut kinds: BTreeSet<&'static str> = BTreeSet::new();
        let mut fails: Vec<(String, String)> = vec![];
        let mut payload = 100u64;
        let mut cur_fp = 0usize;
        let mut computed_for: BTreeMap<u64, (u64, u64, usize)> = BTreeMap::new();
        let len = if scripted { 3 } else { 6 + rng.below(30) as usize };
        for t in 0..len {
            let (c, i) = if scripted { (if t == 1 { 0 } else { 99 }, 0) } else { (rng.below(100), rng.below(nfiles as u64) as usize) };
            if c < 30 {
                // rewrite the file: change size and/or mtime (or neither: same size & mtime)
                let f = &mut fs[i];
                f.version += 1;
                // every way the object's metadata can move; each one except `same-meta` is a new generation
                const SEC: u64 = 1_000_000_000;
                let how = match if scripted { h % 12 } else { rng.below(12) } {
                    0 => {
                        f.size += 1;
                        "rewrite:size-only"
                    }
                    1 => {
                        f.mtime += SEC;
                        "rewrite:mtime-seconds-only"
                    }
                    2 | 3 => {
                        f.mtime += 1;
                        "rewrite:mtime-1ns-only"
                    }
                    4 => {
                        f.mtime += 1_000;
                        "rewrite:mtime-1us-only"
                    }
                    5 | 6 => {
                        f.mtime += 1_000_000;
                        "rewrite:mtime-1ms-only"
                    }
                    7 => {
                        f.size += 1;
                        f.mtime += SEC + 7;
                        "rewrite:size+mtime"
                    }
                    8 => {
                        f.mtime = f.mtime.saturating_sub(SEC);
                        "rewrite:mtime-older(seconds)"
                    }
                    9 => {
                        f.mtime = f.mtime.saturating_sub(1);
                        "rewrite:mtime-older(1ns)"
                    }
                    10 => {
                        f.size = f.size.saturating_sub(1);
                        "rewrite:size-smaller"
                    }
                    _ => "rewrite:same-meta",
                };
                kinds.insert(how);
                kinds.insert("file-rewritten");
                continue;
            }
            if c < 36 && stats_cache {
                cur_fp = 1 - cur_fp;
                kinds.insert("schema-changed");
                continue;
            }
            if c < 42 {
                let n = *rng.pick(&[unit - 1, unit, 2 * unit + 8, 100 * unit]);
                req.push_str(&format!(" (limit {n})"));
                if stats_cache {
                    c_stat.update_cache_limit(n);
                } else {
                    c_meta.update_cache_limit(n);
                }
                let o = if stats_cache { observe(&c_stat, time.base, &kid_t, &vid_s) } else { observe(&c_meta, time.base, &kid_p, &vid_m) };
                ans.push(format!("unit/{}", o.text));
                continue;
            }
            // lookup through the usage pattern
            let f = fs[i].clone();
            let meta = object_meta(&f);
            payload += 1;
            let (ktxt, vtxt, outcome, used_meta): (String, String, String, (u64, u64, usize));
            // the harness's own record of which file generation every payload was computed from
            computed_for.insert(payload, (f.size, f.mtime, if stats_cache { cur_fp } else { 0 }));
            if stats_cache {
                let key = TableScopedPath { table: tables[i].map(table), path: f.path.clone() };
                let fresh = mk_stats(&f, cur_fp, payload);
                ktxt = format!("({} {} {})", i, CacheKey::size(&key), tbl_txt(tables[i]));
                vtxt = format!("({} {} {} {} {})", payload, CacheValue::size(&fresh), f.size, f.mtime, cur_fp);
                // ListingTable::do_collect_statistics_and_ordering
                if let Some(cached) = c_stat.get(&key)
                    && cached.is_valid_for(&meta, &schemas[cur_fp])
                {
                    outcome = format!("cached:{}", vid_s(&cached));
                    used_meta = computed_for[&vid_s(&cached)];
                    kinds.insert("use-cached");
                } else {
                    c_stat.put(&key, fresh);
                    outcome = format!("computed:{payload}");
                    used_meta = (f.size, f.mtime, cur_fp);
                    kinds.insert("use-computed");
                }
                req.push_str(&format!(" (use {ktxt} {vtxt} t)"));
            } else {
                let msize = if scripted { 40 } else { *rng.pick(&[0usize, 1, 40, 40, 40, limit]) };
                let fresh = CachedFileMetadataEntry::new(meta.clone(), Arc::new(HMeta { id: payload, size: msize }));
                ktxt = format!("({} {} -)", i, CacheKey::size(&f.path));
                vtxt = format!("({} {} {} {} 0)", payload, CacheValue::size(&fresh), f.size, f.mtime);
                // DFParquetMetadata::fetch_metadata
                if let Some(cached) = c_meta.get(&f.path)
                    && cached.is_valid_for(&meta)
                {
                    outcome = format!("cached:{}", vid_m(&cached));
                    used_meta = computed_for[&vid_m(&cached)];
                    kinds.insert("use-cached");
                } else {
                    c_meta.put(&f.path, fresh);
                    outcome = format!("computed:{payload}");
                    used_meta = (f.size, f.mtime, 0);
                    kinds.insert("use-computed");
                }
                req.push_str(&format!(" (use {ktxt} {vtxt} f)"));
            }
            // oracle: whatever was used was computed for a file with the current size & mtime (& schema)
            if used_meta != (f.size, f.mtime, if stats_cache { cur_fp } else { 0 }) {
                fails.push(("stale-metadata-used".into(), format!("file {i} is now (size {}, mtime {} ns, schema {cur_fp}) but the value used was computed from generation (size, mtime ns, schema) = {:?}", f.size, f.mtime, used_meta)));
            }
            let o = if stats_cache { observe(&c_stat, time.base, &kid_t, &vid_s) } else { observe(&c_meta, time.base, &kid_p, &vid_m) };
            for p in &o.problems {
                fails.push(("accounting".into(), p.clone()));
            }
            ans.push(format!("{outcome}/{}", o.text));
        }
        req.push(')');
        if ans.is_empty() {
            continue;
        }
        for k in &kinds {
            run.count(&format!("files:{k}"));
        }
        run.count(if stats_cache { "files:statistics-cache" } else { "files:metadata-cache" });
        run.case("run", &req, &ans.join(" "), kinds.contains("use-cached") && kinds.contains("use-computed") && kinds.contains("file-rewritten"));
        if fails.is_empty() {
            run.oracle(true, "", "");
        }
        for (sig, d) in fails.iter().take(1) {
            run.oracle(false, &format!("{sig} files#{h} history={req}"), d);
        }
    }
}

// ------------------------------------------------------------------------------------------ (d)
fn listing(run: &mut Run, rng: &mut Rng) {
    let n_hist = run.budget(1000, 20_000);
    for h in 0..n_hist {
        let time = MockTime::new();
        let ttl0 = *rng.pick(&[None, Some(5u64), Some(10)]);
        let ntab = 3usize;
        let keys: Vec<TableScopedPath> = (0..ntab).map(|i| TableScopedPath { table: if i == 2 { None } else { Some(table(i as u64)) }, path: Path::from(format!("tbl{}", i)) }).collect();
        // directory contents: list of file names; changes over time
        let mut dirs: Vec<Vec<String>> = (0..ntab).map(|i| vec![format!("tbl{i}/a.parquet")]).collect();
        let mut dir_version: Vec<u64> = vec![1; ntab];
        let mk_list = |names: &Vec<String>| {
            let mut v: Vec<ObjectMeta> = names
                .iter()
                .map(|n| ObjectMeta { location: Path::from(n.as_str()), last_modified: (UNIX_EPOCH + Duration::from_secs(1_700_000_000)).into(), size: 10, e_tag: None, version: None })
                .collect();
            v.shrink_to_fit();
            CachedFileList::new(v)
        };
        let unit = CacheKey::size(&keys[0]) + CacheValue::size(&mk_list(&dirs[0]));
        let limit = *rng.pick(&[unit, 2 * unit + 30, 100 * unit]);
        let cache: DefaultCache<TableScopedPath, CachedFileList> =
            DefaultCache::new_with_ttl(limit, ttl0.map(Duration::from_millis)).with_time_provider(time.clone() as Arc<dyn TimeProvider>);
        let kid = |k: &TableScopedPath| keys.iter().position(|x| x == k).unwrap() as u64;
        // value identity: a hash of the listed file names
        let vid = |v: &CachedFileList| list_id(v);
        let mut req = format!("({limit} {}", ttl0.map(|t| t.to_string()).unwrap_or_else(|| "none".into()));
        let mut ans = vec![];
        let mut kinds: BTreeSet<&'static str> = BTreeSet::new();
        let mut fails: Vec<(String, String)> = vec![];
        // bookkeeping for the oracle: when was the cached listing taken, was the table dropped since
        let mut taken_at: Vec<Option<(u64, Option<u64>, u64)>> = vec![None; ntab]; // (clock, ttl, version)
        let len = 6 + rng.below(30) as usize;
        for _ in 0..len {
            let c = rng.below(100);
            let i = rng.below(ntab as u64) as usize;
            let out: String;
            if c < 20 {
                // the directory changes: add or delete a file
                dir_version[i] += 1;
                if dirs[i].len() > 0 && rng.chance(1, 2) {
                    dirs[i].pop();
                } else {
                    let n = dirs[i].len();
                    dirs[i].push(format!("tbl{i}/f{}_{n}.parquet", dir_version[i]));
                }
                kinds.insert("dir-changed");
                continue;
            } else if c < 35 {
                let d = *rng.pick(&[1u64, 4, 5, 6, 11]);
                time.advance(d);
                req.push_str(&format!(" (adv {d})"));
                out = "unit".into();
            } else if c < 43 && i < 2 {
                cache.drop_table_entries(&table(i as u64)).unwrap();
                taken_at[i] = None;
                req.push_str(&format!(" (drop {i})"));
                kinds.insert("drop-table");
                out = "unit".into();
            } else if c < 48 {
                // INSERT INTO invalidates the table's listing (ListingTable::insert_into)
                let r = cache.remove(&keys[i]);
                taken_at[i] = None;
                req.push_str(&format!(" (rm ({} {} {}))", i, CacheKey::size(&keys[i]), if i == 2 { "-".to_string() } else { i.to_string() }));
                out = match r {
                    Some(l) => format!("some:{}", list_id(&l)),
                    None => "none".into(),
                };
            } else {
                // list_with_cache
                let ktxt = format!("({} {} {})", i, CacheKey::size(&keys[i]), if i == 2 { "-".to_string() } else { i.to_string() });
                req.push_str(&format!(" (get {ktxt})"));
                let now = time.now_ms();
                match cache.get(&keys[i]) {
                    Some(cached) => {
                        let ver = list_id(&cached);
                        kinds.insert("listing-hit");
                        match taken_at[i] {
                            Some((t0, ttl, v)) => {
                                if v != ver {
                                    fails.push(("listing-not-last-put".into(), format!("table {i}: served listing version {ver}, last cached {v}")));
                                }
                                if let Some(ttl) = ttl {
                                    if now > t0 + ttl {
                                        fails.push(("listing-expired-served".into(), format!("table {i}: listing taken at t={t0} ttl={ttl} served at t={now}")));
                                    }
                                }
                            }
                            None => fails.push(("listing-served-after-drop".into(), format!("table {i}: a listing was served although none is valid (dropped / invalidated / never cached)"))),
                        }
                        if ver != list_id(&mk_list(&dirs[i])) {
                            kinds.insert("listing-hit-while-dir-changed-within-ttl");
                        }
                        out = format!("some:{ver}");
                        let o = observe(&cache, time.base, &kid, &vid);
                        ans.push(format!("{out}/{}", o.text));
                        continue;
                    }
                    None => {
                        kinds.insert("listing-miss");
                        // list the store and cache the result
                        let l = mk_list(&dirs[i]);
                        let ver = list_id(&l);
                        let o = observe(&cache, time.base, &kid, &vid);
                        ans.push(format!("none/{}", o.text));
                        let vsize = CacheValue::size(&l);
                        req.push_str(&format!(" (put {ktxt} ({ver} {vsize} 0 0 0))"));
                        let ttl_now = cache.cache_ttl().map(|d| d.as_millis() as u64);
                        let old = cache.put(&keys[i], l);
                        let accepted = vsize > 0 && CacheKey::size(&keys[i]) + vsize <= limit;
                        taken_at[i] = if accepted { Some((now, ttl_now, ver)) } else { None };
                        if vsize == 0 {
                            kinds.insert("listing-empty-dir-not-cached");
                        }
                        out = match old {
                            Some(l) => format!("some:{}", list_id(&l)),
                            None => "none".into(),
                        };
                    }
                }
            }
            let o = observe(&cache, time.base, &kid, &vid);
            for p in &o.problems {
                fails.push(("accounting".into(), p.clone()));
            }
            // an eviction may have removed other tables' listings
            for t in 0..ntab {
                if !o.keys.contains(&(t as u64)) {
                    taken_at[t] = None;
                }
            }
            ans.push(format!("{out}/{}", o.text));
        }
        req.push(')');
        if ans.is_empty() {
            continue;
        }
        for k in &kinds {
            run.count(&format!("listing:{k}"));
        }
        run.case("run", &req, &ans.join(" "), kinds.len() >= 3);
        if fails.is_empty() {
            run.oracle(true, "", "");
        }
        for (sig, d) in fails.iter().take(1) {
            run.oracle(false, &format!("{sig} listing#{h} history={req}"), d);
        }
    }
}

/// identity of a listing: FNV hash of the file names it contains
fn list_id(v: &CachedFileList) -> u64 {
    let mut h: u64 = 0xcbf29ce484222325;
    for m in v.files.iter() {
        for b in m.location.as_ref().as_bytes().iter().chain(b"|") {
            h ^= *b as u64;
            h = h.wrapping_mul(0x100000001b3);
        }
    }
    h % 1_000_000_007
}

pub fn run(run: &mut Run, args: &Args) {
    let mut rng = Rng::new(args.seed);
    generic(run, &mut rng);
    directed(run);
    exhaustive(run);
    files(run, &mut rng);
    listing(run, &mut rng);
}
