//! C14 — join hash table lookups return exactly the matching build rows.
//!
//! Real `JoinHashMapU32` / `JoinHashMapU64` (public `joins::join_hash_map`) driven through
//! `JoinHashMapType`: the map is built with one or several `update_from_iter` calls (batches; rows in
//! descending order as `HashJoinExec` does, ascending as the symmetric join does, or shuffled), from
//! hash multisets with heavy duplicates, with capacity = rows (all-unique fast path reachable) or
//! larger; then queried with probe hash sequences (hits, misses, repeated probes, NULL-key masks)
//! * `get_matched_indices` (the full lookup),
//! * `get_matched_indices_with_limit_offset` paged with every interesting limit, resuming from the
//!   returned offset until `None`,
//! * `contain_hashes`, `len`, `is_empty`.
//! Correspondence: equality (order included) with the Lean model `Sm.Jhm`.
//! Implementation-level oracle: full lookup = for every probe, the build rows with an equal hash, each
//! once, in reverse insertion order; concatenated pages = full lookup restricted to valid probes;
//! membership = "the lookup is non-empty"; no page is longer than `limit`; paging terminates.
use std::sync::Arc;

use arrow::array::{Array, ArrayRef, Int64Array, RecordBatch};
use arrow::buffer::NullBuffer;
use arrow::datatypes::{DataType, Field, Schema};
use datafusion_common::{JoinType, NullEquality};
use datafusion_datasource::memory::MemorySourceConfig;
use datafusion_execution::TaskContext;
use datafusion_execution::config::SessionConfig;
use datafusion_physical_expr::PhysicalExpr;
use datafusion_physical_expr::expressions::Column;
use datafusion_physical_plan::joins::{HashJoinExec, PartitionMode};
use datafusion_physical_plan::{ExecutionPlan, collect};
use datafusion_physical_plan::joins::join_hash_map::{JoinHashMapType, JoinHashMapU32, JoinHashMapU64};
use hutil::{Args, Rng, Run};

type Pairs = Vec<(u32, u64)>;

fn show_pairs(p: &Pairs) -> String {
    p.iter().map(|(a, b)| format!("{a}-{b}")).collect::<Vec<_>>().join(",")
}

struct Query {
    hashes: Vec<u64>,
    valid: Option<Vec<bool>>,
    limit: usize,
}

fn run_case(run: &mut Run, rng: &mut Rng, case_no: u64, exhaustive: Option<(Vec<u64>, usize)>) {
    // ---- build side
    let (hashes, order_kind, nbatches, cap_extra, wide): (Vec<u64>, u64, usize, usize, bool) = match &exhaustive {
        Some((h, extra)) => (h.clone(), 0, 1, *extra, false),
        None => {
            let n = *rng.pick(&[0usize, 1, 2, 3, 4, 5, 6, 8, 12, if run.thorough() { 40 } else { 16 }]);
            let unique = rng.chance(1, 4);
            let dom = *rng.pick(&[1u64, 2, 3, 5]);
            let h: Vec<u64> = (0..n).map(|i| if unique { 100 + i as u64 } else { 1 + rng.below(dom) }).collect();
            (h, rng.below(3), 1 + rng.below(3) as usize, *rng.pick(&[0usize, 0, 1, 3]), rng.chance(1, 2))
        }
    };
    let n = hashes.len();
    let cap = n + cap_extra;
    // insertion order of the rows
    let mut rows: Vec<usize> = (0..n).collect();
    match order_kind {
        0 => rows.reverse(), // HashJoinExec: highest row first, chains come out ascending
        1 => {}              // ascending insertion (symmetric hash join style), chains descend
        _ => {
            for i in (1..n).rev() {
                let j = rng.below(i as u64 + 1) as usize;
                rows.swap(i, j);
            }
        }
    }
    // split into batches (consecutive slices of the insertion order)
    let mut batches: Vec<Vec<(usize, u64)>> = vec![];
    {
        let mut cuts: Vec<usize> = (0..nbatches.saturating_sub(1)).map(|_| rng.below(n as u64 + 1) as usize).collect();
        cuts.push(0);
        cuts.push(n);
        cuts.sort();
        for w in cuts.windows(2) {
            batches.push(rows[w[0]..w[1]].iter().map(|r| (*r, hashes[*r])).collect());
        }
    }
    let mut map: Box<dyn JoinHashMapType> = if wide { Box::new(JoinHashMapU64::with_capacity(cap)) } else { Box::new(JoinHashMapU32::with_capacity(cap)) };
    let mut req = format!("({cap} (batches");
    for b in &batches {
        req.push_str(" (b");
        for (r, h) in b {
            req.push_str(&format!(" ({r} {h})"));
        }
        req.push(')');
        map.update_from_iter(Box::new(b.iter().map(|(r, h)| (*r, h))), 0);
    }
    req.push(')');
    let inserted: Vec<(usize, u64)> = batches.iter().flatten().cloned().collect();
    let distinct: std::collections::BTreeSet<u64> = hashes.iter().cloned().collect();
    let all_unique_fast = distinct.len() == cap;
    let mut ans = vec![format!("len={};empty={}", map.len(), if map.is_empty() { "t" } else { "f" })];
    let mut fails: Vec<(String, String)> = vec![];
    if map.len() != distinct.len() {
        fails.push(("len".into(), format!("len()={} but {} distinct hashes", map.len(), distinct.len())));
    }
    // ---- queries
    let nq = if exhaustive.is_some() { 0 } else { 1 + rng.below(3) as usize };
    let mut queries: Vec<Query> = vec![];
    for _ in 0..nq {
        let np = *rng.pick(&[0usize, 1, 2, 3, 5, 8]);
        let hs: Vec<u64> = (0..np)
            .map(|_| if n > 0 && rng.chance(3, 4) { hashes[rng.below(n as u64) as usize] } else { 900 + rng.below(3) })
            .collect();
        let valid = match rng.below(8) {
            0..=3 => None,
            4 => Some(vec![true; np]),  // a mask that filters nothing (direct API users may pass one)
            5 => Some(vec![false; np]), // every key NULL
            _ => Some((0..np).map(|_| !rng.chance(1, 4)).collect()),
        };
        let total: usize = hs.iter().map(|h| hashes.iter().filter(|x| *x == h).count()).sum();
        let limit = *rng.pick(&[1usize, 1, 2, 3, 5, total.max(1), total + 1, total.saturating_sub(1).max(1), 1000]);
        queries.push(Query { hashes: hs, valid, limit });
    }
    if let Some((h, _)) = &exhaustive {
        // probe every hash value of the domain plus a miss, all page sizes
        let mut probe: Vec<u64> = vec![1, 2, 9, 1];
        probe.truncate(4);
        let total: usize = probe.iter().map(|p| h.iter().filter(|x| *x == p).count()).sum();
        for limit in 1..=(total + 1) {
            queries.push(Query { hashes: probe.clone(), valid: None, limit });
            queries.push(Query { hashes: probe.clone(), valid: Some(vec![limit % 2 == 0, false, true, true]), limit });
        }
    }
    let mut kinds = std::collections::BTreeSet::new();
    if all_unique_fast {
        kinds.insert("fast-path(all-unique)");
    }
    if batches.len() > 1 {
        kinds.insert("multi-batch");
    }
    for q in &queries {
        req.push_str(&format!(
            " (q ({}) ({}) {})",
            q.hashes.iter().map(|h| h.to_string()).collect::<Vec<_>>().join(" "),
            q.valid.as_ref().map(|v| v.iter().map(|b| if *b { "t" } else { "f" }).collect::<Vec<_>>().join(" ")).unwrap_or_default(),
            q.limit
        ));
        // full lookup
        let (ii, mi) = map.get_matched_indices(Box::new(q.hashes.iter().enumerate()), None);
        let full: Pairs = ii.into_iter().zip(mi).collect();
        // oracle: every build row with an equal hash, once, in reverse insertion order
        let mut want: Pairs = vec![];
        for (p, h) in q.hashes.iter().enumerate() {
            for (r, hh) in inserted.iter().rev() {
                if hh == h {
                    want.push((p as u32, *r as u64));
                }
            }
        }
        if full != want {
            fails.push(("full-lookup".into(), format!("probes {:?}: got [{}], the equal-hash rows are [{}]", q.hashes, show_pairs(&full), show_pairs(&want))));
        }
        // paged
        // In production the mask is the validity of a (possibly sliced) key column: a NullBuffer whose
        // bits start at a non-zero offset inside a longer bitmap. The bits in front of the offset are
        // the complement of the real ones, so reading the buffer without the offset gives wrong answers.
        let nulls = q.valid.as_ref().map(|v| {
            let off = match rng.below(6) {
                0 => 0usize,
                1 => 1 + rng.below(7) as usize,          // inside the first byte
                2 => 8 * (1 + rng.below(3) as usize),     // byte aligned
                3 => 63 + rng.below(3) as usize,          // around the u64 word boundary
                _ => 1 + rng.below(130) as usize,
            };
            if off == 0 {
                kinds.insert("mask-offset-0");
                NullBuffer::from(v.clone())
            } else {
                kinds.insert("mask-sliced(offset>0)");
                if all_unique_fast {
                    kinds.insert("fast-path+sliced-mask");
                }
                let mut long: Vec<bool> = (0..off).map(|i| if v.is_empty() { i % 2 == 0 } else { !v[i % v.len()] }).collect();
                long.extend(v.iter().cloned());
                long.extend((0..rng.below(9)).map(|i| i % 2 == 0));
                let sliced = NullBuffer::from(long).slice(off, v.len());
                assert_eq!(sliced.len(), v.len());
                sliced
            }
        });
        let mut offset: (usize, Option<u64>) = (0, None);
        let mut pages: Vec<Pairs> = vec![];
        let (mut ib, mut mb) = (vec![7u32; 2], vec![7u64; 2]);
        let mut calls = 0;
        let pages_txt: String;
        loop {
            calls += 1;
            if calls > 10_000 {
                fails.push(("paging-does-not-terminate".into(), format!("limit {} probes {:?}", q.limit, q.hashes)));
                break;
            }
            let r = hutil::catch(std::panic::AssertUnwindSafe(|| map.get_matched_indices_with_limit_offset(&q.hashes, nulls.as_ref(), q.limit, offset, &mut ib, &mut mb)));
            match r {
                Err(p) => {
                    fails.push(("paging-panic".into(), format!("limit {} offset {:?}: {p}", q.limit, offset)));
                    pages.push(vec![(u32::MAX, u64::MAX)]);
                    break;
                }
                Ok(next) => {
                    let page: Pairs = ib.iter().cloned().zip(mb.iter().cloned()).collect();
                    if page.len() > q.limit && !all_unique_fast {
                        fails.push(("page-too-long".into(), format!("limit {} page [{}]", q.limit, show_pairs(&page))));
                    }
                    match next {
                        Some((_, Some(0))) => {
                            kinds.insert("resume-at-chain-end(Some 0)");
                        }
                        Some((_, Some(_))) => {
                            kinds.insert("resume-inside-chain(Some next)");
                        }
                        Some((_, None)) => {
                            kinds.insert("resume-at-probe(None)");
                        }
                        None => {}
                    }
                    pages.push(page);
                    match next {
                        Some(o) => offset = o,
                        None => break,
                    }
                }
            }
        }
        if pages.len() > 2 {
            kinds.insert("3+pages");
        }
        pages_txt = pages.iter().map(show_pairs).collect::<Vec<_>>().join("/");
        let concat: Pairs = pages.iter().flatten().cloned().collect();
        let want_valid: Pairs = want.iter().filter(|(p, _)| q.valid.as_ref().map(|v| v[*p as usize]).unwrap_or(true)).cloned().collect();
        if q.valid.is_some() {
            kinds.insert("null-mask");
        }
        if concat != want_valid {
            fails.push(("pages-concat-ne-full".into(), format!("limit {} probes {:?} valid {:?}: pages [{}] but the full lookup (valid probes) is [{}]", q.limit, q.hashes, q.valid, pages_txt, show_pairs(&want_valid))));
        }
        // membership
        let c = map.contain_hashes(&q.hashes);
        let contain: Vec<bool> = (0..c.len()).map(|i| c.value(i)).collect();
        for (i, h) in q.hashes.iter().enumerate() {
            if contain.get(i).cloned() != Some(distinct.contains(h)) {
                fails.push(("contain".into(), format!("contain_hashes[{i}] (hash {h}) = {:?}", contain.get(i))));
            }
        }
        ans.push(format!("full={};pages={};contain={}", show_pairs(&full), pages_txt, contain.iter().map(|b| if *b { 't' } else { 'f' }).collect::<String>()));
    }
    req.push(')');
    for k in &kinds {
        run.count(k);
    }
    run.count(if wide { "JoinHashMapU64" } else { "JoinHashMapU32" });
    let dup = distinct.len() < n;
    let nontrivial = dup && kinds.iter().any(|k| k.starts_with("resume"));
    run.case("run", &req, &ans.join(" "), nontrivial);
    if fails.is_empty() {
        run.oracle(true, "", "");
    }
    for (sig, d) in fails.iter().take(1) {
        run.oracle(false, &format!("{sig} case#{case_no} {req}"), d);
    }
}

// ------------------------------------------------------------------------------------------
/// End to end: `HashJoinExec` (hash-map path forced) whose probe side arrives as SLICES of larger
/// batches (`RecordBatch::slice`), so the key column's validity bitmap — and hence the `valid_keys`
/// mask handed to the join hash map — starts at a non-zero bit offset; NULL keys on both sides; batch
/// sizes that force the lookup to be paged. Oracle: the nested-loop definition of the join type
/// (NULL keys match nothing), as a bag of (left id, right id).
fn e2e(run: &mut Run, rng: &mut Rng) {
    let n = run.budget(400, 12_000);
    let rt = tokio::runtime::Builder::new_current_thread().enable_all().build().unwrap();
    let schema = Arc::new(Schema::new(vec![Field::new("k", DataType::Int64, true), Field::new("id", DataType::Int64, false)]));
    let jts = [JoinType::Inner, JoinType::Left, JoinType::Right, JoinType::Full, JoinType::LeftSemi, JoinType::LeftAnti, JoinType::RightSemi, JoinType::RightAnti];
    let mk = |rows: &[(Option<i64>, i64)]| -> RecordBatch {
        let k: Int64Array = rows.iter().map(|r| r.0.map(|x| x * 1_000_003)).collect();
        let id: Int64Array = rows.iter().map(|r| Some(r.1)).collect();
        RecordBatch::try_new(schema.clone(), vec![Arc::new(k) as ArrayRef, Arc::new(id) as ArrayRef]).unwrap()
    };
    for case in 0..n {
        let dom = *rng.pick(&[1i64, 2, 3]);
        let key = |rng: &mut Rng| if rng.chance(1, 4) { None } else { Some(1 + rng.below(dom as u64) as i64) };
        let nl = *rng.pick(&[0usize, 1, 2, 3, 5, 8]);
        let nr = *rng.pick(&[0usize, 1, 2, 3, 5, 9, 14]);
        let left: Vec<(Option<i64>, i64)> = (0..nl).map(|i| (key(rng), i as i64)).collect();
        let right: Vec<(Option<i64>, i64)> = (0..nr).map(|i| (key(rng), 100 + i as i64)).collect();
        // probe batches: consecutive chunks, each cut out of a longer batch at a non-zero offset
        let mut rbatches: Vec<RecordBatch> = vec![];
        let mut offs: Vec<usize> = vec![];
        let mut at = 0;
        while at < nr || rbatches.is_empty() {
            let len = if nr == 0 { 0 } else { (1 + rng.below(6) as usize).min(nr - at) };
            let off = *rng.pick(&[0usize, 1, 3, 7, 8, 9, 64, 65]);
            let chunk = &right[at..at + len];
            // junk rows in front: NULL exactly where the real row at the same position is not
            let mut padded: Vec<(Option<i64>, i64)> = (0..off).map(|i| (if chunk.is_empty() || chunk[i % chunk.len()].0.is_some() { None } else { Some(1) }, -7)).collect();
            padded.extend_from_slice(chunk);
            padded.push((Some(2), -8));
            rbatches.push(mk(&padded).slice(off, len));
            offs.push(off);
            at += len;
            if nr == 0 {
                break;
            }
        }
        // build side: one or two batches, also sliced
        let lb = {
            let off = *rng.pick(&[0usize, 2, 9]);
            let mut padded: Vec<(Option<i64>, i64)> = (0..off).map(|_| (Some(1), -9)).collect();
            padded.extend_from_slice(&left);
            mk(&padded).slice(off, nl)
        };
        let jt = *rng.pick(&jts);
        let bsz = *rng.pick(&[1usize, 2, 3, 5, 8192]);
        let on: Vec<(Arc<dyn PhysicalExpr>, Arc<dyn PhysicalExpr>)> = vec![(Arc::new(Column::new("k", 0)), Arc::new(Column::new("k", 0)))];
        let lexec = MemorySourceConfig::try_new_exec(&[vec![lb]], schema.clone(), None).unwrap();
        let rexec = MemorySourceConfig::try_new_exec(&[rbatches], schema.clone(), None).unwrap();
        let plan = HashJoinExec::try_new(lexec, rexec, on, None, &jt, None, PartitionMode::CollectLeft, NullEquality::NullEqualsNothing, false).unwrap();
        let mut cfg = SessionConfig::new().with_batch_size(bsz);
        cfg.options_mut().execution.perfect_hash_join_small_build_threshold = 0;
        cfg.options_mut().execution.perfect_hash_join_min_key_density = 1.0e18;
        let ctx = Arc::new(TaskContext::default().with_session_config(cfg));
        let plan: Arc<dyn ExecutionPlan> = Arc::new(plan);
        let res = hutil::catch(std::panic::AssertUnwindSafe(|| rt.block_on(async { tokio::time::timeout(std::time::Duration::from_secs(20), collect(plan, ctx)).await })));
        // ---- the definition
        let m = |l: &(Option<i64>, i64), r: &(Option<i64>, i64)| l.0.is_some() && l.0 == r.0;
        let mut want: Vec<(i64, i64)> = vec![];
        match jt {
            JoinType::Inner | JoinType::Left | JoinType::Right | JoinType::Full => {
                for l in &left {
                    for r in &right {
                        if m(l, r) {
                            want.push((l.1, r.1));
                        }
                    }
                }
                if matches!(jt, JoinType::Left | JoinType::Full) {
                    want.extend(left.iter().filter(|l| !right.iter().any(|r| m(l, r))).map(|l| (l.1, -1)));
                }
                if matches!(jt, JoinType::Right | JoinType::Full) {
                    want.extend(right.iter().filter(|r| !left.iter().any(|l| m(l, r))).map(|r| (-1, r.1)));
                }
            }
            JoinType::LeftSemi => want.extend(left.iter().filter(|l| right.iter().any(|r| m(l, r))).map(|l| (l.1, -1))),
            JoinType::LeftAnti => want.extend(left.iter().filter(|l| !right.iter().any(|r| m(l, r))).map(|l| (l.1, -1))),
            JoinType::RightSemi => want.extend(right.iter().filter(|r| left.iter().any(|l| m(l, r))).map(|r| (-1, r.1))),
            _ => want.extend(right.iter().filter(|r| !left.iter().any(|l| m(l, r))).map(|r| (-1, r.1))),
        }
        want.sort();
        let got: Result<Vec<(i64, i64)>, String> = match res {
            Err(p) => Err(format!("panic: {p}")),
            Ok(Err(_)) => Err("hang (20 s)".into()),
            Ok(Ok(Err(e))) => Err(format!("error: {e}")),
            Ok(Ok(Ok(batches))) => {
                let mut v = vec![];
                for b in &batches {
                    let id_of = |c: usize, i: usize| {
                        let a = b.column(c).as_any().downcast_ref::<Int64Array>().unwrap();
                        if a.is_null(i) { -1 } else { a.value(i) }
                    };
                    for i in 0..b.num_rows() {
                        v.push(match jt {
                            JoinType::Inner | JoinType::Left | JoinType::Right | JoinType::Full => (id_of(1, i), id_of(3, i)),
                            JoinType::LeftSemi | JoinType::LeftAnti => (id_of(1, i), -1),
                            _ => (-1, id_of(1, i)),
                        });
                    }
                }
                v.sort();
                Ok(v)
            }
        };
        run.count(&format!("e2e:{jt:?}"));
        if offs.iter().any(|o| *o > 0) {
            run.count("e2e:sliced-probe-batch");
        }
        if right.iter().any(|r| r.0.is_none()) {
            run.count("e2e:null-probe-keys");
        }
        let ok = got.as_ref().map(|g| g == &want).unwrap_or(false);
        run.oracle(
            ok,
            &format!("hashjoin-e2e case#{case} {jt:?} batch_size={bsz} left={left:?} right={right:?} probe-slice-offsets={offs:?}"),
            &format!("HashJoinExec returned {got:?}, the definition gives {want:?}"),
        );
    }
}

pub fn run(run: &mut Run, args: &Args) {
    hutil::quiet_panics();
    let mut rng = Rng::new(args.seed);
    let n = run.budget(4000, 150_000);
    for i in 0..n {
        run_case(run, &mut rng, i, None);
    }
    // exhaustive: every build of ≤ 4 (quick) / 5 (thorough) rows over 2 hash values × capacity slack 0/1
    // × every page size
    let maxn = if run.thorough() { 5 } else { 4 };
    let mut no = n;
    for len in 0..=maxn {
        for bits in 0..(1u32 << len) {
            let h: Vec<u64> = (0..len).map(|i| if bits >> i & 1 == 1 { 2 } else { 1 }).collect();
            for extra in 0..2 {
                run_case(run, &mut rng, no, Some((h.clone(), extra)));
                run.count("exhaustive-build");
                no += 1;
            }
        }
    }
    e2e(run, &mut rng);
}
