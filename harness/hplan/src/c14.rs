//! C14 — join hash table lookups return exactly the matching build rows.
//!
//! Real `JoinHashMapU32` / `JoinHashMapU64` (public `joins::join_hash_map`) driven through
//! `JoinHashMapType`: the map is built with one or several `update_from_iter` calls (batches; rows in
//! descending order as `HashJoinExec` does, ascending as the symmetric join does, or shuffled), from
//! hash multisets with heavy duplicates, with capacity = rows (all-unique fast path reachable) or
//! larger; then queried with probe hash sequences (hits, misses, repeated probes, NULL-key masks)
//! * `get_matched_indices` (the full lookup),
//! * `get_matched_indices_with_limit_offset` paged with every interesting limit, resuming from the
//!   returned offset until `None`,
//! * `contain_hashes`, `len`, `is_empty`.
//! Correspondence: equality (order included) with the Lean model `Sm.Jhm`.
//! Implementation-level oracle: full lookup = for every probe, the build rows with an equal hash, each
//! once, in reverse insertion order; concatenated pages = full lookup restricted to valid probes;
//! membership = "the lookup is non-empty"; no page is longer than `limit`; paging terminates.
use arrow::buffer::NullBuffer;
use datafusion_physical_plan::joins::join_hash_map::{JoinHashMapType, JoinHashMapU32, JoinHashMapU64};
use hutil::{Args, Rng, Run};

type Pairs = Vec<(u32, u64)>;

fn show_pairs(p: &Pairs) -> String {
    p.iter().map(|(a, b)| format!("{a}-{b}")).collect::<Vec<_>>().join(",")
}

struct Query {
    hashes: Vec<u64>,
    valid: Option<Vec<bool>>,
    limit: usize,
}

fn run_case(run: &mut Run, rng: &mut Rng, case_no: u64, exhaustive: Option<(Vec<u64>, usize)>) {
    // ---- build side
    let (hashes, order_kind, nbatches, cap_extra, wide): (Vec<u64>, u64, usize, usize, bool) = match &exhaustive {
        Some((h, extra)) => (h.clone(), 0, 1, *extra, false),
        None => {
            let n = *rng.pick(&[0usize, 1, 2, 3, 4, 5, 6, 8, 12, if run.thorough() { 40 } else { 16 }]);
            let unique = rng.chance(1, 4);
            let dom = *rng.pick(&[1u64, 2, 3, 5]);
            let h: Vec<u64> = (0..n).map(|i| if unique { 100 + i as u64 } else { 1 + rng.below(dom) }).collect();
            (h, rng.below(3), 1 + rng.below(3) as usize, *rng.pick(&[0usize, 0, 1, 3]), rng.chance(1, 2))
        }
    };
    let n = hashes.len();
    let cap = n + cap_extra;
    // insertion order of the rows
    let mut rows: Vec<usize> = (0..n).collect();
    match order_kind {
        0 => rows.reverse(), // HashJoinExec: highest row first, chains come out ascending
        1 => {}              // ascending insertion (symmetric hash join style), chains descend
        _ => {
            for i in (1..n).rev() {
                let j = rng.below(i as u64 + 1) as usize;
                rows.swap(i, j);
            }
        }
    }
    // split into batches (consecutive slices of the insertion order)
    let mut batches: Vec<Vec<(usize, u64)>> = vec![];
    {
        let mut cuts: Vec<usize> = (0..nbatches.saturating_sub(1)).map(|_| rng.below(n as u64 + 1) as usize).collect();
        cuts.push(0);
        cuts.push(n);
        cuts.sort();
        for w in cuts.windows(2) {
            batches.push(rows[w[0]..w[1]].iter().map(|r| (*r, hashes[*r])).collect());
        }
    }
    let mut map: Box<dyn JoinHashMapType> = if wide { Box::new(JoinHashMapU64::with_capacity(cap)) } else { Box::new(JoinHashMapU32::with_capacity(cap)) };
    let mut req = format!("({cap} (batches");
    for b in &batches {
        req.push_str(" (b");
        for (r, h) in b {
            req.push_str(&format!(" ({r} {h})"));
        }
        req.push(')');
        map.update_from_iter(Box::new(b.iter().map(|(r, h)| (*r, h))), 0);
    }
    req.push(')');
    let inserted: Vec<(usize, u64)> = batches.iter().flatten().cloned().collect();
    let distinct: std::collections::BTreeSet<u64> = hashes.iter().cloned().collect();
    let all_unique_fast = distinct.len() == cap;
    let mut ans = vec![format!("len={};empty={}", map.len(), if map.is_empty() { "t" } else { "f" })];
    let mut fails: Vec<(String, String)> = vec![];
    if map.len() != distinct.len() {
        fails.push(("len".into(), format!("len()={} but {} distinct hashes", map.len(), distinct.len())));
    }
    // ---- queries
    let nq = if exhaustive.is_some() { 0 } else { 1 + rng.below(3) as usize };
    let mut queries: Vec<Query> = vec![];
    for _ in 0..nq {
        let np = *rng.pick(&[0usize, 1, 2, 3, 5, 8]);
        let hs: Vec<u64> = (0..np)
            .map(|_| if n > 0 && rng.chance(3, 4) { hashes[rng.below(n as u64) as usize] } else { 900 + rng.below(3) })
            .collect();
        let valid = if rng.chance(1, 2) { None } else { Some((0..np).map(|_| !rng.chance(1, 4)).collect()) };
        let total: usize = hs.iter().map(|h| hashes.iter().filter(|x| *x == h).count()).sum();
        let limit = *rng.pick(&[1usize, 1, 2, 3, 5, total.max(1), total + 1, total.saturating_sub(1).max(1), 1000]);
        queries.push(Query { hashes: hs, valid, limit });
    }
    if let Some((h, _)) = &exhaustive {
        // probe every hash value of the domain plus a miss, all page sizes
        let mut probe: Vec<u64> = vec![1, 2, 9, 1];
        probe.truncate(4);
        let total: usize = probe.iter().map(|p| h.iter().filter(|x| *x == p).count()).sum();
        for limit in 1..=(total + 1) {
            queries.push(Query { hashes: probe.clone(), valid: None, limit });
        }
        queries.push(Query { hashes: probe.clone(), valid: Some(vec![true, false, true, true]), limit: 2 });
    }
    let mut kinds = std::collections::BTreeSet::new();
    if all_unique_fast {
        kinds.insert("fast-path(all-unique)");
    }
    if batches.len() > 1 {
        kinds.insert("multi-batch");
    }
    for q in &queries {
        req.push_str(&format!(
            " (q ({}) ({}) {})",
            q.hashes.iter().map(|h| h.to_string()).collect::<Vec<_>>().join(" "),
            q.valid.as_ref().map(|v| v.iter().map(|b| if *b { "t" } else { "f" }).collect::<Vec<_>>().join(" ")).unwrap_or_default(),
            q.limit
        ));
        // full lookup
        let (ii, mi) = map.get_matched_indices(Box::new(q.hashes.iter().enumerate()), None);
        let full: Pairs = ii.into_iter().zip(mi).collect();
        // oracle: every build row with an equal hash, once, in reverse insertion order
        let mut want: Pairs = vec![];
        for (p, h) in q.hashes.iter().enumerate() {
            for (r, hh) in inserted.iter().rev() {
                if hh == h {
                    want.push((p as u32, *r as u64));
                }
            }
        }
        if full != want {
            fails.push(("full-lookup".into(), format!("probes {:?}: got [{}], the equal-hash rows are [{}]", q.hashes, show_pairs(&full), show_pairs(&want))));
        }
        // paged
        let nulls = q.valid.as_ref().map(|v| NullBuffer::from(v.clone()));
        let mut offset: (usize, Option<u64>) = (0, None);
        let mut pages: Vec<Pairs> = vec![];
        let (mut ib, mut mb) = (vec![7u32; 2], vec![7u64; 2]);
        let mut calls = 0;
        let pages_txt: String;
        loop {
            calls += 1;
            if calls > 10_000 {
                fails.push(("paging-does-not-terminate".into(), format!("limit {} probes {:?}", q.limit, q.hashes)));
                break;
            }
            let r = hutil::catch(std::panic::AssertUnwindSafe(|| map.get_matched_indices_with_limit_offset(&q.hashes, nulls.as_ref(), q.limit, offset, &mut ib, &mut mb)));
            match r {
                Err(p) => {
                    fails.push(("paging-panic".into(), format!("limit {} offset {:?}: {p}", q.limit, offset)));
                    pages.push(vec![(u32::MAX, u64::MAX)]);
                    break;
                }
                Ok(next) => {
                    let page: Pairs = ib.iter().cloned().zip(mb.iter().cloned()).collect();
                    if page.len() > q.limit && !all_unique_fast {
                        fails.push(("page-too-long".into(), format!("limit {} page [{}]", q.limit, show_pairs(&page))));
                    }
                    match next {
                        Some((_, Some(0))) => {
                            kinds.insert("resume-at-chain-end(Some 0)");
                        }
                        Some((_, Some(_))) => {
                            kinds.insert("resume-inside-chain(Some next)");
                        }
                        Some((_, None)) => {
                            kinds.insert("resume-at-probe(None)");
                        }
                        None => {}
                    }
                    pages.push(page);
                    match next {
                        Some(o) => offset = o,
                        None => break,
                    }
                }
            }
        }
        if pages.len() > 2 {
            kinds.insert("3+pages");
        }
        pages_txt = pages.iter().map(show_pairs).collect::<Vec<_>>().join("/");
        let concat: Pairs = pages.iter().flatten().cloned().collect();
        let want_valid: Pairs = want.iter().filter(|(p, _)| q.valid.as_ref().map(|v| v[*p as usize]).unwrap_or(true)).cloned().collect();
        if q.valid.is_some() {
            kinds.insert("null-mask");
        }
        if concat != want_valid {
            fails.push(("pages-concat-ne-full".into(), format!("limit {} probes {:?} valid {:?}: pages [{}] but the full lookup (valid probes) is [{}]", q.limit, q.hashes, q.valid, pages_txt, show_pairs(&want_valid))));
        }
        // membership
        let c = map.contain_hashes(&q.hashes);
        let contain: Vec<bool> = (0..c.len()).map(|i| c.value(i)).collect();
        for (i, h) in q.hashes.iter().enumerate() {
            if contain.get(i).cloned() != Some(distinct.contains(h)) {
                fails.push(("contain".into(), format!("contain_hashes[{i}] (hash {h}) = {:?}", contain.get(i))));
            }
        }
        ans.push(format!("full={};pages={};contain={}", show_pairs(&full), pages_txt, contain.iter().map(|b| if *b { 't' } else { 'f' }).collect::<String>()));
    }
    req.push(')');
    for k in &kinds {
        run.count(k);
    }
    run.count(if wide { "JoinHashMapU64" } else { "JoinHashMapU32" });
    let dup = distinct.len() < n;
    let nontrivial = dup && kinds.iter().any(|k| k.starts_with("resume"));
    run.case("run", &req, &ans.join(" "), nontrivial);
    if fails.is_empty() {
        run.oracle(true, "", "");
    }
    for (sig, d) in fails.iter().take(1) {
        run.oracle(false, &format!("{sig} case#{case_no} {req}"), d);
    }
}

pub fn run(run: &mut Run, args: &Args) {
    hutil::quiet_panics();
    let mut rng = Rng::new(args.seed);
    let n = run.budget(4000, 150_000);
    for i in 0..n {
        run_case(run, &mut rng, i, None);
    }
    // exhaustive: every build of ≤ 4 (quick) / 5 (thorough) rows over 2 hash values × capacity slack 0/1
    // × every page size
    let maxn = if run.thorough() { 5 } else { 4 };
    let mut no = n;
    for len in 0..=maxn {
        for bits in 0..(1u32 << len) {
            let h: Vec<u64> = (0..len).map(|i| if bits >> i & 1 == 1 { 2 } else { 1 }).collect();
            for extra in 0..2 {
                run_case(run, &mut rng, no, Some((h.clone(), extra)));
                run.count("exhaustive-build");
                no += 1;
            }
        }
    }
}
