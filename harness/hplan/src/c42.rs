//! C42 — tree traversal and rewriting follow their recursion contract.
//!
//! Tie (K) for the hand model `DfModel.Sm.TreeWalk` and validation of translator T2's tables
//! (`DfModel.Gen.TreeNodeTbl`):
//!   * `tbl`  : every generated table × its whole domain vs the compiled function;
//!   * `apply`, `visit`, `tdown`, `tup`, `tdownup`, `rewrite`: real `TreeNode` default methods driven
//!     on real trees built FROM a model tree shape (child order known by construction) with
//!     callbacks that follow a decision vector indexed by the invocation count.  Families:
//!       - `expr`: `datafusion_expr::Expr` (Literal / Alias / Like / ScalarFunction /
//!         AggregateFunction nodes — Box, tuple, Vec and Option containers);
//!       - `rose`: a harness tree whose children live in a `(Vec, Vec)` tuple container (the real
//!         `TreeNodeContainer` impls and the real default methods).
//! Implementation-level oracles (no model): the run must equal a direct reference of the
//! *documented* contract; no callback after `Stop`/`Err`; `transformed` = OR of reported flags;
//! result tree = input with exactly the replacements made.
use std::cell::RefCell;
use std::collections::HashMap;
use std::sync::Arc;

use arrow::datatypes::DataType;
use datafusion_common::tree_node::{
    Transformed, TreeNode, TreeNodeContainer, TreeNodeRecursion, TreeNodeRefContainer, TreeNodeRewriter, TreeNodeVisitor,
};
use datafusion_common::{DataFusionError, Result, ScalarValue};
use datafusion_expr::expr::{AggregateFunction, Alias, Like, ScalarFunction};
use datafusion_expr::function::AccumulatorArgs;
use datafusion_expr::{
    Accumulator, AggregateUDF, AggregateUDFImpl, ColumnarValue, Expr, ScalarFunctionArgs, ScalarUDF, ScalarUDFImpl, Signature,
    Volatility,
};
use hutil::{Args, Rng, Run};

type Tnr = TreeNodeRecursion;

// ------------------------------------------------------------------ model-side tree shape
#[derive(Clone, Debug, PartialEq)]
struct M {
    label: u64,
    kids: Vec<M>,
    reset: bool,
}
impl M {
    fn sexp(&self) -> String {
        let mut s = format!("({} {}", self.label, if self.reset { "t" } else { "f" });
        for k in &self.kids {
            s.push(' ');
            s.push_str(&k.sexp());
        }
        s.push(')');
        s
    }
    fn size(&self) -> usize {
        1 + self.kids.iter().map(|k| k.size()).sum::<usize>()
    }
    fn has_reset(&self) -> bool {
        (self.reset && !self.kids.is_empty()) || self.kids.iter().any(|k| k.has_reset())
    }
}

fn tnr_name(t: Tnr) -> &'static str {
    match t {
        Tnr::Continue => "Continue",
        Tnr::Jump => "Jump",
        Tnr::Stop => "Stop",
    }
}

// ------------------------------------------------------------------ decisions
#[derive(Clone, Copy, Debug, PartialEq)]
enum Dec {
    /// inspecting callback result
    V(Tnr),
    /// rewriting callback result: tnr, transformed flag, relabel?
    T(Tnr, bool, bool),
    E,
}
impl Dec {
    fn atom(&self) -> String {
        let c = |t: &Tnr| match t {
            Tnr::Continue => 'C',
            Tnr::Jump => 'J',
            Tnr::Stop => 'S',
        };
        match self {
            Dec::V(t) => c(t).to_string(),
            Dec::T(t, f, r) => format!("{}{}{}", c(t), if *f { 't' } else { 'f' }, if *r { 'r' } else { 'k' }),
            Dec::E => "E".into(),
        }
    }
    fn tnr(&self) -> Option<Tnr> {
        match self {
            Dec::V(t) | Dec::T(t, _, _) => Some(*t),
            Dec::E => None,
        }
    }
}

/// shared state of the callbacks of one run
struct Cb {
    decs: Vec<Dec>,
    rewriting: bool,
    k: usize,
    log: Vec<String>,
    /// (phase, label seen, decision)
    calls: Vec<(char, u64, Dec)>,
}
impl Cb {
    fn next(&mut self, phase: char, label: u64) -> Dec {
        let d = self.decs.get(self.k).copied().unwrap_or(if self.rewriting { Dec::T(Tnr::Continue, false, false) } else { Dec::V(Tnr::Continue) });
        self.k += 1;
        self.log.push(format!("{phase}{label}"));
        self.calls.push((phase, label, d));
        d
    }
}
fn err() -> DataFusionError {
    DataFusionError::Execution("E".into())
}

// ------------------------------------------------------------------ families
trait Fam: TreeNode + Clone {
    const NAME: &'static str;
    fn build(m: &M) -> Self;
    fn label(&self) -> u64;
    fn relabel(self, new: u64) -> Self;
    fn kids(&self) -> Vec<&Self>;
    fn kind(&self) -> &'static str;
    fn shape(&self) -> String {
        let mut s = format!("({}", self.label());
        for k in self.kids() {
            s.push(' ');
            s.push_str(&k.shape());
        }
        s.push(')');
        s
    }
}

// ---- rose: children in a (Vec, Vec) tuple container
#[derive(Clone, Debug, PartialEq)]
struct Rose {
    label: u64,
    a: Vec<Rose>,
    b: Vec<Rose>,
}
impl<'a> TreeNodeContainer<'a, Self> for Rose {
    fn apply_elements<F: FnMut(&'a Self) -> Result<TreeNodeRecursion>>(&'a self, mut f: F) -> Result<TreeNodeRecursion> {
        f(self)
    }
    fn map_elements<F: FnMut(Self) -> Result<Transformed<Self>>>(self, mut f: F) -> Result<Transformed<Self>> {
        f(self)
    }
}
impl TreeNode for Rose {
    fn apply_children<'n, F: FnMut(&'n Self) -> Result<TreeNodeRecursion>>(&'n self, f: F) -> Result<TreeNodeRecursion> {
        (&self.a, &self.b).apply_ref_elements(f)
    }
    fn map_children<F: FnMut(Self) -> Result<Transformed<Self>>>(self, f: F) -> Result<Transformed<Self>> {
        let label = self.label;
        (self.a, self.b).map_elements(f)?.map_data(|(a, b)| Ok(Rose { label, a, b }))
    }
}
impl Fam for Rose {
    const NAME: &'static str = "rose";
    fn build(m: &M) -> Self {
        let kids: Vec<Rose> = m.kids.iter().map(Rose::build).collect();
        let n = kids.len();
        let split = if n == 0 || m.reset { n } else { (m.label as usize) % n };
        let b = kids[split..].to_vec();
        let a = kids[..split].to_vec();
        Rose { label: m.label, a, b }
    }
    fn label(&self) -> u64 {
        self.label
    }
    fn relabel(mut self, new: u64) -> Self {
        self.label = new;
        self
    }
    fn kids(&self) -> Vec<&Self> {
        self.a.iter().chain(self.b.iter()).collect()
    }
    fn kind(&self) -> &'static str {
        if self.b.is_empty() && !self.a.is_empty() { "rose(Vec,empty Vec)" } else { "rose(Vec,Vec)" }
    }
}

// ---- expr
#[derive(Debug, PartialEq, Eq, Hash)]
struct StubUdf {
    name: String,
    sig: Signature,
}
impl ScalarUDFImpl for StubUdf {
    fn name(&self) -> &str {
        &self.name
    }
    fn signature(&self) -> &Signature {
        &self.sig
    }
    fn return_type(&self, _: &[DataType]) -> Result<DataType> {
        Ok(DataType::Int64)
    }
    fn invoke_with_args(&self, _: ScalarFunctionArgs) -> Result<ColumnarValue> {
        Err(err())
    }
}
#[derive(Debug, PartialEq, Eq, Hash)]
struct StubUdaf {
    name: String,
    sig: Signature,
}
impl AggregateUDFImpl for StubUdaf {
    fn name(&self) -> &str {
        &self.name
    }
    fn signature(&self) -> &Signature {
        &self.sig
    }
    fn return_type(&self, _: &[DataType]) -> Result<DataType> {
        Ok(DataType::Int64)
    }
    fn accumulator(&self, _: AccumulatorArgs) -> Result<Box<dyn Accumulator>> {
        Err(err())
    }
}
fn udf(label: u64) -> Arc<ScalarUDF> {
    Arc::new(ScalarUDF::new_from_impl(StubUdf { name: format!("f{label}"), sig: Signature::variadic_any(Volatility::Immutable) }))
}
fn udaf(label: u64) -> Arc<AggregateUDF> {
    Arc::new(AggregateUDF::new_from_impl(StubUdaf { name: format!("a{label}"), sig: Signature::variadic_any(Volatility::Immutable) }))
}
fn mk_expr(label: u64, reset: bool, mut kids: Vec<Expr>) -> Expr {
    let n = kids.len();
    let odd = label % 2 == 1;
    if n == 0 {
        return Expr::Literal(ScalarValue::UInt64(Some(label)), None);
    }
    if reset {
        // (args, filter, order_by) with an EMPTY order_by container at the end
        if odd && n >= 2 {
            let filt = kids.pop().unwrap();
            return Expr::AggregateFunction(AggregateFunction::new_udf(udaf(label), kids, false, Some(Box::new(filt)), vec![], None));
        }
        return Expr::AggregateFunction(AggregateFunction::new_udf(udaf(label), kids, false, None, vec![], None));
    }
    if n == 1 && odd {
        return Expr::Alias(Alias::new(kids.pop().unwrap(), None::<&str>, format!("{label}")));
    }
    if n == 2 && odd {
        let p = kids.pop().unwrap();
        let e = kids.pop().unwrap();
        return Expr::Like(Like::new(false, Box::new(e), Box::new(p), char::from_u32(label as u32), false));
    }
    Expr::ScalarFunction(ScalarFunction::new_udf(udf(label), kids))
}
impl Fam for Expr {
    const NAME: &'static str = "expr";
    fn build(m: &M) -> Self {
        mk_expr(m.label, m.reset, m.kids.iter().map(Expr::build).collect())
    }
    fn label(&self) -> u64 {
        match self {
            Expr::Literal(ScalarValue::UInt64(Some(v)), _) => *v,
            Expr::Alias(a) => a.name.parse().unwrap(),
            Expr::Like(l) => l.escape_char.unwrap() as u64,
            Expr::ScalarFunction(f) => f.func.name()[1..].parse().unwrap(),
            Expr::AggregateFunction(f) => f.func.name()[1..].parse().unwrap(),
            e => panic!("unexpected expr {e:?}"),
        }
    }
    fn relabel(self, new: u64) -> Self {
        match self {
            Expr::Literal(_, m) => Expr::Literal(ScalarValue::UInt64(Some(new)), m),
            Expr::Alias(a) => Expr::Alias(Alias::new(*a.expr, a.relation, format!("{new}"))),
            Expr::Like(l) => Expr::Like(Like::new(l.negated, l.expr, l.pattern, char::from_u32(new as u32), l.case_insensitive)),
            Expr::ScalarFunction(f) => Expr::ScalarFunction(ScalarFunction::new_udf(udf(new), f.args)),
            Expr::AggregateFunction(f) => Expr::AggregateFunction(AggregateFunction::new_udf(
                udaf(new),
                f.params.args,
                f.params.distinct,
                f.params.filter,
                f.params.order_by,
                f.params.null_treatment,
            )),
            e => panic!("unexpected expr {e:?}"),
        }
    }
    fn kids(&self) -> Vec<&Self> {
        match self {
            Expr::Literal(..) => vec![],
            Expr::Alias(a) => vec![a.expr.as_ref()],
            Expr::Like(l) => vec![l.expr.as_ref(), l.pattern.as_ref()],
            Expr::ScalarFunction(f) => f.args.iter().collect(),
            Expr::AggregateFunction(f) => f.params.args.iter().chain(f.params.filter.iter().map(|b| b.as_ref())).collect(),
            e => panic!("unexpected expr {e:?}"),
        }
    }
    fn kind(&self) -> &'static str {
        match self {
            Expr::Literal(..) => "Literal",
            Expr::Alias(_) => "Alias",
            Expr::Like(_) => "Like",
            Expr::ScalarFunction(_) => "ScalarFunction",
            Expr::AggregateFunction(_) => "AggregateFunction(no ORDER BY)",
            _ => "?",
        }
    }
}

// ------------------------------------------------------------------ running the real code
struct Outcome {
    log: Vec<String>,
    calls: Vec<(char, u64, Dec)>,
    /// None = Err
    vres: Option<Tnr>,
    /// (shape, transformed, tnr)
    tres: Option<(String, bool, Tnr)>,
    answer: String,
}

impl<'a, 'n, T: Fam + 'n> TreeNodeVisitor<'n> for VisT<'a, T> {
    type Node = T;
    fn f_down(&mut self, n: &'n T) -> Result<Tnr> {
        vcall(self.0, 'd', n)
    }
    fn f_up(&mut self, n: &'n T) -> Result<Tnr> {
        vcall(self.0, 'u', n)
    }
}
struct VisT<'a, T>(&'a RefCell<Cb>, std::marker::PhantomData<T>);
struct RewT<'a, T>(&'a RefCell<Cb>, std::marker::PhantomData<T>);
impl<'a, T: Fam> TreeNodeRewriter for RewT<'a, T> {
    type Node = T;
    fn f_down(&mut self, n: T) -> Result<Transformed<T>> {
        tcall(self.0, 'd', n)
    }
    fn f_up(&mut self, n: T) -> Result<Transformed<T>> {
        tcall(self.0, 'u', n)
    }
}
fn vcall<T: Fam>(cb: &RefCell<Cb>, phase: char, n: &T) -> Result<Tnr> {
    match cb.borrow_mut().next(phase, n.label()) {
        Dec::V(t) => Ok(t),
        _ => Err(err()),
    }
}
fn tcall<T: Fam>(cb: &RefCell<Cb>, phase: char, n: T) -> Result<Transformed<T>> {
    let l = n.label();
    let (d, k) = {
        let mut c = cb.borrow_mut();
        let d = c.next(phase, l);
        (d, c.k as u64)
    };
    match d {
        Dec::T(t, f, r) => Ok(Transformed::new(if r { n.relabel(l + 100 * k) } else { n }, f, t)),
        _ => Err(err()),
    }
}

fn run_real<T: Fam>(op: &str, m: &M, decs: &[Dec]) -> Outcome {
    let rewriting = !matches!(op, "apply" | "visit");
    let cb = RefCell::new(Cb { decs: decs.to_vec(), rewriting, k: 0, log: vec![], calls: vec![] });
    let t = T::build(m);
    let mut vres = None;
    let mut tres = None;
    let ok;
    if !rewriting {
        let r = if op == "apply" { t.apply(|n| vcall(&cb, 'd', n)) } else { t.visit(&mut VisT(&cb, std::marker::PhantomData)) };
        ok = r.is_ok();
        vres = r.ok();
    } else {
        let r = match op {
            "tdown" => t.transform_down(|n| tcall(&cb, 'd', n)),
            "tup" => t.transform_up(|n| tcall(&cb, 'u', n)),
            "tdownup" => t.transform_down_up(|n| tcall(&cb, 'd', n), |n| tcall(&cb, 'u', n)),
            "rewrite" => t.rewrite(&mut RewT(&cb, std::marker::PhantomData)),
            _ => unreachable!(),
        };
        ok = r.is_ok();
        tres = r.ok().map(|t| (t.data.shape(), t.transformed, t.tnr));
    }
    let cb = cb.into_inner();
    let logs = format!("({})", cb.log.join(" "));
    let answer = if !ok {
        format!("{logs} err")
    } else if let Some(v) = vres {
        format!("{logs} {}", tnr_name(v))
    } else {
        let (s, f, t) = tres.clone().unwrap();
        format!("{logs} {s} {} {}", if f { "t" } else { "f" }, tnr_name(t))
    };
    Outcome { log: cb.log, calls: cb.calls, vres, tres, answer }
}

// ------------------------------------------------------------------ reference of the documented contract
/// Direct transcription of the documentation of `TreeNodeRecursion` (not of the code):
/// pre-order `f_down`, post-order `f_up`; `Jump` from `f_down` skips the node's children; `Jump`
/// from `f_up` skips the `f_up` of the ancestors up to the first one that still has unvisited
/// children; `Stop` ends everything; an error ends everything.  `quirk = true` additionally
/// applies what the code does for nodes whose last child container is empty (used only to
/// classify a contract failure).
struct Reference<'a> {
    decs: &'a [Dec],
    rewriting: bool,
    k: usize,
    log: Vec<String>,
    quirk: bool,
    down: bool,
    up: bool,
}
impl<'a> Reference<'a> {
    fn call(&mut self, phase: char, label: u64) -> Dec {
        let d = self.decs.get(self.k).copied().unwrap_or(if self.rewriting { Dec::T(Tnr::Continue, false, false) } else { Dec::V(Tnr::Continue) });
        self.k += 1;
        self.log.push(format!("{phase}{label}"));
        d
    }
    /// returns None on error, else (shape, transformed, tnr)
    fn walk(&mut self, n: &M) -> Option<(String, bool, Tnr)> {
        let mut cur = n.label;
        let mut flag = false;
        let mut d = Tnr::Continue;
        if self.down {
            match self.call('d', cur) {
                Dec::E => return None,
                Dec::V(t) => d = t,
                Dec::T(t, f, r) => {
                    d = t;
                    flag |= f;
                    if r {
                        cur += 100 * self.k as u64;
                    }
                }
            }
        }
        let unchanged = |cur: u64, n: &M| {
            let mut s = format!("({cur}");
            for k in &n.kids {
                s.push(' ');
                s.push_str(&plain_shape(k));
            }
            s.push(')');
            s
        };
        let mut after = Tnr::Continue;
        let mut kids_s: Vec<String> = n.kids.iter().map(plain_shape).collect();
        match d {
            Tnr::Stop => return Some((unchanged(cur, n), flag, Tnr::Stop)),
            Tnr::Jump => {}
            Tnr::Continue => {
                for (i, c) in n.kids.iter().enumerate() {
                    let (s, f, r) = self.walk(c)?;
                    kids_s[i] = s;
                    flag |= f;
                    after = r;
                    if r == Tnr::Stop {
                        break;
                    }
                }
                if self.quirk && n.reset && after != Tnr::Stop {
                    after = Tnr::Continue;
                }
            }
        }
        let shape = |cur: u64, kids_s: &Vec<String>| {
            let mut s = format!("({cur}");
            for k in kids_s {
                s.push(' ');
                s.push_str(k);
            }
            s.push(')');
            s
        };
        if after == Tnr::Stop || !self.up || after == Tnr::Jump {
            return Some((shape(cur, &kids_s), flag, after));
        }
        match self.call('u', cur) {
            Dec::E => None,
            Dec::V(t) => Some((shape(cur, &kids_s), flag, t)),
            Dec::T(t, f, r) => {
                flag |= f;
                if r {
                    cur += 100 * self.k as u64;
                }
                Some((shape(cur, &kids_s), flag, t))
            }
        }
    }
}
fn plain_shape(m: &M) -> String {
    let mut s = format!("({}", m.label);
    for k in &m.kids {
        s.push(' ');
        s.push_str(&plain_shape(k));
    }
    s.push(')');
    s
}
fn reference(op: &str, m: &M, decs: &[Dec], quirk: bool) -> String {
    let rewriting = !matches!(op, "apply" | "visit");
    let (down, up) = match op {
        "apply" | "tdown" => (true, false),
        "tup" => (false, true),
        _ => (true, true),
    };
    let mut r = Reference { decs, rewriting, k: 0, log: vec![], quirk, down, up };
    let res = r.walk(m);
    let logs = format!("({})", r.log.join(" "));
    match res {
        None => format!("{logs} err"),
        Some((s, f, t)) => {
            if rewriting {
                format!("{logs} {s} {} {}", if f { "t" } else { "f" }, tnr_name(t))
            } else {
                format!("{logs} {}", tnr_name(t))
            }
        }
    }
}

// ------------------------------------------------------------------ one case
fn one<T: Fam>(run: &mut Run, op: &str, m: &M, decs: &[Dec]) {
    let mm = m.clone();
    let dd = decs.to_vec();
    let opn = op.to_string();
    let out = match hutil::catch(std::panic::AssertUnwindSafe(move || run_real::<T>(&opn, &mm, &dd))) {
        Ok(o) => o,
        Err(p) => {
            run.oracle(false, &format!("panic fam={} op={op} tree={} decs={:?}", T::NAME, m.sexp(), decs), &p);
            return;
        }
    };
    let dstr = format!("({})", decs.iter().map(|d| d.atom()).collect::<Vec<_>>().join(" "));
    let used = out.calls.len();
    let kinds_used = {
        let mut s = std::collections::BTreeSet::new();
        for c in &out.calls {
            s.insert(c.2.atom());
        }
        s.len()
    };
    let model_op = if op == "rewrite" { "rewrite" } else { op };
    run.case(model_op, &format!("({} {dstr})", m.sexp()), &out.answer, used >= 3 && kinds_used >= 2);
    run.count(&format!("{}:{op}", T::NAME));
    run.count(&format!("nodes={}", m.size().min(9)));
    if m.has_reset() {
        run.count("tree has an empty trailing container");
    }
    for c in &out.calls {
        run.count(&format!("decision {}", match c.2 { Dec::E => "Err".to_string(), d => tnr_name(d.tnr().unwrap()).to_string() }));
    }
    let input = format!("fam={} op={op} tree={} decs={dstr}", T::NAME, m.sexp());
    // (1) the documented contract
    let want = reference(op, m, decs, false);
    if out.answer != want {
        let quirk = reference(op, m, decs, true);
        let sig = if out.answer == quirk {
            format!("jump-from-last-child-dropped-by-empty-trailing-container fam={} op={op} tree={} decs={dstr}", T::NAME, m.sexp())
        } else {
            format!("contract-mismatch {input}")
        };
        run.oracle(false, &sig, &format!("real `{}` vs documented contract `{want}` ({input}; node kinds: {})", out.answer, kinds_of::<T>(m)));
    } else {
        run.oracle(true, "", "");
    }
    // (2) nothing is called after a Stop / Err
    let first_end = out.calls.iter().position(|c| matches!(c.2.tnr(), None | Some(Tnr::Stop)));
    run.oracle(first_end.map_or(true, |i| i + 1 == out.calls.len()), &format!("callback-after-stop {input}"), &format!("log {:?}", out.log));
    if let Some((shape, flag, _)) = &out.tres {
        // (3) transformed == OR of the reported flags
        let reported = out.calls.iter().any(|c| matches!(c.2, Dec::T(_, true, _)));
        run.oracle(*flag == reported, &format!("transformed-flag {input}"), &format!("result.transformed={flag}, callbacks reported {reported}"));
        // (4) result tree = input with exactly the replacements made
        let mut cur: HashMap<u64, u64> = HashMap::new(); // current label -> original label
        collect_labels(m, &mut cur);
        for (i, c) in out.calls.iter().enumerate() {
            if let Dec::T(_, _, true) = c.2 {
                if let Some(orig) = cur.remove(&c.1) {
                    cur.insert(c.1 + 100 * (i as u64 + 1), orig);
                }
            }
        }
        let inv: HashMap<u64, u64> = cur.iter().map(|(c, o)| (*o, *c)).collect();
        let want_shape = relabelled(m, &inv);
        run.oracle(*shape == want_shape, &format!("replacement-tree {input}"), &format!("result {shape}, expected {want_shape}"));
    }
    let _ = out.vres;
}
fn kinds_of<T: Fam>(m: &M) -> String {
    fn go<T: Fam>(t: &T, out: &mut Vec<String>) {
        out.push(format!("{}:{}", t.label(), t.kind()));
        for k in t.kids() {
            go(k, out);
        }
    }
    let mut v = vec![];
    go(&T::build(m), &mut v);
    v.join(",")
}
fn collect_labels(m: &M, out: &mut HashMap<u64, u64>) {
    out.insert(m.label, m.label);
    for k in &m.kids {
        collect_labels(k, out);
    }
}
fn relabelled(m: &M, inv: &HashMap<u64, u64>) -> String {
    let mut s = format!("({}", inv[&m.label]);
    for k in &m.kids {
        s.push(' ');
        s.push_str(&relabelled(k, inv));
    }
    s.push(')');
    s
}

// ------------------------------------------------------------------ generators
/// all ordered forests with n nodes
fn forests(n: usize) -> Vec<Vec<M>> {
    if n == 0 {
        return vec![vec![]];
    }
    let mut out = vec![];
    for first in 1..=n {
        for t in trees(first) {
            for rest in forests(n - first) {
                let mut v = vec![t.clone()];
                v.extend(rest);
                out.push(v);
            }
        }
    }
    out
}
fn trees(n: usize) -> Vec<M> {
    forests(n - 1).into_iter().map(|kids| M { label: 0, kids, reset: false }).collect()
}
fn number(m: &mut M, next: &mut u64) {
    m.label = *next;
    *next += 1;
    for k in &mut m.kids {
        number(k, next);
    }
}
/// every assignment of the reset flag to inner nodes
fn reset_variants(m: &M) -> Vec<M> {
    fn inner(m: &M, out: &mut Vec<u64>) {
        if !m.kids.is_empty() {
            out.push(m.label);
        }
        for k in &m.kids {
            inner(k, out);
        }
    }
    fn set(m: &mut M, on: &[u64]) {
        m.reset = on.contains(&m.label);
        for k in &mut m.kids {
            set(k, on);
        }
    }
    let mut ids = vec![];
    inner(m, &mut ids);
    let mut out = vec![];
    for mask in 0..(1u32 << ids.len()) {
        let on: Vec<u64> = ids.iter().enumerate().filter(|(i, _)| mask >> i & 1 == 1).map(|(_, l)| *l).collect();
        let mut t = m.clone();
        set(&mut t, &on);
        out.push(t);
    }
    out
}
fn random_tree(rng: &mut Rng, n: usize) -> M {
    fn go(rng: &mut Rng, n: usize) -> M {
        // n >= 1 nodes
        let mut kids = vec![];
        let mut left = n - 1;
        while left > 0 {
            let take = 1 + rng.below(left as u64) as usize;
            let take = if rng.chance(1, 2) { take.min(3) } else { take };
            kids.push(go(rng, take));
            left -= take;
        }
        M { label: 0, kids, reset: rng.chance(1, 3) }
    }
    let mut t = go(rng, n);
    let mut next = 1;
    number(&mut t, &mut next);
    t
}
fn vopts(with_err: bool) -> Vec<Dec> {
    let mut v = vec![Dec::V(Tnr::Continue), Dec::V(Tnr::Jump), Dec::V(Tnr::Stop)];
    if with_err {
        v.push(Dec::E);
    }
    v
}
fn topts(full: bool) -> Vec<Dec> {
    let mut v = vec![];
    for t in [Tnr::Continue, Tnr::Jump, Tnr::Stop] {
        for f in [false, true] {
            if full {
                v.push(Dec::T(t, f, false));
                v.push(Dec::T(t, f, true));
            } else {
                // relabel exactly when reporting "transformed" … and one lying combination each
                v.push(Dec::T(t, f, f));
            }
        }
    }
    if full {
        v.push(Dec::E);
    }
    v
}
fn all_vectors(opts: &[Dec], len: usize) -> Vec<Vec<Dec>> {
    let mut out = vec![vec![]];
    for _ in 0..len {
        let mut next = vec![];
        for v in &out {
            for o in opts {
                let mut w = v.clone();
                w.push(*o);
                next.push(w);
            }
        }
        out = next;
    }
    out
}
fn random_vector(rng: &mut Rng, rewriting: bool, len: usize) -> Vec<Dec> {
    // mostly Continue so that deep nodes are reached; the rest spread over Jump/Stop/Err
    let style = rng.below(4);
    (0..len)
        .map(|_| {
            let r = rng.below(100);
            let t = match style {
                0 => if r < 80 { Tnr::Continue } else if r < 95 { Tnr::Jump } else { Tnr::Stop },
                1 => if r < 60 { Tnr::Continue } else if r < 97 { Tnr::Jump } else { Tnr::Stop },
                2 => if r < 90 { Tnr::Continue } else if r < 96 { Tnr::Jump } else { Tnr::Stop },
                _ => if r < 50 { Tnr::Continue } else if r < 90 { Tnr::Jump } else { Tnr::Stop },
            };
            if rng.chance(1, 60) {
                Dec::E
            } else if rewriting {
                let f = rng.chance(1, 3);
                let rl = if rng.chance(1, 8) { !f } else { f };
                Dec::T(t, f, rl)
            } else {
                Dec::V(t)
            }
        })
        .collect()
}

// ------------------------------------------------------------------ tables (T2 validation)
fn tables(run: &mut Run) {
    let all = [Tnr::Continue, Tnr::Jump, Tnr::Stop];
    for me in all {
        for (name, which) in [("visit_children", 0), ("visit_sibling", 1), ("visit_parent", 2)] {
            // the closure returns each possible value in turn; the table entry is `call` iff it is
            // invoked and its result is passed through, `(ret v)` iff it is never invoked
            let mut acts = std::collections::BTreeSet::new();
            for ret in [Some(Tnr::Continue), Some(Tnr::Jump), Some(Tnr::Stop), None] {
                let mut called = false;
                let f = || {
                    called = true;
                    ret.ok_or_else(err)
                };
                let r = match which {
                    0 => me.visit_children(f),
                    1 => me.visit_sibling(f),
                    _ => me.visit_parent(f),
                };
                let a = if called {
                    if r.as_ref().ok().copied() == ret { "call".to_string() } else { format!("call-but-result-{r:?}") }
                } else {
                    match r {
                        Ok(v) => format!("(ret {})", tnr_name(v)),
                        Err(_) => "err-without-call".into(),
                    }
                };
                acts.insert(a);
            }
            let ans = acts.into_iter().collect::<Vec<_>>().join("|");
            run.case("tbl", &format!("(TreeNodeRecursion::{name} {})", tnr_name(me)), &ans, true);
        }
        for (name, which) in [("transform_children", 0), ("transform_sibling", 1), ("transform_parent", 2)] {
            let mut acts = std::collections::BTreeSet::new();
            for st in [false, true] {
                for ret in [Some((false, Tnr::Continue)), Some((true, Tnr::Jump)), Some((false, Tnr::Stop)), Some((true, Tnr::Continue)), None] {
                    let mut called = false;
                    let f = |d: i32| {
                        called = true;
                        match ret {
                            Some((ct, ctnr)) => Ok(Transformed::new(d + 1, ct, ctnr)),
                            None => Err(err()),
                        }
                    };
                    let me_t = Transformed::new(7i32, st, me);
                    let r = match which {
                        0 => me_t.transform_children(f),
                        1 => me_t.transform_sibling(f),
                        _ => me_t.transform_parent(f),
                    };
                    let a = if called {
                        let want = ret.map(|(ct, ctnr)| Transformed::new(8i32, ct || st, ctnr));
                        if r.as_ref().ok() == want.as_ref() { "callMerge".to_string() } else { format!("call-but-result-{r:?}") }
                    } else {
                        match r {
                            Ok(t) if t.data == 7 && t.transformed == st => format!("(ret {})", tnr_name(t.tnr)),
                            other => format!("no-call-but-{other:?}"),
                        }
                    };
                    acts.insert(a);
                }
            }
            let ans = acts.into_iter().collect::<Vec<_>>().join("|");
            run.case("tbl", &format!("(Transformed::{name} {})", tnr_name(me)), &ans, true);
        }
    }
}

/// targeted reproduction on a shape SQL produces every day: `CASE WHEN w THEN t END` (no ELSE):
/// children live in `(Option<Box>, Vec<(Box,Box)>, Option<Box>)`; the trailing `None` resets a `Jump`
/// coming out of `t`'s `f_up`, so the CASE node's `f_up` runs although its last child said Jump.
fn case_without_else(run: &mut Run) {
    use datafusion_expr::expr::Case;
    use datafusion_expr::{col, lit};
    struct V(Vec<String>);
    impl<'n> TreeNodeVisitor<'n> for V {
        type Node = Expr;
        fn f_down(&mut self, n: &'n Expr) -> Result<Tnr> {
            self.0.push(format!("d:{}", n.variant_name()));
            Ok(Tnr::Continue)
        }
        fn f_up(&mut self, n: &'n Expr) -> Result<Tnr> {
            self.0.push(format!("u:{}", n.variant_name()));
            Ok(if matches!(n, Expr::Literal(..)) { Tnr::Jump } else { Tnr::Continue })
        }
    }
    for (with_else, label) in [(false, "CASE WHEN c THEN 1 END"), (true, "CASE WHEN c THEN 1 ELSE 1 END")] {
        let e = Expr::Case(Case::new(None, vec![(Box::new(col("c")), Box::new(lit(1i64)))], if with_else { Some(Box::new(lit(1i64))) } else { None }));
        let mut v = V(vec![]);
        let r = e.visit(&mut v).unwrap();
        let called_parent = v.0.iter().any(|s| s == "u:Case");
        // documented: the last child's f_up said Jump → the parent's f_up is skipped and Jump is returned
        run.oracle(
            !called_parent && r == Tnr::Jump,
            &format!("jump-from-last-child-dropped-by-empty-trailing-container fam=expr-case op=visit expr={label} f_up(Literal)=Jump"),
            &format!("visit log {:?} result {r:?}: f_up(Case) {} although its last child's f_up returned Jump", v.0, if called_parent { "WAS invoked" } else { "was not invoked" }),
        );
    }
}

pub fn run(run: &mut Run, args: &Args) {
    let mut rng = Rng::new(args.seed);
    hutil::quiet_panics();
    tables(run);

    // ---- exhaustive part: all shapes × all reset assignments × all decision vectors
    let nmax_apply = run.budget(4, 5) as usize;
    for n in 1..=nmax_apply {
        for mut t in trees(n) {
            let mut next = 1;
            number(&mut t, &mut next);
            let variants = reset_variants(&t);
            // apply: reset is irrelevant by construction of the code — one random variant, all vectors
            let v = rng.pick(&variants).clone();
            for decs in all_vectors(&vopts(true), n) {
                one::<Rose>(run, "apply", &v, &decs);
                if n <= 3 {
                    one::<Expr>(run, "apply", &v, &decs);
                }
            }
            if n <= 3 {
                for v in &variants {
                    for decs in all_vectors(&vopts(false), 2 * n) {
                        one::<Rose>(run, "visit", v, &decs);
                    }
                    for decs in all_vectors(&topts(false), n) {
                        one::<Rose>(run, "tdown", v, &decs);
                        one::<Rose>(run, "tup", v, &decs);
                        one::<Expr>(run, "tup", v, &decs);
                    }
                }
            }
            if n <= 2 {
                for v in &variants {
                    for decs in all_vectors(&topts(false), 2 * n) {
                        one::<Rose>(run, "tdownup", v, &decs);
                        one::<Expr>(run, "rewrite", v, &decs);
                    }
                    for decs in all_vectors(&topts(true), n) {
                        one::<Expr>(run, "tdown", v, &decs);
                    }
                }
            }
        }
    }
    // ---- random part: larger trees, biased vectors
    let per = run.budget(700, 40_000);
    for op in ["apply", "visit", "tdown", "tup", "tdownup", "rewrite"] {
        for _ in 0..per {
            let n = 3 + rng.below(10) as usize;
            let t = random_tree(&mut rng, n);
            let rewriting = !matches!(op, "apply" | "visit");
            let len = 2 * n;
            let decs = random_vector(&mut rng, rewriting, len);
            one::<Expr>(run, op, &t, &decs);
            if rng.chance(1, 2) {
                one::<Rose>(run, op, &t, &decs);
            }
        }
    }
    case_without_else(run);
    let _ = std::panic::take_hook();
    run.note("families: expr = datafusion_expr::Expr (Literal/Alias/Like/ScalarFunction/AggregateFunction); rose = harness tree with a (Vec,Vec) tuple container driven by the real TreeNode default methods and container impls");
}
