//! C42 — tree traversal and rewriting follow their recursion contract.
//!
//! Tie (K) for the hand model `DfModel.Sm.TreeWalk` and validation of translator T2's tables
//! (`DfModel.Gen.TreeNodeTbl`).  The SAME model is corresponded against every tree family the
//! property names — each family implements the recursion contract separately:
//!   * `rose`  : harness tree over a `(Vec, Vec)` tuple container (real default methods + container impls);
//!   * `expr`  : `datafusion_expr::Expr`, every variant with children that can be built here (Alias, Not, Is*,
//!               Negative, Cast, TryCast, Unnest, InSubquery, BinaryExpr, Like, SimilarTo, Between, Case ±ELSE,
//!               InList, ScalarFunction n-ary, AggregateFunction ±FILTER ±ORDER BY, WindowFunction with
//!               PARTITION BY / ORDER BY / FILTER, GroupingSet Rollup/Cube/GroupingSets) + leaves
//!               (Literal, Column, Placeholder, Exists, ScalarSubquery);
//!   * `plan`  : `LogicalPlan` (TableScan, EmptyRelation, Limit, Sort, Repartition, Projection, SubqueryAlias,
//!               Distinct, Filter, Aggregate, Window, Join, Union n-ary, Subquery) incl. plans with subquery
//!               expressions (Exists / ScalarSubquery / InSubquery) for the `*_with_subqueries` traversals
//!               (`LogicalPlan::apply_children` = `Vec<&C>::apply_ref_elements`);
//!   * `pexpr` : `Arc<dyn PhysicalExpr>` (Column, Literal, Cast, TryCast, Not, IsNull, IsNotNull, Negative,
//!               BinaryExpr, Like, Case, InList, ScalarFunctionExpr) — blanket `impl TreeNode for Arc<T: DynTreeNode>`;
//!   * `exec`  : `Arc<dyn ExecutionPlan>` (EmptyExec, PlaceholderRowExec, Global/LocalLimitExec, CoalesceBatchesExec,
//!               CoalescePartitionsExec, CrossJoinExec, UnionExec n-ary) — same blanket impl.
//! Every real tree is built FROM a model tree shape (child order known by construction).  Operations:
//! apply, visit, transform_down, transform_up, transform_down_up, rewrite, exists (+ the six
//! `*_with_subqueries` forms for `plan`), with callbacks following a decision vector indexed by the invocation
//! count; Stop/Jump come both with transformed=true and transformed=false.  Compared with the model by
//! equality: visit log, result tree, flag, final tnr.
//! Model-free oracles: documented-contract reference; no callback after Stop/Err; flag = OR of reported flags;
//! result tree = input with exactly the replacements made; `apply_children` and `map_children` enumerate
//! the same children in the same order (= the children the tree was built from) for every node built.
//!
//! Labels: a node kind that has a free payload carries its label there (function name, alias, cast type
//! `FixedSizeBinary(label)`, LIMIT skip, …) and can be relabelled by a rewriting callback; kinds without a
//! payload (NOT, AND, CASE, UnionExec, …) have label 0 and the decision vector is adjusted (before the run,
//! from the model-independent reference) so that no invocation on such a node asks for a relabel.
use std::cell::RefCell;
use std::collections::HashMap;
use std::sync::Arc;

use arrow::datatypes::{DataType, Field, Schema};
use datafusion_common::tree_node::{
    Transformed, TreeNode, TreeNodeContainer, TreeNodeRecursion, TreeNodeRefContainer, TreeNodeRewriter, TreeNodeVisitor,
};
use datafusion_common::{DFSchema, DataFusionError, JoinType, NullEquality, Result, ScalarValue};
use datafusion_expr::expr::{
    AggregateFunction, Alias, Between, BinaryExpr, Case, Cast, Exists, GroupingSet, InList, InSubquery, Like, Placeholder, ScalarFunction,
    Sort as SortExpr, TryCast, Unnest, WindowFunction, WindowFunctionDefinition,
};
use datafusion_expr::function::AccumulatorArgs;
use datafusion_expr::logical_plan::{
    Aggregate, Distinct, EmptyRelation, Filter, Join, JoinConstraint, Limit, Partitioning, Projection, Repartition, Sort, Subquery, SubqueryAlias,
    Union, Window,
};
use datafusion_expr::{
    Accumulator, AggregateUDF, AggregateUDFImpl, ColumnarValue, Expr, LogicalPlan, Operator, ScalarFunctionArgs, ScalarUDF, ScalarUDFImpl,
    Signature, Volatility,
};
use datafusion_physical_expr::expressions as px;
use datafusion_physical_expr::{PhysicalExpr, ScalarFunctionExpr};
use datafusion_physical_plan::ExecutionPlan;
use hutil::{Args, Rng, Run};

type Tnr = TreeNodeRecursion;

// ------------------------------------------------------------------ model-side tree shape
/// raw shape + what the family decided for it
#[derive(Clone, Debug, PartialEq)]
struct M {
    /// 0 = this node kind cannot carry a label
    label: u64,
    kids: Vec<M>,
    /// the node's last child container is empty
    reset: bool,
    /// seed choosing the concrete node kind among those with this many children
    kind: u64,
    /// `plan` only: `LogicalPlan::Subquery` wrapper nodes (one child each) of the sub-queries in this node's expressions
    subq: Vec<M>,
}
/// the tree as the model sees it (for the `*_with_subqueries` traversals the sub-queries are children, before the inputs)
#[derive(Clone, Debug, PartialEq)]
struct V {
    label: u64,
    kids: Vec<V>,
    reset: bool,
}
impl M {
    fn view(&self, ws: bool) -> V {
        let mut kids: Vec<V> = vec![];
        if ws {
            kids.extend(self.subq.iter().map(|k| k.view(ws)));
        }
        kids.extend(self.kids.iter().map(|k| k.view(ws)));
        // sub-queries but no inputs: `apply_children` / `map_children` of the input-less node answer Continue
        let reset = if ws && !self.subq.is_empty() && self.kids.is_empty() { true } else { self.reset && !self.kids.is_empty() };
        V { label: self.label, kids, reset }
    }
    fn size(&self) -> usize {
        1 + self.kids.iter().chain(self.subq.iter()).map(|k| k.size()).sum::<usize>()
    }
}
impl V {
    fn sexp(&self) -> String {
        let mut s = format!("({} {}", self.label, if self.reset { "t" } else { "f" });
        for k in &self.kids {
            s.push(' ');
            s.push_str(&k.sexp());
        }
        s.push(')');
        s
    }
    fn size(&self) -> usize {
        1 + self.kids.iter().map(|k| k.size()).sum::<usize>()
    }
    fn has_reset(&self) -> bool {
        (self.reset && !self.kids.is_empty()) || self.kids.iter().any(|k| k.has_reset())
    }
    fn plain_shape(&self) -> String {
        let mut s = format!("({}", self.label);
        for k in &self.kids {
            s.push(' ');
            s.push_str(&k.plain_shape());
        }
        s.push(')');
        s
    }
}

fn tnr_name(t: Tnr) -> &'static str {
    match t {
        Tnr::Continue => "Continue",
        Tnr::Jump => "Jump",
        Tnr::Stop => "Stop",
    }
}

// ------------------------------------------------------------------ decisions
#[derive(Clone, Copy, Debug, PartialEq)]
enum Dec {
    /// inspecting callback result
    V(Tnr),
    /// rewriting callback result: tnr, transformed flag, relabel?
    T(Tnr, bool, bool),
    E,
}
impl Dec {
    fn atom(&self) -> String {
        let c = |t: &Tnr| match t {
            Tnr::Continue => 'C',
            Tnr::Jump => 'J',
            Tnr::Stop => 'S',
        };
        match self {
            Dec::V(t) => c(t).to_string(),
            Dec::T(t, f, r) => format!("{}{}{}", c(t), if *f { 't' } else { 'f' }, if *r { 'r' } else { 'k' }),
            Dec::E => "E".into(),
        }
    }
    fn tnr(&self) -> Option<Tnr> {
        match self {
            Dec::V(t) | Dec::T(t, _, _) => Some(*t),
            Dec::E => None,
        }
    }
}

/// shared state of the callbacks of one run
struct Cb {
    decs: Vec<Dec>,
    rewriting: bool,
    k: usize,
    log: Vec<String>,
    /// (phase, label seen, decision)
    calls: Vec<(char, u64, Dec)>,
}
impl Cb {
    fn next(&mut self, phase: char, label: u64) -> Dec {
        let d = self.decs.get(self.k).copied().unwrap_or(if self.rewriting { Dec::T(Tnr::Continue, false, false) } else { Dec::V(Tnr::Continue) });
        self.k += 1;
        self.log.push(format!("{phase}{label}"));
        self.calls.push((phase, label, d));
        d
    }
}
fn err() -> DataFusionError {
    DataFusionError::Execution("E".into())
}

// ------------------------------------------------------------------ families
trait Fam: TreeNode + Clone + 'static {
    const NAME: &'static str;
    const SUBQ: bool = false;
    /// `Arc<T: DynTreeNode>::map_children` keeps `self` (drops the children returned by the callback) unless
    /// some child REPORTED `transformed`; a callback that replaces a node without reporting it breaks its own
    /// contract, so for these families a relabel always comes with transformed = true
    const TRUTHFUL_ONLY: bool = false;
    /// what the family makes of a raw node with `n` children: (can carry a label, last child container empty)
    fn props(n: usize, kind: u64, reset_hint: bool, has_subq: bool) -> (bool, bool);
    /// None = the real constructor refused this combination (counted, skipped)
    fn build(m: &M) -> Option<Self>;
    fn label(&self) -> u64;
    fn relabel(self, new: u64) -> Self;
    /// the children this node was built from, in construction order
    fn kids(&self) -> Vec<Self>;
    /// `plan`: the `Subquery` wrapper nodes of the sub-queries in this node's expressions, in expression order
    fn subq(&self) -> Vec<Self> {
        vec![]
    }
    fn kind(&self) -> String;
    fn shape(&self, ws: bool) -> String {
        let mut s = format!("({}", self.label());
        if ws {
            for k in self.subq() {
                s.push(' ');
                s.push_str(&k.shape(ws));
            }
        }
        for k in self.kids() {
            s.push(' ');
            s.push_str(&k.shape(ws));
        }
        s.push(')');
        s
    }
    /// `*_with_subqueries` forms (plan only)
    fn ws_inspect(&self, _op: &str, _cb: &RefCell<Cb>) -> Result<Tnr> {
        unreachable!()
    }
    fn ws_rewrite(self, _op: &str, _cb: &RefCell<Cb>) -> Result<Transformed<Self>> {
        unreachable!()
    }
}

/// assign labels (pre-order over node, its sub-queries, its inputs) and the reset flags the family implies
fn annotate<T: Fam>(m: &mut M, next: &mut u64) {
    if !(T::SUBQ && m.kids.len() <= 2) {
        m.subq.clear();
    }
    let (labelled, reset) = T::props(m.kids.len(), m.kind, m.reset, !m.subq.is_empty());
    m.label = if labelled {
        *next += 1;
        *next - 1
    } else {
        0
    };
    m.reset = reset && !m.kids.is_empty();
    for s in &mut m.subq {
        // the `LogicalPlan::Subquery` wrapper: labelled, exactly one child
        s.label = *next;
        *next += 1;
        s.reset = false;
        s.subq.clear();
        s.kids.truncate(1);
        for k in &mut s.kids {
            annotate::<T>(k, next);
        }
    }
    for k in &mut m.kids {
        annotate::<T>(k, next);
    }
}

// ---- rose: children in a (Vec, Vec) tuple container
#[derive(Clone, Debug, PartialEq)]
struct Rose {
    label: u64,
    a: Vec<Rose>,
    b: Vec<Rose>,
}
impl<'a> TreeNodeContainer<'a, Self> for Rose {
    fn apply_elements<F: FnMut(&'a Self) -> Result<TreeNodeRecursion>>(&'a self, mut f: F) -> Result<TreeNodeRecursion> {
        f(self)
    }
    fn map_elements<F: FnMut(Self) -> Result<Transformed<Self>>>(self, mut f: F) -> Result<Transformed<Self>> {
        f(self)
    }
}
impl TreeNode for Rose {
    fn apply_children<'n, F: FnMut(&'n Self) -> Result<TreeNodeRecursion>>(&'n self, f: F) -> Result<TreeNodeRecursion> {
        (&self.a, &self.b).apply_ref_elements(f)
    }
    fn map_children<F: FnMut(Self) -> Result<Transformed<Self>>>(self, f: F) -> Result<Transformed<Self>> {
        let label = self.label;
        (self.a, self.b).map_elements(f)?.map_data(|(a, b)| Ok(Rose { label, a, b }))
    }
}
impl Fam for Rose {
    const NAME: &'static str = "rose";
    fn props(n: usize, _kind: u64, reset_hint: bool, _s: bool) -> (bool, bool) {
        (true, reset_hint && n > 0)
    }
    fn build(m: &M) -> Option<Self> {
        let kids: Vec<Rose> = m.kids.iter().map(|k| Rose::build(k).unwrap()).collect();
        let n = kids.len();
        let split = if n == 0 || m.reset { n } else { (m.label as usize) % n };
        let b = kids[split..].to_vec();
        let a = kids[..split].to_vec();
        Some(Rose { label: m.label, a, b })
    }
    fn label(&self) -> u64 {
        self.label
    }
    fn relabel(mut self, new: u64) -> Self {
        self.label = new;
        self
    }
    fn kids(&self) -> Vec<Self> {
        self.a.iter().chain(self.b.iter()).cloned().collect()
    }
    fn kind(&self) -> String {
        if self.b.is_empty() && !self.a.is_empty() { "rose(Vec,empty Vec)".into() } else { "rose(Vec,Vec)".into() }
    }
}

// ---- expr
#[derive(Debug, PartialEq, Eq, Hash)]
struct StubUdf {
    name: String,
    sig: Signature,
}
impl ScalarUDFImpl for StubUdf {
    fn name(&self) -> &str {
        &self.name
    }
    fn signature(&self) -> &Signature {
        &self.sig
    }
    fn return_type(&self, _: &[DataType]) -> Result<DataType> {
        Ok(DataType::Int64)
    }
    fn invoke_with_args(&self, _: ScalarFunctionArgs) -> Result<ColumnarValue> {
        Err(err())
    }
}
#[derive(Debug, PartialEq, Eq, Hash)]
struct StubUdaf {
    name: String,
    sig: Signature,
}
impl AggregateUDFImpl for StubUdaf {
    fn name(&self) -> &str {
        &self.name
    }
    fn signature(&self) -> &Signature {
        &self.sig
    }
    fn return_type(&self, _: &[DataType]) -> Result<DataType> {
        Ok(DataType::Int64)
    }
    fn accumulator(&self, _: AccumulatorArgs) -> Result<Box<dyn Accumulator>> {
        Err(err())
    }
}
fn udf(label: u64) -> Arc<ScalarUDF> {
    Arc::new(ScalarUDF::new_from_impl(StubUdf { name: format!("f{label}"), sig: Signature::variadic_any(Volatility::Immutable) }))
}
fn udaf(label: u64) -> Arc<AggregateUDF> {
    Arc::new(AggregateUDF::new_from_impl(StubUdaf { name: format!("a{label}"), sig: Signature::variadic_any(Volatility::Immutable) }))
}
fn lab_lit(label: u64) -> Expr {
    Expr::Literal(ScalarValue::UInt64(Some(label)), None)
}
fn lit_label(e: &Expr) -> Option<u64> {
    match e {
        Expr::Literal(ScalarValue::UInt64(Some(v)), _) => Some(*v),
        _ => None,
    }
}
fn dummy_subquery() -> Subquery {
    let schema = Arc::new(DFSchema::from_unqualified_fields(vec![Field::new("q", DataType::Int64, true)].into(), HashMap::new()).unwrap());
    Subquery { subquery: Arc::new(LogicalPlan::EmptyRelation(EmptyRelation { produce_one_row: false, schema })), outer_ref_columns: vec![], spans: Default::default() }
}

/// the Expr variant chosen for a node with `n` children
#[derive(Clone, Copy, Debug, PartialEq)]
enum EV {
    Lit,
    Col,
    Placeholder,
    Exists,
    ScalarSubquery,
    Alias,
    Not,
    IsNotNull,
    IsNull,
    IsTrue,
    IsFalse,
    IsUnknown,
    IsNotTrue,
    IsNotFalse,
    IsNotUnknown,
    Negative,
    Cast,
    TryCast,
    Unnest,
    InSubquery,
    Binary,
    Like,
    SimilarTo,
    Between,
    /// (has operand, has else)
    Case(bool, bool),
    InList,
    Scalar,
    /// (has filter, number of ORDER BY expressions)
    Agg(bool, usize),
    /// (args, partition_by, order_by, has filter)
    Win(usize, usize, usize, bool),
    Rollup,
    Cube,
    /// size of the first of two grouping sets
    GroupingSets(usize),
}
fn ev(n: usize, kind: u64) -> EV {
    use EV::*;
    let k = kind as usize;
    let agg = |n: usize| {
        let f = n >= 1 && (k / 7) % 2 == 1;
        let rest = n - f as usize;
        let o = (k / 11) % (rest + 1);
        Agg(f, o)
    };
    let win = |n: usize| {
        let f = n >= 1 && (k / 7) % 2 == 1;
        let rest = n - f as usize;
        let a = (k / 11) % (rest + 1);
        let p = (k / 13) % (rest - a + 1);
        Win(a, p, rest - a - p, f)
    };
    let case = |n: usize| {
        // n = e + 2w + el with w >= 1
        let mut forms = vec![];
        for (e, el) in [(false, false), (true, false), (false, true), (true, true)] {
            let rest = n as i64 - e as i64 - el as i64;
            if rest >= 2 && rest % 2 == 0 {
                forms.push(Case(e, el));
            }
        }
        forms[(k / 7) % forms.len()]
    };
    let gs = |n: usize| GroupingSets((k / 7) % (n + 1));
    let opts: Vec<EV> = match n {
        0 => vec![Lit, Col, Placeholder, Exists, ScalarSubquery, Scalar, Lit, Col],
        1 => vec![
            Alias, Not, IsNotNull, IsNull, IsTrue, IsFalse, IsUnknown, IsNotTrue, IsNotFalse, IsNotUnknown, Negative, Cast, TryCast, Unnest, InSubquery,
            Scalar, agg(1), win(1), InList, Rollup, Cube, gs(1),
        ],
        2 => vec![Binary, Like, SimilarTo, case(2), InList, Scalar, agg(2), win(2), Rollup, Cube, gs(2)],
        3 => vec![Between, case(3), InList, Scalar, agg(3), win(3), gs(3), Rollup],
        n => vec![case(n), InList, Scalar, agg(n), win(n), gs(n), Cube],
    };
    opts[k % opts.len()]
}
fn ev_props(v: EV, n: usize) -> (bool, bool) {
    use EV::*;
    let labelled = matches!(v, Lit | Col | Placeholder | Alias | Cast | TryCast | Like | SimilarTo | Scalar | Agg(..) | Win(..));
    let reset = match v {
        Case(_, el) => !el,
        InList => n == 1,
        Agg(_, o) => o == 0,
        Win(_, _, _, f) => !f,
        GroupingSets(a) => n - a == 0,
        _ => false,
    };
    (labelled, reset && n > 0)
}
fn bx(e: Expr) -> Box<Expr> {
    Box::new(e)
}
fn sort_of(e: Expr) -> SortExpr {
    SortExpr { expr: e, asc: true, nulls_first: false }
}
fn mk_expr(v: EV, label: u64, mut kids: Vec<Expr>) -> Expr {
    use EV::*;
    let n = kids.len();
    match v {
        Lit => lab_lit(label),
        Col => Expr::Column(datafusion_common::Column::from_name(format!("c{label}"))),
        Placeholder => Expr::Placeholder(datafusion_expr::expr::Placeholder { id: format!("${label}"), field: None }),
        Exists => Expr::Exists(datafusion_expr::expr::Exists { subquery: dummy_subquery(), negated: false }),
        ScalarSubquery => Expr::ScalarSubquery(dummy_subquery()),
        Alias => Expr::Alias(datafusion_expr::expr::Alias::new(kids.pop().unwrap(), None::<&str>, format!("{label}"))),
        Not => Expr::Not(bx(kids.pop().unwrap())),
        IsNotNull => Expr::IsNotNull(bx(kids.pop().unwrap())),
        IsNull => Expr::IsNull(bx(kids.pop().unwrap())),
        IsTrue => Expr::IsTrue(bx(kids.pop().unwrap())),
        IsFalse => Expr::IsFalse(bx(kids.pop().unwrap())),
        IsUnknown => Expr::IsUnknown(bx(kids.pop().unwrap())),
        IsNotTrue => Expr::IsNotTrue(bx(kids.pop().unwrap())),
        IsNotFalse => Expr::IsNotFalse(bx(kids.pop().unwrap())),
        IsNotUnknown => Expr::IsNotUnknown(bx(kids.pop().unwrap())),
        Negative => Expr::Negative(bx(kids.pop().unwrap())),
        Cast => Expr::Cast(datafusion_expr::expr::Cast::new(bx(kids.pop().unwrap()), DataType::FixedSizeBinary(label as i32))),
        TryCast => Expr::TryCast(datafusion_expr::expr::TryCast::new(bx(kids.pop().unwrap()), DataType::FixedSizeBinary(label as i32))),
        Unnest => Expr::Unnest(datafusion_expr::expr::Unnest { expr: bx(kids.pop().unwrap()), outer: false }),
        InSubquery => Expr::InSubquery(datafusion_expr::expr::InSubquery { expr: bx(kids.pop().unwrap()), subquery: dummy_subquery(), negated: false }),
        Binary => {
            let r = kids.pop().unwrap();
            let l = kids.pop().unwrap();
            Expr::BinaryExpr(BinaryExpr::new(bx(l), Operator::Plus, bx(r)))
        }
        Like | SimilarTo => {
            let p = kids.pop().unwrap();
            let e = kids.pop().unwrap();
            let l = datafusion_expr::expr::Like::new(false, bx(e), bx(p), char::from_u32(label as u32), false);
            if v == Like { Expr::Like(l) } else { Expr::SimilarTo(l) }
        }
        Between => {
            let h = kids.pop().unwrap();
            let l = kids.pop().unwrap();
            let e = kids.pop().unwrap();
            Expr::Between(datafusion_expr::expr::Between::new(bx(e), false, bx(l), bx(h)))
        }
        Case(has_e, has_el) => {
            let el = if has_el { Some(bx(kids.pop().unwrap())) } else { None };
            let mut it = kids.into_iter();
            let e = if has_e { Some(bx(it.next().unwrap())) } else { None };
            let mut wt = vec![];
            while let Some(w) = it.next() {
                let t = it.next().unwrap();
                wt.push((bx(w), bx(t)));
            }
            Expr::Case(datafusion_expr::expr::Case::new(e, wt, el))
        }
        InList => {
            let mut it = kids.into_iter();
            let e = it.next().unwrap();
            Expr::InList(datafusion_expr::expr::InList::new(bx(e), it.collect(), false))
        }
        Scalar => Expr::ScalarFunction(ScalarFunction::new_udf(udf(label), kids)),
        Agg(f, o) => {
            let ord: Vec<SortExpr> = kids.split_off(n - o).into_iter().map(sort_of).collect();
            let filt = if f { Some(bx(kids.pop().unwrap())) } else { None };
            Expr::AggregateFunction(AggregateFunction::new_udf(udaf(label), kids, false, filt, ord, None))
        }
        Win(a, p, o, f) => {
            let filt = if f { Some(bx(kids.pop().unwrap())) } else { None };
            let ord: Vec<SortExpr> = kids.split_off(a + p).into_iter().map(sort_of).collect();
            let part = kids.split_off(a);
            debug_assert_eq!(ord.len(), o);
            let mut w = WindowFunction::new(WindowFunctionDefinition::AggregateUDF(udaf(label)), kids);
            w.params.partition_by = part;
            w.params.order_by = ord;
            w.params.filter = filt;
            Expr::WindowFunction(Box::new(w))
        }
        Rollup => Expr::GroupingSet(GroupingSet::Rollup(kids)),
        Cube => Expr::GroupingSet(GroupingSet::Cube(kids)),
        GroupingSets(a) => {
            let b = kids.split_off(a);
            Expr::GroupingSet(GroupingSet::GroupingSets(vec![kids, b]))
        }
    }
}
fn fsb_label(t: &DataType) -> u64 {
    match t {
        DataType::FixedSizeBinary(n) => *n as u64,
        _ => 0,
    }
}
impl Fam for Expr {
    const NAME: &'static str = "expr";
    fn props(n: usize, kind: u64, _hint: bool, _s: bool) -> (bool, bool) {
        ev_props(ev(n, kind), n)
    }
    fn build(m: &M) -> Option<Self> {
        let kids: Option<Vec<Expr>> = m.kids.iter().map(Expr::build).collect();
        Some(mk_expr(ev(m.kids.len(), m.kind), m.label, kids?))
    }
    fn label(&self) -> u64 {
        match self {
            Expr::Literal(ScalarValue::UInt64(Some(v)), _) => *v,
            Expr::Column(c) => c.name[1..].parse().unwrap_or(0),
            Expr::Placeholder(p) => p.id[1..].parse().unwrap_or(0),
            Expr::Alias(a) => a.name.parse().unwrap_or(0),
            Expr::Cast(c) => fsb_label(c.field.data_type()),
            Expr::TryCast(c) => fsb_label(c.field.data_type()),
            Expr::Like(l) | Expr::SimilarTo(l) => l.escape_char.map_or(0, |c| c as u64),
            Expr::ScalarFunction(f) => f.func.name()[1..].parse().unwrap_or(0),
            Expr::AggregateFunction(f) => f.func.name()[1..].parse().unwrap_or(0),
            Expr::WindowFunction(w) => w.fun.name()[1..].parse().unwrap_or(0),
            _ => 0,
        }
    }
    fn relabel(self, new: u64) -> Self {
        match self {
            Expr::Literal(ScalarValue::UInt64(Some(_)), m) => Expr::Literal(ScalarValue::UInt64(Some(new)), m),
            Expr::Column(_) => Expr::Column(datafusion_common::Column::from_name(format!("c{new}"))),
            Expr::Placeholder(p) => Expr::Placeholder(Placeholder { id: format!("${new}"), field: p.field }),
            Expr::Alias(a) => Expr::Alias(Alias::new(*a.expr, a.relation, format!("{new}"))),
            Expr::Cast(c) => Expr::Cast(Cast::new(c.expr, DataType::FixedSizeBinary(new as i32))),
            Expr::TryCast(c) => Expr::TryCast(TryCast::new(c.expr, DataType::FixedSizeBinary(new as i32))),
            Expr::Like(l) => Expr::Like(Like::new(l.negated, l.expr, l.pattern, char::from_u32(new as u32), l.case_insensitive)),
            Expr::SimilarTo(l) => Expr::SimilarTo(Like::new(l.negated, l.expr, l.pattern, char::from_u32(new as u32), l.case_insensitive)),
            Expr::ScalarFunction(f) => Expr::ScalarFunction(ScalarFunction::new_udf(udf(new), f.args)),
            Expr::AggregateFunction(f) => Expr::AggregateFunction(AggregateFunction::new_udf(
                udaf(new),
                f.params.args,
                f.params.distinct,
                f.params.filter,
                f.params.order_by,
                f.params.null_treatment,
            )),
            Expr::WindowFunction(w) => {
                let mut w = *w;
                w.fun = WindowFunctionDefinition::AggregateUDF(udaf(new));
                Expr::WindowFunction(Box::new(w))
            }
            e => e, // unlabelled kinds are never asked to relabel (decision vectors are adjusted); keep as is
        }
    }
    fn kids(&self) -> Vec<Self> {
        let b = |e: &Box<Expr>| (**e).clone();
        match self {
            Expr::Alias(a) => vec![b(&a.expr)],
            Expr::Not(e) | Expr::IsNotNull(e) | Expr::IsNull(e) | Expr::IsTrue(e) | Expr::IsFalse(e) | Expr::IsUnknown(e) | Expr::IsNotTrue(e)
            | Expr::IsNotFalse(e) | Expr::IsNotUnknown(e) | Expr::Negative(e) => vec![b(e)],
            Expr::Cast(c) => vec![b(&c.expr)],
            Expr::TryCast(c) => vec![b(&c.expr)],
            Expr::Unnest(u) => vec![b(&u.expr)],
            Expr::InSubquery(i) => vec![b(&i.expr)],
            Expr::BinaryExpr(x) => vec![b(&x.left), b(&x.right)],
            Expr::Like(l) | Expr::SimilarTo(l) => vec![b(&l.expr), b(&l.pattern)],
            Expr::Between(x) => vec![b(&x.expr), b(&x.low), b(&x.high)],
            Expr::Case(c) => {
                let mut v: Vec<Expr> = c.expr.iter().map(b).collect();
                for (w, t) in &c.when_then_expr {
                    v.push(b(w));
                    v.push(b(t));
                }
                v.extend(c.else_expr.iter().map(b));
                v
            }
            Expr::InList(i) => std::iter::once(b(&i.expr)).chain(i.list.iter().cloned()).collect(),
            Expr::ScalarFunction(f) => f.args.clone(),
            Expr::AggregateFunction(f) => {
                f.params.args.iter().cloned().chain(f.params.filter.iter().map(b)).chain(f.params.order_by.iter().map(|s| s.expr.clone())).collect()
            }
            Expr::WindowFunction(w) => w
                .params
                .args
                .iter()
                .cloned()
                .chain(w.params.partition_by.iter().cloned())
                .chain(w.params.order_by.iter().map(|s| s.expr.clone()))
                .chain(w.params.filter.iter().map(b))
                .collect(),
            Expr::GroupingSet(GroupingSet::Rollup(v)) | Expr::GroupingSet(GroupingSet::Cube(v)) => v.clone(),
            Expr::GroupingSet(GroupingSet::GroupingSets(vs)) => vs.iter().flatten().cloned().collect(),
            _ => vec![],
        }
    }
    fn kind(&self) -> String {
        self.variant_name().to_string()
    }
}

// ---- plan: LogicalPlan
#[derive(Clone, Copy, Debug, PartialEq)]
enum PV {
    TableScan,
    EmptyRelation,
    Limit,
    Sort,
    Repartition,
    Projection,
    SubqueryAlias,
    DistinctAll,
    Filter,
    Aggregate,
    Window,
    Join,
    Union,
}
fn pv(n: usize, kind: u64, has_subq: bool) -> PV {
    use PV::*;
    let k = kind as usize;
    match n {
        0 => if has_subq { TableScan } else { [TableScan, EmptyRelation][k % 2] },
        1 => if has_subq { Limit } else { [Limit, Sort, Repartition, Projection, SubqueryAlias, DistinctAll, Filter, Aggregate, Window][k % 9] },
        2 => if has_subq { Join } else { [Join, Union][k % 2] },
        _ => Union,
    }
}
fn one_field_schema(name: String) -> Arc<DFSchema> {
    Arc::new(DFSchema::from_unqualified_fields(vec![Field::new(name, DataType::Int64, true)].into(), HashMap::new()).unwrap())
}
/// `e1 AND e2 AND …` over sub-query expressions of rotating kinds (Exists / scalar sub-query / IN sub-query)
fn subq_exprs(subs: Vec<LogicalPlan>) -> Vec<Expr> {
    subs.into_iter()
        .enumerate()
        .map(|(i, p)| {
            let LogicalPlan::Subquery(sq) = p else { unreachable!() };
            match i % 3 {
                0 => Expr::Exists(Exists { subquery: sq, negated: false }),
                1 => Expr::ScalarSubquery(sq),
                _ => Expr::InSubquery(InSubquery { expr: Box::new(lab_lit(0)), subquery: sq, negated: false }),
            }
        })
        .collect()
}
fn and_chain(first: Option<Expr>, rest: Vec<Expr>) -> Option<Expr> {
    let mut it = first.into_iter().chain(rest);
    let mut acc = it.next()?;
    for e in it {
        acc = Expr::BinaryExpr(BinaryExpr::new(Box::new(acc), Operator::And, Box::new(e)));
    }
    Some(acc)
}
fn subqueries_of(e: &Expr, out: &mut Vec<LogicalPlan>) {
    let _ = e.apply(|x| {
        match x {
            Expr::Exists(Exists { subquery, .. }) | Expr::InSubquery(InSubquery { subquery, .. }) | Expr::ScalarSubquery(subquery) => {
                out.push(LogicalPlan::Subquery(subquery.clone()))
            }
            _ => {}
        }
        Ok(Tnr::Continue)
    });
}
fn leftmost_label(e: &Expr) -> u64 {
    match e {
        Expr::BinaryExpr(b) => leftmost_label(&b.left),
        e => lit_label(e).unwrap_or(0),
    }
}
fn mk_plan(v: PV, label: u64, mut kids: Vec<LogicalPlan>, subs: Vec<LogicalPlan>) -> Result<LogicalPlan> {
    use PV::*;
    let arc = |p: LogicalPlan| Arc::new(p);
    Ok(match v {
        TableScan => {
            let schema = Schema::new(vec![Field::new(format!("c{label}"), DataType::Int64, true)]);
            let p = datafusion_expr::logical_plan::builder::table_scan(Some(format!("t{label}")), &schema, None)?.build()?;
            match p {
                LogicalPlan::TableScan(mut ts) => {
                    ts.filters = subq_exprs(subs);
                    LogicalPlan::TableScan(ts)
                }
                p => p,
            }
        }
        EmptyRelation => LogicalPlan::EmptyRelation(datafusion_expr::logical_plan::EmptyRelation { produce_one_row: false, schema: one_field_schema(format!("e{label}")) }),
        Limit => LogicalPlan::Limit(datafusion_expr::logical_plan::Limit {
            skip: Some(Box::new(lab_lit(label))),
            fetch: and_chain(None, subq_exprs(subs)).map(Box::new),
            input: arc(kids.pop().unwrap()),
        }),
        Sort => LogicalPlan::Sort(datafusion_expr::logical_plan::Sort { expr: vec![], input: arc(kids.pop().unwrap()), fetch: Some(label as usize) }),
        Repartition => LogicalPlan::Repartition(datafusion_expr::logical_plan::Repartition {
            input: arc(kids.pop().unwrap()),
            partitioning_scheme: Partitioning::RoundRobinBatch(label as usize),
        }),
        Projection => LogicalPlan::Projection(datafusion_expr::logical_plan::Projection::try_new(vec![lab_lit(label).alias(format!("p{label}"))], arc(kids.pop().unwrap()))?),
        SubqueryAlias => LogicalPlan::SubqueryAlias(datafusion_expr::logical_plan::SubqueryAlias::try_new(arc(kids.pop().unwrap()), format!("s{label}"))?),
        DistinctAll => LogicalPlan::Distinct(Distinct::All(arc(kids.pop().unwrap()))),
        Filter => LogicalPlan::Filter(datafusion_expr::logical_plan::Filter::try_new(lab_lit(label).eq(lab_lit(label)), arc(kids.pop().unwrap()))?),
        Aggregate => LogicalPlan::Aggregate(datafusion_expr::logical_plan::Aggregate::try_new(arc(kids.pop().unwrap()), vec![lab_lit(label).alias(format!("g{label}"))], vec![])?),
        Window => {
            let w = Expr::WindowFunction(Box::new(WindowFunction::new(WindowFunctionDefinition::AggregateUDF(udaf(label)), vec![lab_lit(0)])));
            LogicalPlan::Window(datafusion_expr::logical_plan::Window::try_new(vec![w], arc(kids.pop().unwrap()))?)
        }
        Join => {
            let r = kids.pop().unwrap();
            let l = kids.pop().unwrap();
            LogicalPlan::Join(datafusion_expr::logical_plan::Join::try_new(
                arc(l),
                arc(r),
                vec![],
                and_chain(Some(lab_lit(label)), subq_exprs(subs)),
                JoinType::Inner,
                JoinConstraint::On,
                NullEquality::NullEqualsNothing,
                false,
            )?)
        }
        Union => LogicalPlan::Union(datafusion_expr::logical_plan::Union { inputs: kids.into_iter().map(Arc::new).collect(), schema: one_field_schema(format!("u{label}")) }),
    })
}
fn build_plan(m: &M) -> Result<LogicalPlan> {
    let kids: Vec<LogicalPlan> = m.kids.iter().map(build_plan).collect::<Result<_>>()?;
    let mut subs = vec![];
    for s in &m.subq {
        let inner = build_plan(&s.kids[0])?;
        subs.push(LogicalPlan::Subquery(Subquery { subquery: Arc::new(inner), outer_ref_columns: vec![lab_lit(s.label)], spans: Default::default() }));
    }
    mk_plan(pv(m.kids.len(), m.kind, !m.subq.is_empty()), m.label, kids, subs)
}
fn name_label(s: &str) -> u64 {
    s.get(1..).and_then(|x| x.parse().ok()).unwrap_or(0)
}
impl Fam for LogicalPlan {
    const NAME: &'static str = "plan";
    const SUBQ: bool = true;
    fn props(n: usize, kind: u64, _hint: bool, has_subq: bool) -> (bool, bool) {
        (pv(n, kind, has_subq) != PV::DistinctAll, false)
    }
    fn build(m: &M) -> Option<Self> {
        match build_plan(m) {
            Ok(p) => Some(p),
            Err(e) => {
                if std::env::var("C42_DEBUG").is_ok() {
                    eprintln!("plan build error: {}", e.to_string().chars().take(200).collect::<String>());
                }
                None
            }
        }
    }
    fn label(&self) -> u64 {
        match self {
            LogicalPlan::TableScan(t) => name_label(t.table_name.table()),
            LogicalPlan::EmptyRelation(e) => name_label(e.schema.field(0).name()),
            LogicalPlan::Limit(l) => l.skip.as_ref().and_then(|e| lit_label(e)).unwrap_or(0),
            LogicalPlan::Sort(s) => s.fetch.unwrap_or(0) as u64,
            LogicalPlan::Repartition(r) => match r.partitioning_scheme {
                Partitioning::RoundRobinBatch(n) => n as u64,
                _ => 0,
            },
            LogicalPlan::Projection(p) => match &p.expr[0] {
                Expr::Alias(a) => name_label(&a.name),
                _ => 0,
            },
            LogicalPlan::SubqueryAlias(a) => name_label(a.alias.table()),
            LogicalPlan::Filter(f) => leftmost_label(&f.predicate),
            LogicalPlan::Aggregate(a) => match &a.group_expr[0] {
                Expr::Alias(x) => name_label(&x.name),
                _ => 0,
            },
            LogicalPlan::Window(w) => match &w.window_expr[0] {
                Expr::WindowFunction(f) => name_label(f.fun.name()),
                _ => 0,
            },
            LogicalPlan::Join(j) => j.filter.as_ref().map_or(0, leftmost_label),
            LogicalPlan::Union(u) => name_label(u.schema.field(0).name()),
            LogicalPlan::Subquery(s) => s.outer_ref_columns.first().and_then(lit_label).unwrap_or(0),
            _ => 0,
        }
    }
    fn relabel(self, new: u64) -> Self {
        let subs = self.subq();
        let kids = self.kids();
        let v = match &self {
            LogicalPlan::TableScan(_) => PV::TableScan,
            LogicalPlan::EmptyRelation(_) => PV::EmptyRelation,
            LogicalPlan::Limit(_) => PV::Limit,
            LogicalPlan::Sort(_) => PV::Sort,
            LogicalPlan::Repartition(_) => PV::Repartition,
            LogicalPlan::Projection(_) => PV::Projection,
            LogicalPlan::SubqueryAlias(_) => PV::SubqueryAlias,
            LogicalPlan::Filter(_) => PV::Filter,
            LogicalPlan::Aggregate(_) => PV::Aggregate,
            LogicalPlan::Window(_) => PV::Window,
            LogicalPlan::Join(_) => PV::Join,
            LogicalPlan::Union(_) => PV::Union,
            LogicalPlan::Subquery(s) => {
                return LogicalPlan::Subquery(Subquery { subquery: Arc::clone(&s.subquery), outer_ref_columns: vec![lab_lit(new)], spans: Default::default() });
            }
            _ => return self,
        };
        mk_plan(v, new, kids, subs).expect("relabel keeps the node kind")
    }
    fn kids(&self) -> Vec<Self> {
        self.inputs().into_iter().cloned().collect()
    }
    fn subq(&self) -> Vec<Self> {
        let mut out = vec![];
        let _ = self.apply_expressions(|e| {
            subqueries_of(e, &mut out);
            Ok(Tnr::Continue)
        });
        out
    }
    fn kind(&self) -> String {
        format!("{}", self.display()).split([':', ' ']).next().unwrap_or("?").to_string()
    }
    fn ws_inspect(&self, op: &str, cb: &RefCell<Cb>) -> Result<Tnr> {
        match op {
            "apply" => self.apply_with_subqueries(|n| vcall(cb, 'd', n)),
            "visit" => self.visit_with_subqueries(&mut VisT(cb, std::marker::PhantomData)),
            _ => unreachable!(),
        }
    }
    fn ws_rewrite(self, op: &str, cb: &RefCell<Cb>) -> Result<Transformed<Self>> {
        match op {
            "tdown" => self.transform_down_with_subqueries(|n| tcall(cb, 'd', n)),
            "tup" => self.transform_up_with_subqueries(|n| tcall(cb, 'u', n)),
            "tdownup" => self.transform_down_up_with_subqueries(|n| tcall(cb, 'd', n), |n| tcall(cb, 'u', n)),
            "rewrite" => self.rewrite_with_subqueries(&mut RewT(cb, std::marker::PhantomData)),
            _ => unreachable!(),
        }
    }
}

// ---- pexpr: Arc<dyn PhysicalExpr>  (blanket `impl TreeNode for Arc<T: DynTreeNode>`)
type PE = Arc<dyn PhysicalExpr>;
#[derive(Clone, Copy, Debug, PartialEq)]
enum XV {
    Column,
    Literal,
    Cast,
    TryCast,
    Not,
    IsNull,
    IsNotNull,
    Negative,
    Binary,
    Like,
    /// (has operand, has else)
    Case(bool, bool),
    InList,
    Scalar,
}
fn xv(n: usize, kind: u64) -> XV {
    use XV::*;
    let k = kind as usize;
    let case = |n: usize| {
        let mut forms = vec![];
        for (e, el) in [(false, false), (true, false), (false, true), (true, true)] {
            let rest = n as i64 - e as i64 - el as i64;
            if rest >= 2 && rest % 2 == 0 {
                forms.push(Case(e, el));
            }
        }
        forms[(k / 7) % forms.len()]
    };
    let opts: Vec<XV> = match n {
        0 => vec![Column, Literal, Scalar],
        1 => vec![Cast, TryCast, Not, IsNull, IsNotNull, Negative, Scalar],
        2 => vec![Binary, Like, case(2), Scalar, Binary, Like, case(2), Scalar, InList],
        n => vec![case(n), Scalar, case(n), Scalar, InList],
    };
    opts[k % opts.len()]
}
fn pschema() -> Schema {
    Schema::new(vec![Field::new("x", DataType::UInt64, true)])
}
fn mk_pexpr(v: XV, label: u64, mut kids: Vec<PE>) -> Result<PE> {
    use XV::*;
    let scalar = |label: u64, kids: Vec<PE>| -> PE {
        Arc::new(ScalarFunctionExpr::new(&format!("f{label}"), udf(label), kids, Arc::new(Field::new("r", DataType::Int64, true)), Arc::new(Default::default())))
    };
    Ok(match v {
        Column => Arc::new(px::Column::new(&format!("c{label}"), 0)),
        Literal => Arc::new(px::Literal::new(ScalarValue::UInt64(Some(label)))),
        Cast => Arc::new(px::CastExpr::new(kids.pop().unwrap(), DataType::FixedSizeBinary(label as i32), None)),
        TryCast => Arc::new(px::TryCastExpr::new(kids.pop().unwrap(), DataType::FixedSizeBinary(label as i32))),
        Not => Arc::new(px::NotExpr::new(kids.pop().unwrap())),
        IsNull => Arc::new(px::IsNullExpr::new(kids.pop().unwrap())),
        IsNotNull => Arc::new(px::IsNotNullExpr::new(kids.pop().unwrap())),
        Negative => Arc::new(px::NegativeExpr::new(kids.pop().unwrap())),
        Binary => {
            let r = kids.pop().unwrap();
            let l = kids.pop().unwrap();
            Arc::new(px::BinaryExpr::new(l, Operator::Plus, r))
        }
        Like => {
            let p = kids.pop().unwrap();
            let e = kids.pop().unwrap();
            Arc::new(px::LikeExpr::new(false, false, e, p))
        }
        Case(has_e, has_el) => {
            let el = if has_el { Some(kids.pop().unwrap()) } else { None };
            let mut it = kids.into_iter();
            let e = if has_e { Some(it.next().unwrap()) } else { None };
            let mut wt = vec![];
            while let Some(w) = it.next() {
                wt.push((w, it.next().unwrap()));
            }
            Arc::new(px::CaseExpr::try_new(e, wt, el)?)
        }
        InList => {
            let mut it = kids.into_iter();
            let e = it.next().unwrap();
            Arc::new(px::InListExpr::try_new(e, it.collect(), false, &pschema())?)
        }
        Scalar => scalar(label, kids),
    })
}
fn build_pexpr(m: &M) -> Result<PE> {
    let kids: Vec<PE> = m.kids.iter().map(build_pexpr).collect::<Result<_>>()?;
    mk_pexpr(xv(m.kids.len(), m.kind), m.label, kids)
}
impl Fam for PE {
    const NAME: &'static str = "pexpr";
    const TRUTHFUL_ONLY: bool = true;
    fn props(n: usize, kind: u64, _hint: bool, _s: bool) -> (bool, bool) {
        (matches!(xv(n, kind), XV::Column | XV::Literal | XV::Cast | XV::TryCast | XV::Scalar), false)
    }
    fn build(m: &M) -> Option<Self> {
        build_pexpr(m).ok()
    }
    fn label(&self) -> u64 {
        if let Some(c) = self.downcast_ref::<px::Column>() {
            name_label(c.name())
        } else if let Some(l) = self.downcast_ref::<px::Literal>() {
            match l.value() {
                ScalarValue::UInt64(Some(v)) => *v,
                _ => 0,
            }
        } else if let Some(c) = self.downcast_ref::<px::CastExpr>() {
            fsb_label(c.cast_type())
        } else if let Some(c) = self.downcast_ref::<px::TryCastExpr>() {
            fsb_label(c.cast_type())
        } else if let Some(f) = self.downcast_ref::<ScalarFunctionExpr>() {
            name_label(f.name())
        } else {
            0
        }
    }
    fn relabel(self, new: u64) -> Self {
        let kids = self.kids();
        let v = if self.downcast_ref::<px::Column>().is_some() {
            XV::Column
        } else if self.downcast_ref::<px::Literal>().is_some() {
            XV::Literal
        } else if self.downcast_ref::<px::CastExpr>().is_some() {
            XV::Cast
        } else if self.downcast_ref::<px::TryCastExpr>().is_some() {
            XV::TryCast
        } else if self.downcast_ref::<ScalarFunctionExpr>().is_some() {
            XV::Scalar
        } else {
            return self;
        };
        mk_pexpr(v, new, kids).expect("relabel keeps the node kind")
    }
    fn kids(&self) -> Vec<Self> {
        self.children().into_iter().cloned().collect()
    }
    fn kind(&self) -> String {
        format!("{self:?}").split(['(', ' ', '{']).next().unwrap_or("?").to_string()
    }
}

// ---- exec: Arc<dyn ExecutionPlan>
type EP = Arc<dyn ExecutionPlan>;
#[derive(Clone, Copy, Debug, PartialEq)]
enum CV {
    Empty,
    PlaceholderRow,
    GlobalLimit,
    LocalLimit,
    CoalesceBatches,
    CoalescePartitions,
    CrossJoin,
    Union,
}
fn cv(n: usize, kind: u64) -> CV {
    use CV::*;
    let k = kind as usize;
    match n {
        0 => [Empty, PlaceholderRow][k % 2],
        1 => [GlobalLimit, LocalLimit, CoalesceBatches, CoalescePartitions][k % 4],
        2 => [Union, Union, Union, CrossJoin][k % 4],
        _ => Union,
    }
}
fn eschema() -> Arc<Schema> {
    Arc::new(Schema::new(vec![Field::new("x", DataType::Int64, true)]))
}
fn mk_exec(v: CV, label: u64, mut kids: Vec<EP>) -> Result<EP> {
    use datafusion_physical_plan::{coalesce_batches::CoalesceBatchesExec, coalesce_partitions::CoalescePartitionsExec, empty::EmptyExec, joins::CrossJoinExec};
    use datafusion_physical_plan::{limit::GlobalLimitExec, limit::LocalLimitExec, placeholder_row::PlaceholderRowExec, union::UnionExec};
    use CV::*;
    Ok(match v {
        Empty => Arc::new(EmptyExec::new(eschema()).with_partitions(label as usize)),
        PlaceholderRow => Arc::new(PlaceholderRowExec::new(eschema()).with_partitions(label as usize)),
        GlobalLimit => Arc::new(GlobalLimitExec::new(kids.pop().unwrap(), label as usize, None)),
        LocalLimit => Arc::new(LocalLimitExec::new(kids.pop().unwrap(), label as usize)),
        CoalesceBatches => Arc::new(CoalesceBatchesExec::new(kids.pop().unwrap(), label as usize)),
        CoalescePartitions => Arc::new(CoalescePartitionsExec::new(kids.pop().unwrap())),
        CrossJoin => {
            let r = kids.pop().unwrap();
            let l = kids.pop().unwrap();
            Arc::new(CrossJoinExec::new(l, r))
        }
        Union => UnionExec::try_new(kids)?,
    })
}
fn build_exec(m: &M) -> Result<EP> {
    let kids: Vec<EP> = m.kids.iter().map(build_exec).collect::<Result<_>>()?;
    mk_exec(cv(m.kids.len(), m.kind), m.label, kids)
}
impl Fam for EP {
    const NAME: &'static str = "exec";
    const TRUTHFUL_ONLY: bool = true;
    fn props(n: usize, kind: u64, _hint: bool, _s: bool) -> (bool, bool) {
        (matches!(cv(n, kind), CV::Empty | CV::PlaceholderRow | CV::GlobalLimit | CV::LocalLimit | CV::CoalesceBatches), false)
    }
    fn build(m: &M) -> Option<Self> {
        build_exec(m).ok()
    }
    fn label(&self) -> u64 {
        use datafusion_physical_plan::{coalesce_batches::CoalesceBatchesExec, empty::EmptyExec, limit::GlobalLimitExec, limit::LocalLimitExec, placeholder_row::PlaceholderRowExec};
        use datafusion_physical_plan::ExecutionPlanProperties;
        if self.downcast_ref::<EmptyExec>().is_some() || self.downcast_ref::<PlaceholderRowExec>().is_some() {
            self.output_partitioning().partition_count() as u64
        } else if let Some(g) = self.downcast_ref::<GlobalLimitExec>() {
            g.skip() as u64
        } else if let Some(l) = self.downcast_ref::<LocalLimitExec>() {
            l.fetch() as u64
        } else if let Some(c) = self.downcast_ref::<CoalesceBatchesExec>() {
            c.target_batch_size() as u64
        } else {
            0
        }
    }
    fn relabel(self, new: u64) -> Self {
        use datafusion_physical_plan::{coalesce_batches::CoalesceBatchesExec, empty::EmptyExec, limit::GlobalLimitExec, limit::LocalLimitExec, placeholder_row::PlaceholderRowExec};
        let kids = self.kids();
        let v = if self.downcast_ref::<EmptyExec>().is_some() {
            CV::Empty
        } else if self.downcast_ref::<PlaceholderRowExec>().is_some() {
            CV::PlaceholderRow
        } else if self.downcast_ref::<GlobalLimitExec>().is_some() {
            CV::GlobalLimit
        } else if self.downcast_ref::<LocalLimitExec>().is_some() {
            CV::LocalLimit
        } else if self.downcast_ref::<CoalesceBatchesExec>().is_some() {
            CV::CoalesceBatches
        } else {
            return self;
        };
        mk_exec(v, new, kids).expect("relabel keeps the node kind")
    }
    fn kids(&self) -> Vec<Self> {
        self.children().into_iter().cloned().collect()
    }
    fn kind(&self) -> String {
        self.name().to_string()
    }
}

// ------------------------------------------------------------------ running the real code
struct Outcome {
    log: Vec<String>,
    calls: Vec<(char, u64, Dec)>,
    /// (shape, transformed, tnr)
    tres: Option<(String, bool, Tnr)>,
    answer: String,
}

impl<'a, 'n, T: Fam + 'n> TreeNodeVisitor<'n> for VisT<'a, T> {
    type Node = T;
    fn f_down(&mut self, n: &'n T) -> Result<Tnr> {
        vcall(self.0, 'd', n)
    }
    fn f_up(&mut self, n: &'n T) -> Result<Tnr> {
        vcall(self.0, 'u', n)
    }
}
struct VisT<'a, T>(&'a RefCell<Cb>, std::marker::PhantomData<T>);
struct RewT<'a, T>(&'a RefCell<Cb>, std::marker::PhantomData<T>);
impl<'a, T: Fam> TreeNodeRewriter for RewT<'a, T> {
    type Node = T;
    fn f_down(&mut self, n: T) -> Result<Transformed<T>> {
        tcall(self.0, 'd', n)
    }
    fn f_up(&mut self, n: T) -> Result<Transformed<T>> {
        tcall(self.0, 'u', n)
    }
}
fn vcall<T: Fam>(cb: &RefCell<Cb>, phase: char, n: &T) -> Result<Tnr> {
    match cb.borrow_mut().next(phase, n.label()) {
        Dec::V(t) => Ok(t),
        _ => Err(err()),
    }
}
fn tcall<T: Fam>(cb: &RefCell<Cb>, phase: char, n: T) -> Result<Transformed<T>> {
    let l = n.label();
    let (d, k) = {
        let mut c = cb.borrow_mut();
        let d = c.next(phase, l);
        (d, c.k as u64)
    };
    match d {
        Dec::T(t, f, r) => Ok(Transformed::new(if r && l != 0 { n.relabel(l + 100 * k) } else { n }, f, t)),
        _ => Err(err()),
    }
}

fn is_rewriting(op: &str) -> bool {
    !matches!(op, "apply" | "visit" | "exists")
}

fn run_real<T: Fam>(t: T, op: &str, ws: bool, decs: &[Dec]) -> Outcome {
    let rewriting = is_rewriting(op);
    let cb = RefCell::new(Cb { decs: decs.to_vec(), rewriting, k: 0, log: vec![], calls: vec![] });
    let mut tres = None;
    let tail: String;
    if op == "exists" {
        // `exists(f)`: Stop = "found here", anything else = "not here"
        let r = t.exists(|n| match cb.borrow_mut().next('d', n.label()) {
            Dec::V(Tnr::Stop) => Ok(true),
            Dec::V(_) => Ok(false),
            _ => Err(err()),
        });
        tail = match r {
            Ok(b) => if b { "t".into() } else { "f".into() },
            Err(_) => "err".into(),
        };
    } else if !rewriting {
        let r = if ws {
            t.ws_inspect(op, &cb)
        } else if op == "apply" {
            t.apply(|n| vcall(&cb, 'd', n))
        } else {
            t.visit(&mut VisT(&cb, std::marker::PhantomData))
        };
        tail = match r {
            Ok(v) => tnr_name(v).to_string(),
            Err(_) => "err".into(),
        };
    } else {
        let r = if ws {
            t.ws_rewrite(op, &cb)
        } else {
            match op {
                "tdown" => t.transform_down(|n| tcall(&cb, 'd', n)),
                "tup" => t.transform_up(|n| tcall(&cb, 'u', n)),
                "tdownup" => t.transform_down_up(|n| tcall(&cb, 'd', n), |n| tcall(&cb, 'u', n)),
                "rewrite" => t.rewrite(&mut RewT(&cb, std::marker::PhantomData)),
                _ => unreachable!(),
            }
        };
        match r {
            Ok(t) => {
                let s = t.data.shape(ws);
                tail = format!("{s} {} {}", if t.transformed { "t" } else { "f" }, tnr_name(t.tnr));
                tres = Some((s, t.transformed, t.tnr));
            }
            Err(_) => tail = "err".into(),
        }
    }
    let cb = cb.into_inner();
    let answer = format!("({}) {tail}", cb.log.join(" "));
    Outcome { log: cb.log, calls: cb.calls, tres, answer }
}

// ------------------------------------------------------------------ reference of the documented contract
/// Direct transcription of the documentation of `TreeNodeRecursion` (not of the code):
/// pre-order `f_down`, post-order `f_up`; `Jump` from `f_down` skips the node's children; `Jump`
/// from `f_up` skips the `f_up` of the ancestors up to the first one that still has unvisited
/// children; `Stop` ends everything; an error ends everything.  `quirk = true` additionally
/// applies what the code does for nodes whose last child container is empty (used to classify a
/// contract failure, and to know beforehand which node each invocation hits).
struct Reference<'a> {
    decs: &'a [Dec],
    rewriting: bool,
    k: usize,
    log: Vec<String>,
    quirk: bool,
    down: bool,
    up: bool,
}
impl<'a> Reference<'a> {
    fn call(&mut self, phase: char, label: u64) -> Dec {
        let d = self.decs.get(self.k).copied().unwrap_or(if self.rewriting { Dec::T(Tnr::Continue, false, false) } else { Dec::V(Tnr::Continue) });
        self.k += 1;
        self.log.push(format!("{phase}{label}"));
        d
    }
    /// returns None on error, else (shape, transformed, tnr)
    fn walk(&mut self, n: &V) -> Option<(String, bool, Tnr)> {
        let mut cur = n.label;
        let mut flag = false;
        let mut d = Tnr::Continue;
        if self.down {
            match self.call('d', cur) {
                Dec::E => return None,
                Dec::V(t) => d = t,
                Dec::T(t, f, r) => {
                    d = t;
                    flag |= f;
                    if r && cur != 0 {
                        cur += 100 * self.k as u64;
                    }
                }
            }
        }
        let mut after = Tnr::Continue;
        let mut kids_s: Vec<String> = n.kids.iter().map(|k| k.plain_shape()).collect();
        let shape = |cur: u64, kids_s: &Vec<String>| {
            let mut s = format!("({cur}");
            for k in kids_s {
                s.push(' ');
                s.push_str(k);
            }
            s.push(')');
            s
        };
        match d {
            Tnr::Stop => return Some((shape(cur, &kids_s), flag, Tnr::Stop)),
            Tnr::Jump => {}
            Tnr::Continue => {
                for (i, c) in n.kids.iter().enumerate() {
                    let (s, f, r) = self.walk(c)?;
                    kids_s[i] = s;
                    flag |= f;
                    after = r;
                    if r == Tnr::Stop {
                        break;
                    }
                }
                if self.quirk && n.reset && after != Tnr::Stop {
                    after = Tnr::Continue;
                }
            }
        }
        if after == Tnr::Stop || !self.up || after == Tnr::Jump {
            return Some((shape(cur, &kids_s), flag, after));
        }
        match self.call('u', cur) {
            Dec::E => None,
            Dec::V(t) => Some((shape(cur, &kids_s), flag, t)),
            Dec::T(t, f, r) => {
                flag |= f;
                if r && cur != 0 {
                    cur += 100 * self.k as u64;
                }
                Some((shape(cur, &kids_s), flag, t))
            }
        }
    }
}
/// (answer line, log)
fn reference(op: &str, v: &V, decs: &[Dec], quirk: bool) -> (String, Vec<String>) {
    let rewriting = is_rewriting(op);
    let (down, up) = match op {
        "apply" | "tdown" | "exists" => (true, false),
        "tup" => (false, true),
        _ => (true, true),
    };
    // exists: only Stop ("found") matters; Jump means "not here", like Continue
    let mapped: Vec<Dec>;
    let decs = if op == "exists" {
        mapped = decs.iter().map(|d| if let Dec::V(Tnr::Jump) = d { Dec::V(Tnr::Continue) } else { *d }).collect();
        &mapped[..]
    } else {
        decs
    };
    let mut r = Reference { decs, rewriting, k: 0, log: vec![], quirk, down, up };
    let res = r.walk(v);
    let logs = format!("({})", r.log.join(" "));
    let line = match res {
        None => format!("{logs} err"),
        Some((s, f, t)) => {
            if op == "exists" {
                format!("{logs} {}", if t == Tnr::Stop { "t" } else { "f" })
            } else if rewriting {
                format!("{logs} {s} {} {}", if f { "t" } else { "f" }, tnr_name(t))
            } else {
                format!("{logs} {}", tnr_name(t))
            }
        }
    };
    (line, r.log)
}
/// no invocation on an unlabelled node (label 0) may ask for a relabel: clear the flag there.  Which node an
/// invocation hits does not depend on relabel flags, so one pass over the reference log suffices.
fn fixup(op: &str, v: &V, decs: &mut Vec<Dec>) {
    if !is_rewriting(op) {
        return;
    }
    let (_, log) = reference(op, v, decs, true);
    for (k, entry) in log.iter().enumerate() {
        if &entry[1..] == "0" {
            if let Some(Dec::T(t, f, true)) = decs.get(k).copied() {
                decs[k] = Dec::T(t, f, false);
            }
        }
    }
}

// ------------------------------------------------------------------ one case
fn one<T: Fam>(run: &mut Run, op: &str, ws: bool, raw: &M, decs: &[Dec]) {
    let mut m = raw.clone();
    let mut next = 1;
    annotate::<T>(&mut m, &mut next);
    let v = m.view(ws);
    let mut decs = decs.to_vec();
    fixup(op, &v, &mut decs);
    if T::TRUTHFUL_ONLY {
        for d in decs.iter_mut() {
            if let Dec::T(t, false, true) = *d {
                *d = Dec::T(t, false, false);
            }
        }
    }
    // constructors of real nodes may validate (and even evaluate constant children): refusal or panic = skip
    let Some(t) = hutil::catch(std::panic::AssertUnwindSafe(|| T::build(&m))).ok().flatten() else {
        run.count(&format!("{}: constructor refused the shape (skipped)", T::NAME));
        return;
    };
    let opname = if ws { format!("{op}_with_subqueries") } else { op.to_string() };
    let dstr = format!("({})", decs.iter().map(|d| d.atom()).collect::<Vec<_>>().join(" "));
    let input = format!("fam={} op={opname} tree={} decs={dstr}", T::NAME, v.sexp());
    let kinds = kinds_of(&t, ws);
    let dd = decs.clone();
    let opn = op.to_string();
    let out = match hutil::catch(std::panic::AssertUnwindSafe(move || run_real::<T>(t, &opn, ws, &dd))) {
        Ok(o) => o,
        Err(p) => {
            run.oracle(false, &format!("panic {input}"), &format!("{p} (node kinds: {kinds})"));
            return;
        }
    };
    let used = out.calls.len();
    let kinds_used = {
        let mut s = std::collections::BTreeSet::new();
        for c in &out.calls {
            s.insert(c.2.atom());
        }
        s.len()
    };
    run.case(op, &format!("({} {dstr})", v.sexp()), &out.answer, used >= 3 && kinds_used >= 2);
    run.count(&format!("{}:{opname}", T::NAME));
    run.count(&format!("nodes={}", v.size().min(9)));
    if v.has_reset() {
        run.count("tree has an empty trailing container");
    }
    for c in &out.calls {
        run.count(&match c.2 {
            Dec::E => "decision Err".to_string(),
            Dec::T(t, f, _) if t != Tnr::Continue => format!("decision {} with transformed={f}", tnr_name(t)),
            d => format!("decision {}", tnr_name(d.tnr().unwrap())),
        });
    }
    // (1) the documented contract
    let (want, _) = reference(op, &v, &decs, false);
    if out.answer != want {
        let (quirk, _) = reference(op, &v, &decs, true);
        let sig = if out.answer == quirk {
            format!("jump-from-last-child-dropped-by-empty-trailing-container {input}")
        } else {
            format!("contract-mismatch {input}")
        };
        run.oracle(false, &sig, &format!("real `{}` vs documented contract `{want}` ({input}; node kinds: {kinds})", out.answer));
    } else {
        run.oracle(true, "", "");
    }
    // (2) nothing is called after a Stop / Err   (exists: Stop = found)
    let first_end = out.calls.iter().position(|c| matches!(c.2.tnr(), None | Some(Tnr::Stop)));
    run.oracle(first_end.map_or(true, |i| i + 1 == out.calls.len()), &format!("callback-after-stop {input}"), &format!("log {:?}", out.log));
    if let Some((shape, flag, _)) = &out.tres {
        // (3) transformed == OR of the reported flags
        let reported = out.calls.iter().any(|c| matches!(c.2, Dec::T(_, true, _)));
        run.oracle(*flag == reported, &format!("transformed-flag {input}"), &format!("result.transformed={flag}, callbacks reported {reported}"));
        // (4) result tree = input with exactly the replacements made
        let mut cur: HashMap<u64, u64> = HashMap::new(); // current label -> original label
        collect_labels(&v, &mut cur);
        for (i, c) in out.calls.iter().enumerate() {
            if let Dec::T(_, _, true) = c.2 {
                if c.1 != 0 {
                    if let Some(orig) = cur.remove(&c.1) {
                        cur.insert(c.1 + 100 * (i as u64 + 1), orig);
                    }
                }
            }
        }
        let mut inv: HashMap<u64, u64> = cur.iter().map(|(c, o)| (*o, *c)).collect();
        inv.insert(0, 0);
        let want_shape = relabelled(&v, &inv);
        run.oracle(*shape == want_shape, &format!("replacement-tree {input}"), &format!("result {shape}, expected {want_shape}"));
    }
}
fn kinds_of<T: Fam>(t: &T, ws: bool) -> String {
    fn go<T: Fam>(t: &T, ws: bool, out: &mut Vec<String>) {
        out.push(format!("{}:{}", t.label(), t.kind()));
        if ws {
            for k in t.subq() {
                go(&k, ws, out);
            }
        }
        for k in t.kids() {
            go(&k, ws, out);
        }
    }
    let mut v = vec![];
    go(t, ws, &mut v);
    v.join(",")
}
fn collect_labels(m: &V, out: &mut HashMap<u64, u64>) {
    out.insert(m.label, m.label);
    for k in &m.kids {
        collect_labels(k, out);
    }
}
fn relabelled(m: &V, inv: &HashMap<u64, u64>) -> String {
    let mut s = format!("({}", inv[&m.label]);
    for k in &m.kids {
        s.push(' ');
        s.push_str(&relabelled(k, inv));
    }
    s.push(')');
    s
}

/// Model-free oracle: for every node of a built tree, `apply_children` and `map_children` enumerate the same
/// children in the same order, and these are the children the node was built from.
fn children_agree<T: Fam>(run: &mut Run, raw: &M) {
    let mut m = raw.clone();
    let mut next = 1;
    annotate::<T>(&mut m, &mut next);
    let Some(t) = hutil::catch(std::panic::AssertUnwindSafe(|| T::build(&m))).ok().flatten() else { return };
    fn go<T: Fam>(run: &mut Run, t: &T) {
        let mut a: Vec<String> = vec![];
        let ra = t.apply_children(|c| {
            a.push(c.shape(false));
            Ok(Tnr::Continue)
        });
        let mut b: Vec<String> = vec![];
        let rb = t.clone().map_children(|c| {
            b.push(c.shape(false));
            Ok(Transformed::no(c))
        });
        let built: Vec<String> = t.kids().iter().map(|k| k.shape(false)).collect();
        let kind = t.kind();
        run.oracle(
            ra.is_ok() && rb.is_ok() && a == b,
            &format!("children-enumeration-differs fam={} kind={kind} node={}", T::NAME, t.shape(false)),
            &format!("apply_children sees {a:?}, map_children sees {b:?}"),
        );
        run.oracle(
            a == built,
            &format!("children-not-as-built fam={} kind={kind} node={}", T::NAME, t.shape(false)),
            &format!("apply_children sees {a:?}, built from {built:?}"),
        );
        // the rebuilt node must be the node (identity map)
        if let Ok(r) = rb {
            run.oracle(r.data.shape(false) == t.shape(false) && !r.transformed, &format!("identity-map-changes-node fam={} kind={kind} node={}", T::NAME, t.shape(false)), &format!("got {} transformed={}", r.data.shape(false), r.transformed));
        }
        run.count(&format!("children oracle: {} {kind}", T::NAME));
        for k in t.kids() {
            go(run, &k);
        }
        for k in t.subq() {
            go(run, &k);
        }
    }
    go(run, &t);
}

// ------------------------------------------------------------------ generators
fn raw(kids: Vec<M>) -> M {
    M { label: 0, kids, reset: false, kind: 0, subq: vec![] }
}
/// all ordered forests with n nodes
fn forests(n: usize) -> Vec<Vec<M>> {
    if n == 0 {
        return vec![vec![]];
    }
    let mut out = vec![];
    for first in 1..=n {
        for t in trees(first) {
            for rest in forests(n - first) {
                let mut v = vec![t.clone()];
                v.extend(rest);
                out.push(v);
            }
        }
    }
    out
}
fn trees(n: usize) -> Vec<M> {
    forests(n - 1).into_iter().map(raw).collect()
}
/// every assignment of the reset hint to inner nodes (position-addressed)
fn reset_variants(m: &M) -> Vec<M> {
    fn inner(m: &M, path: &mut Vec<usize>, out: &mut Vec<Vec<usize>>) {
        if !m.kids.is_empty() {
            out.push(path.clone());
        }
        for (i, k) in m.kids.iter().enumerate() {
            path.push(i);
            inner(k, path, out);
            path.pop();
        }
    }
    fn set(m: &mut M, path: &[usize]) {
        match path.split_first() {
            None => m.reset = true,
            Some((i, rest)) => set(&mut m.kids[*i], rest),
        }
    }
    let mut paths = vec![];
    inner(m, &mut vec![], &mut paths);
    let mut out = vec![];
    for mask in 0..(1u32 << paths.len()) {
        let mut t = m.clone();
        for (i, p) in paths.iter().enumerate() {
            if mask >> i & 1 == 1 {
                set(&mut t, p);
            }
        }
        out.push(t);
    }
    out
}
fn randomize_kinds(rng: &mut Rng, m: &mut M) {
    m.kind = rng.below(1 << 20);
    for k in &mut m.kids {
        randomize_kinds(rng, k);
    }
}
fn random_tree(rng: &mut Rng, n: usize, subq: bool) -> M {
    fn go(rng: &mut Rng, n: usize) -> M {
        let mut kids = vec![];
        let mut left = n - 1;
        while left > 0 {
            let take = 1 + rng.below(left as u64) as usize;
            let take = if rng.chance(1, 2) { take.min(3) } else { take };
            kids.push(go(rng, take));
            left -= take;
        }
        M { label: 0, kids, reset: rng.chance(1, 3), kind: rng.below(1 << 20), subq: vec![] }
    }
    fn add_subq(rng: &mut Rng, m: &mut M, depth: usize) {
        if m.kids.len() <= 2 && rng.chance(1, 4) {
            for _ in 0..1 + rng.below(2) {
                let sz = 1 + rng.below(3) as usize;
                let mut inner = go(rng, sz);
                if depth == 0 {
                    add_subq(rng, &mut inner, 1);
                }
                m.subq.push(M { label: 0, kids: vec![inner], reset: false, kind: 0, subq: vec![] });
            }
        }
        for k in &mut m.kids {
            add_subq(rng, k, depth);
        }
    }
    let mut t = go(rng, n);
    if subq {
        add_subq(rng, &mut t, 0);
    }
    t
}
fn vopts(with_err: bool) -> Vec<Dec> {
    let mut v = vec![Dec::V(Tnr::Continue), Dec::V(Tnr::Jump), Dec::V(Tnr::Stop)];
    if with_err {
        v.push(Dec::E);
    }
    v
}
fn topts(full: bool) -> Vec<Dec> {
    // Stop / Jump / Continue each with transformed = true AND transformed = false
    let mut v = vec![];
    for t in [Tnr::Continue, Tnr::Jump, Tnr::Stop] {
        for f in [false, true] {
            if full {
                v.push(Dec::T(t, f, false));
                v.push(Dec::T(t, f, true));
            } else {
                v.push(Dec::T(t, f, f));
            }
        }
    }
    if full {
        v.push(Dec::E);
    }
    v
}
fn all_vectors(opts: &[Dec], len: usize) -> Vec<Vec<Dec>> {
    let mut out = vec![vec![]];
    for _ in 0..len {
        let mut next = vec![];
        for v in &out {
            for o in opts {
                let mut w = v.clone();
                w.push(*o);
                next.push(w);
            }
        }
        out = next;
    }
    out
}
fn random_vector(rng: &mut Rng, rewriting: bool, len: usize) -> Vec<Dec> {
    // mostly Continue so that deep nodes are reached; the rest spread over Jump/Stop/Err
    let style = rng.below(4);
    (0..len)
        .map(|_| {
            let r = rng.below(100);
            let t = match style {
                0 => if r < 80 { Tnr::Continue } else if r < 95 { Tnr::Jump } else { Tnr::Stop },
                1 => if r < 60 { Tnr::Continue } else if r < 97 { Tnr::Jump } else { Tnr::Stop },
                2 => if r < 90 { Tnr::Continue } else if r < 96 { Tnr::Jump } else { Tnr::Stop },
                _ => if r < 50 { Tnr::Continue } else if r < 90 { Tnr::Jump } else { Tnr::Stop },
            };
            if rng.chance(1, 60) {
                Dec::E
            } else if rewriting {
                // the flag is independent of the decision: Stop/Jump come with transformed = false as often as true
                let f = rng.chance(1, 2) && (t != Tnr::Continue || rng.chance(1, 2));
                let rl = if rng.chance(1, 6) { !f } else { f };
                Dec::T(t, f, rl)
            } else {
                Dec::V(t)
            }
        })
        .collect()
}
// ------------------------------------------------------------------ tables (T2 validation)
fn tables(run: &mut Run) {
    let all = [Tnr::Continue, Tnr::Jump, Tnr::Stop];
    for me in all {
        for (name, which) in [("visit_children", 0), ("visit_sibling", 1), ("visit_parent", 2)] {
            // the closure returns each possible value in turn; the table entry is `call` iff it is
            // invoked and its result is passed through, `(ret v)` iff it is never invoked
            let mut acts = std::collections::BTreeSet::new();
            for ret in [Some(Tnr::Continue), Some(Tnr::Jump), Some(Tnr::Stop), None] {
                let mut called = false;
                let f = || {
                    called = true;
                    ret.ok_or_else(err)
                };
                let r = match which {
                    0 => me.visit_children(f),
                    1 => me.visit_sibling(f),
                    _ => me.visit_parent(f),
                };
                let a = if called {
                    if r.as_ref().ok().copied() == ret { "call".to_string() } else { format!("call-but-result-{r:?}") }
                } else {
                    match r {
                        Ok(v) => format!("(ret {})", tnr_name(v)),
                        Err(_) => "err-without-call".into(),
                    }
                };
                acts.insert(a);
            }
            let ans = acts.into_iter().collect::<Vec<_>>().join("|");
            run.case("tbl", &format!("(TreeNodeRecursion::{name} {})", tnr_name(me)), &ans, true);
        }
        for (name, which) in [("transform_children", 0), ("transform_sibling", 1), ("transform_parent", 2)] {
            let mut acts = std::collections::BTreeSet::new();
            for st in [false, true] {
                for ret in [Some((false, Tnr::Continue)), Some((true, Tnr::Jump)), Some((false, Tnr::Stop)), Some((true, Tnr::Continue)), None] {
                    let mut called = false;
                    let f = |d: i32| {
                        called = true;
                        match ret {
                            Some((ct, ctnr)) => Ok(Transformed::new(d + 1, ct, ctnr)),
                            None => Err(err()),
                        }
                    };
                    let me_t = Transformed::new(7i32, st, me);
                    let r = match which {
                        0 => me_t.transform_children(f),
                        1 => me_t.transform_sibling(f),
                        _ => me_t.transform_parent(f),
                    };
                    let a = if called {
                        let want = ret.map(|(ct, ctnr)| Transformed::new(8i32, ct || st, ctnr));
                        if r.as_ref().ok() == want.as_ref() { "callMerge".to_string() } else { format!("call-but-result-{r:?}") }
                    } else {
                        match r {
                            Ok(t) if t.data == 7 && t.transformed == st => format!("(ret {})", tnr_name(t.tnr)),
                            other => format!("no-call-but-{other:?}"),
                        }
                    };
                    acts.insert(a);
                }
            }
            let ans = acts.into_iter().collect::<Vec<_>>().join("|");
            run.case("tbl", &format!("(Transformed::{name} {})", tnr_name(me)), &ans, true);
        }
    }
}

/// targeted reproduction on a shape SQL produces every day: `CASE WHEN w THEN t END` (no ELSE):
/// children live in `(Option<Box>, Vec<(Box,Box)>, Option<Box>)`; the trailing `None` resets a `Jump`
/// coming out of `t`'s `f_up`, so the CASE node's `f_up` runs although its last child said Jump.
fn case_without_else(run: &mut Run) {
    use datafusion_expr::expr::Case;
    use datafusion_expr::{col, lit};
    struct V(Vec<String>);
    impl<'n> TreeNodeVisitor<'n> for V {
        type Node = Expr;
        fn f_down(&mut self, n: &'n Expr) -> Result<Tnr> {
            self.0.push(format!("d:{}", n.variant_name()));
            Ok(Tnr::Continue)
        }
        fn f_up(&mut self, n: &'n Expr) -> Result<Tnr> {
            self.0.push(format!("u:{}", n.variant_name()));
            Ok(if matches!(n, Expr::Literal(..)) { Tnr::Jump } else { Tnr::Continue })
        }
    }
    for (with_else, label) in [(false, "CASE WHEN c THEN 1 END"), (true, "CASE WHEN c THEN 1 ELSE 1 END")] {
        let e = Expr::Case(Case::new(None, vec![(Box::new(col("c")), Box::new(lit(1i64)))], if with_else { Some(Box::new(lit(1i64))) } else { None }));
        let mut v = V(vec![]);
        let r = e.visit(&mut v).unwrap();
        let called_parent = v.0.iter().any(|s| s == "u:Case");
        // documented: the last child's f_up said Jump → the parent's f_up is skipped and Jump is returned
        run.oracle(
            !called_parent && r == Tnr::Jump,
            &format!("jump-from-last-child-dropped-by-empty-trailing-container fam=expr-case op=visit expr={label} f_up(Literal)=Jump"),
            &format!("visit log {:?} result {r:?}: f_up(Case) {} although its last child's f_up returned Jump", v.0, if called_parent { "WAS invoked" } else { "was not invoked" }),
        );
    }
}

const OPS: [&str; 7] = ["apply", "visit", "tdown", "tup", "tdownup", "rewrite", "exists"];

/// all operations of one family on one raw tree with one decision vector per operation kind
fn all_ops<T: Fam>(run: &mut Run, rng: &mut Rng, t: &M, n: usize, ws_too: bool) {
    for op in OPS {
        let decs = random_vector(rng, is_rewriting(op), 2 * n + 2);
        one::<T>(run, op, false, t, &decs);
        if ws_too && op != "exists" {
            let decs = random_vector(rng, is_rewriting(op), 2 * n + 2);
            one::<T>(run, op, true, t, &decs);
        }
    }
}

pub fn run(run: &mut Run, args: &Args) {
    let mut rng = Rng::new(args.seed);
    if std::env::var("C42_DEBUG").is_err() {
        hutil::quiet_panics();
    }
    tables(run);

    // ---- exhaustive part: all shapes × all reset assignments × all decision vectors
    let nmax_apply = run.budget(4, 5) as usize;
    for n in 1..=nmax_apply {
        for t in trees(n) {
            let variants = reset_variants(&t);
            // apply: reset is irrelevant by construction of the code — one random variant, all vectors
            let v = rng.pick(&variants).clone();
            for decs in all_vectors(&vopts(true), n) {
                one::<Rose>(run, "apply", false, &v, &decs);
            }
            if n <= 3 {
                for v in &variants {
                    for decs in all_vectors(&vopts(false), 2 * n) {
                        one::<Rose>(run, "visit", false, v, &decs);
                    }
                    for decs in all_vectors(&topts(false), n) {
                        one::<Rose>(run, "tdown", false, v, &decs);
                        one::<Rose>(run, "tup", false, v, &decs);
                    }
                }
                // the other families: a few kind assignments per shape, every decision vector
                for _ in 0..run.budget(2, 6) {
                    let mut k = t.clone();
                    randomize_kinds(&mut rng, &mut k);
                    for decs in all_vectors(&vopts(false), n) {
                        one::<Expr>(run, "apply", false, &k, &decs);
                        one::<LogicalPlan>(run, "apply", false, &k, &decs);
                        one::<PE>(run, "exists", false, &k, &decs);
                        one::<EP>(run, "apply", false, &k, &decs);
                    }
                    for decs in all_vectors(&topts(false), n) {
                        one::<Expr>(run, "tup", false, &k, &decs);
                        one::<Expr>(run, "tdown", false, &k, &decs);
                        one::<LogicalPlan>(run, "tup", false, &k, &decs);
                        one::<LogicalPlan>(run, "tdown", false, &k, &decs);
                        one::<PE>(run, "tup", false, &k, &decs);
                        one::<PE>(run, "tdown", false, &k, &decs);
                        one::<EP>(run, "tup", false, &k, &decs);
                        one::<EP>(run, "tdown", false, &k, &decs);
                    }
                    if n <= 2 {
                        for decs in all_vectors(&vopts(false), 2 * n) {
                            one::<Expr>(run, "visit", false, &k, &decs);
                            one::<LogicalPlan>(run, "visit", false, &k, &decs);
                            one::<PE>(run, "visit", false, &k, &decs);
                            one::<EP>(run, "visit", false, &k, &decs);
                        }
                        for decs in all_vectors(&topts(false), 2 * n) {
                            one::<Expr>(run, "rewrite", false, &k, &decs);
                            one::<LogicalPlan>(run, "tdownup", false, &k, &decs);
                            one::<PE>(run, "tdownup", false, &k, &decs);
                            one::<EP>(run, "rewrite", false, &k, &decs);
                        }
                    }
                }
            }
            if n <= 2 {
                for v in &variants {
                    for decs in all_vectors(&topts(false), 2 * n) {
                        one::<Rose>(run, "tdownup", false, v, &decs);
                    }
                }
            }
        }
    }
    // a plan with one sub-query, every decision vector, all six `*_with_subqueries` operations
    {
        let sub = M { label: 0, kids: vec![raw(vec![])], reset: false, kind: 0, subq: vec![] };
        for host_kids in 0..=2usize {
            let mut host = raw((0..host_kids).map(|_| raw(vec![])).collect());
            host.subq = vec![sub.clone()];
            let nodes = 3 + host_kids;
            for decs in all_vectors(&vopts(false), nodes) {
                one::<LogicalPlan>(run, "apply", true, &host, &decs);
            }
            if host_kids <= 1 {
                for decs in all_vectors(&topts(false), nodes) {
                    one::<LogicalPlan>(run, "tdown", true, &host, &decs);
                    one::<LogicalPlan>(run, "tup", true, &host, &decs);
                }
            }
            for decs in all_vectors(&vopts(false), 2 * nodes).into_iter().step_by(if host_kids == 0 { 1 } else { 7 }) {
                one::<LogicalPlan>(run, "visit", true, &host, &decs);
            }
        }
    }
    // ---- random part: larger trees, biased vectors, every family × every operation
    let per = run.budget(260, 16_000);
    for _ in 0..per {
        let n = 2 + rng.below(10) as usize;
        let t = random_tree(&mut rng, n, true);
        all_ops::<Expr>(run, &mut rng, &t, n, false);
        all_ops::<LogicalPlan>(run, &mut rng, &t, t.size(), true);
        all_ops::<PE>(run, &mut rng, &t, n, false);
        all_ops::<EP>(run, &mut rng, &t, n, false);
        if rng.chance(1, 2) {
            all_ops::<Rose>(run, &mut rng, &t, n, false);
        }
    }
    // ---- children enumeration: apply_children vs map_children vs construction, on many node kinds
    let per = run.budget(300, 6_000);
    for _ in 0..per {
        let n = 1 + rng.below(9) as usize;
        let t = random_tree(&mut rng, n, true);
        children_agree::<Expr>(run, &t);
        children_agree::<LogicalPlan>(run, &t);
        children_agree::<PE>(run, &t);
        children_agree::<EP>(run, &t);
    }
    case_without_else(run);
    let _ = std::panic::take_hook();
    run.note("families: rose (harness tree, (Vec,Vec) container), expr (datafusion_expr::Expr), plan (LogicalPlan incl. *_with_subqueries), pexpr (Arc<dyn PhysicalExpr>), exec (Arc<dyn ExecutionPlan>); same model Sm/TreeWalk for all");
}
