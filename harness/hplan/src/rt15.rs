//! C15 — real-thread detectors (called from `c15::run`).
//!
//! The correspondence of `c15.rs` drives the channels single-threaded, i.e. at poll granularity.
//! Two defect classes are invisible there:
//!   A. a reordering INSIDE one operation that opens a window between its wake-ups and its state
//!      change (a woken task re-polled by another thread inside the window parks again and is never
//!      woken);
//!   B. a decision taken from an atomic that another operation updates OUTSIDE the lock (the gate
//!      counter ends up too LOW: the gate closes although an open channel is empty).
//! Detectors (both are consequences of the `Props.C15` theorems for every schedule, so correct code
//! can never fail them; whether a defect is HIT depends on the OS schedule — they are probabilistic):
//!   (A) hand-off wakers: `wake()` hands the woken future to a helper thread that re-polls it at
//!       once, and the waking thread gives it a bounded head start (it waits until that re-poll has
//!       returned, at most `HEAD_START`); after the operation and all hand-offs have settled, every
//!       future that is still `Pending` must be justified by the final state exactly as
//!       `no_lost_wakeup_sender/receiver` say;
//!   (B) two-thread race sweeps (`recv last value || drop last sender`, `send || drop receiver`,
//!       `clone || drop`, `drop last sender || drop receiver`, `recv opening the gate || send`)
//!       next to an idle open channel; at quiescence a send on the idle channel must be `Ready`
//!       (`gate_counter_exact`, direction "never too low"), its value must arrive, closed channels
//!       must report `None`, and a sender parked by the gate must have been woken.
//! Both are generic over the channel implementation so that every run also measures them against
//! `mini15` (a copy of the pinned file with switchable defects of the two classes).
use std::future::Future;
use std::pin::Pin;
use std::sync::atomic::{AtomicBool, AtomicU64, AtomicUsize, Ordering};
use std::sync::{Arc, Mutex};
use std::task::{Context, Poll, Wake, Waker};
use std::time::{Duration, Instant};

use hutil::{Rng, Run};

pub type BoxFut<T> = Pin<Box<dyn Future<Output = T> + Send>>;

pub trait ChanImpl: 'static {
    type Tx: Send + Sync + 'static;
    type Rx: Send + 'static;
    const NAME: &'static str;
    fn channels(n: usize) -> (Vec<Self::Tx>, Vec<Self::Rx>);
    fn clone_tx(tx: &Self::Tx) -> Self::Tx;
    fn send_fut(tx: Arc<Self::Tx>, v: u64) -> BoxFut<bool>;
    fn recv_fut(rx: Self::Rx) -> BoxFut<(Self::Rx, Option<u64>)>;
}

pub struct Real;
impl ChanImpl for Real {
    type Tx = datafusion_physical_plan::repartition::verif::DistributionSender<u64>;
    type Rx = datafusion_physical_plan::repartition::verif::DistributionReceiver<u64>;
    const NAME: &'static str = "real";
    fn channels(n: usize) -> (Vec<Self::Tx>, Vec<Self::Rx>) {
        datafusion_physical_plan::repartition::verif::channels(n)
    }
    fn clone_tx(tx: &Self::Tx) -> Self::Tx {
        tx.clone()
    }
    fn send_fut(tx: Arc<Self::Tx>, v: u64) -> BoxFut<bool> {
        Box::pin(async move { tx.send(v).await.is_ok() })
    }
    fn recv_fut(mut rx: Self::Rx) -> BoxFut<(Self::Rx, Option<u64>)> {
        Box::pin(async move {
            let v = rx.recv().await;
            (rx, v)
        })
    }
}

pub struct Mini;
impl ChanImpl for Mini {
    type Tx = crate::mini15::DistributionSender<u64>;
    type Rx = crate::mini15::DistributionReceiver<u64>;
    const NAME: &'static str = "mini";
    fn channels(n: usize) -> (Vec<Self::Tx>, Vec<Self::Rx>) {
        crate::mini15::channels(n)
    }
    fn clone_tx(tx: &Self::Tx) -> Self::Tx {
        tx.clone()
    }
    fn send_fut(tx: Arc<Self::Tx>, v: u64) -> BoxFut<bool> {
        Box::pin(async move { tx.send(v).await.is_ok() })
    }
    fn recv_fut(mut rx: Self::Rx) -> BoxFut<(Self::Rx, Option<u64>)> {
        Box::pin(async move {
            let v = rx.recv().await;
            (rx, v)
        })
    }
}

// ------------------------------------------------------------------------------------------------
// (A) hand-off wakers
// ------------------------------------------------------------------------------------------------

/// how long a waking thread waits for the helper's immediate re-poll to return
const HEAD_START: Duration = Duration::from_millis(2);

thread_local! { static IS_HELPER: std::cell::Cell<bool> = const { std::cell::Cell::new(false) }; }

type Job = Box<dyn FnOnce() + Send>;

/// one helper thread that re-polls handed-off futures immediately
struct Pool {
    tx: Mutex<std::sync::mpsc::Sender<Job>>,
    submitted: AtomicU64,
    completed: AtomicU64,
}
impl Pool {
    fn new() -> Arc<Pool> {
        let (tx, rx) = std::sync::mpsc::channel::<Job>();
        let pool = Arc::new(Pool { tx: Mutex::new(tx), submitted: AtomicU64::new(0), completed: AtomicU64::new(0) });
        let p2 = pool.clone();
        std::thread::spawn(move || {
            IS_HELPER.with(|h| h.set(true));
            while let Ok(job) = rx.recv() {
                job();
                p2.completed.fetch_add(1, Ordering::SeqCst);
            }
        });
        pool
    }
    /// hand `job` to the helper; unless called by the helper itself, give it a bounded head start
    fn handoff(&self, job: Job) {
        let ticket = self.submitted.fetch_add(1, Ordering::SeqCst) + 1;
        let _ = self.tx.lock().unwrap().send(job);
        if IS_HELPER.with(|h| h.get()) {
            return;
        }
        let t0 = Instant::now();
        while self.completed.load(Ordering::SeqCst) < ticket && t0.elapsed() < HEAD_START {
            std::thread::yield_now();
        }
    }
    /// all hand-offs (including those made by re-polls) have been processed
    fn settle(&self) -> bool {
        let t0 = Instant::now();
        loop {
            let s = self.submitted.load(Ordering::SeqCst);
            if self.completed.load(Ordering::SeqCst) >= s {
                // a job may have submitted another one just before finishing: re-check
                std::thread::yield_now();
                if self.completed.load(Ordering::SeqCst) >= self.submitted.load(Ordering::SeqCst) {
                    return true;
                }
            }
            if t0.elapsed() > Duration::from_secs(10) {
                return false;
            }
            std::thread::yield_now();
        }
    }
}

enum TaskFut<I: ChanImpl> {
    Send(BoxFut<bool>),
    Recv(BoxFut<(I::Rx, Option<u64>)>),
}
enum Out<I: ChanImpl> {
    Send(bool),
    Recv(Option<u64>, Option<I::Rx>),
}

struct Task<I: ChanImpl> {
    id: usize,
    chan: usize,
    is_send: bool,
    fut: Mutex<Option<TaskFut<I>>>,
    out: Mutex<Option<Out<I>>>,
    woken: AtomicBool,
    polls: AtomicUsize,
    pool: Arc<Pool>,
}

fn poll_task<I: ChanImpl>(t: &Arc<Task<I>>) {
    let mut g = t.fut.lock().unwrap();
    let Some(f) = g.as_mut() else { return };
    t.woken.store(false, Ordering::SeqCst);
    t.polls.fetch_add(1, Ordering::SeqCst);
    let w = Waker::from(t.clone());
    let mut cx = Context::from_waker(&w);
    let out = match f {
        TaskFut::Send(fu) => match fu.as_mut().poll(&mut cx) {
            Poll::Ready(b) => Some(Out::Send(b)),
            Poll::Pending => None,
        },
        TaskFut::Recv(fu) => match fu.as_mut().poll(&mut cx) {
            Poll::Ready((rx, v)) => Some(Out::Recv(v, Some(rx))),
            Poll::Pending => None,
        },
    };
    if let Some(o) = out {
        *g = None;
        *t.out.lock().unwrap() = Some(o);
    }
}

impl<I: ChanImpl> Wake for Task<I> {
    fn wake(self: Arc<Self>) {
        self.woken.store(true, Ordering::SeqCst);
        let t = self.clone();
        self.pool.handoff(Box::new(move || poll_task(&t)));
    }
}

/// a small world of real channels + tasks whose wakers hand off to the helper thread
struct HW<I: ChanImpl> {
    n: usize,
    pool: Arc<Pool>,
    txs: Vec<Vec<Arc<I::Tx>>>,
    rxs: Vec<Option<I::Rx>>,
    rx_alive: Vec<bool>,
    tasks: Vec<Arc<Task<I>>>,
    next_val: u64,
    hist: Vec<String>,
}

impl<I: ChanImpl> HW<I> {
    fn new(n: usize, pool: &Arc<Pool>) -> Self {
        let (txs, rxs) = I::channels(n);
        HW {
            n,
            pool: pool.clone(),
            txs: txs.into_iter().map(|t| vec![Arc::new(t)]).collect(),
            rxs: rxs.into_iter().map(Some).collect(),
            rx_alive: vec![true; n],
            tasks: vec![],
            next_val: 100,
            hist: vec![format!("channels({n})")],
        }
    }
    fn spawn(&mut self, chan: usize, is_send: bool, fut: TaskFut<I>) -> Arc<Task<I>> {
        let t = Arc::new(Task {
            id: self.tasks.len(),
            chan,
            is_send,
            fut: Mutex::new(Some(fut)),
            out: Mutex::new(None),
            woken: AtomicBool::new(false),
            polls: AtomicUsize::new(0),
            pool: self.pool.clone(),
        });
        self.tasks.push(t.clone());
        poll_task(&t);
        t
    }
    fn send(&mut self, c: usize) -> Arc<Task<I>> {
        let v = self.next_val;
        self.next_val += 1;
        let tx = self.txs[c][0].clone();
        let t = self.spawn(c, true, TaskFut::Send(I::send_fut(tx, v)));
        self.hist.push(format!("t{}=send({c},{v})", t.id));
        t
    }
    fn recv(&mut self, c: usize) -> Option<Arc<Task<I>>> {
        self.collect();
        let rx = self.rxs[c].take()?;
        let t = self.spawn(c, false, TaskFut::Recv(I::recv_fut(rx)));
        self.hist.push(format!("t{}=recv({c})", t.id));
        Some(t)
    }
    /// receivers of finished recv tasks go back to their slots
    fn collect(&mut self) {
        for t in &self.tasks {
            if !t.is_send {
                if let Some(Out::Recv(_, rx)) = t.out.lock().unwrap().as_mut() {
                    if let Some(rx) = rx.take() {
                        if self.rx_alive[t.chan] {
                            self.rxs[t.chan] = Some(rx);
                        }
                    }
                }
            }
        }
    }
    fn drop_rx(&mut self, c: usize) {
        self.collect();
        self.hist.push(format!("drop_rx({c})"));
        self.rx_alive[c] = false;
        if let Some(rx) = self.rxs[c].take() {
            drop(rx);
        } else {
            // the receiver lives inside a parked recv future: drop that future
            for t in &self.tasks {
                if !t.is_send && t.chan == c {
                    let f = t.fut.lock().unwrap().take();
                    drop(f);
                }
            }
        }
    }
    /// drop every handle of channel `c` that the world holds (parked send futures keep theirs)
    fn drop_all_tx(&mut self, c: usize) {
        self.hist.push(format!("drop_all_tx({c})"));
        self.txs[c].clear();
    }
    fn sent_ok(&self, c: usize) -> usize {
        self.tasks.iter().filter(|t| t.is_send && t.chan == c && matches!(*t.out.lock().unwrap(), Some(Out::Send(true)))).count()
    }
    fn rcvd(&self, c: usize) -> usize {
        self.tasks.iter().filter(|t| !t.is_send && t.chan == c && matches!(*t.out.lock().unwrap(), Some(Out::Recv(Some(_), _)))).count()
    }
    fn handles(&self, c: usize) -> usize {
        // handles held by the world + handles kept alive only by parked send futures
        let parked = self.tasks.iter().filter(|t| t.is_send && t.chan == c && t.fut.lock().unwrap().is_some()).count();
        self.txs[c].len() + parked
    }
    fn qlen(&self, c: usize) -> usize {
        if self.rx_alive[c] { self.sent_ok(c).saturating_sub(self.rcvd(c)) } else { 0 }
    }
    fn open_empty(&self) -> usize {
        (0..self.n).filter(|&c| self.rx_alive[c] && self.handles(c) > 0 && self.qlen(c) == 0).count()
    }
    /// after everything settled: every future that is still Pending must be justified
    fn check(&mut self, what: &str) -> Option<String> {
        if !self.pool.settle() {
            return Some(format!("{what}: hand-offs did not settle within 10 s; history {:?}", self.hist));
        }
        self.collect();
        for t in &self.tasks {
            if t.fut.lock().unwrap().is_none() {
                continue;
            }
            let c = t.chan;
            let woken = t.woken.load(Ordering::SeqCst);
            if t.is_send {
                let ok = self.rx_alive[c] && self.qlen(c) > 0 && self.open_empty() == 0;
                if !ok {
                    return Some(format!(
                        "{what}: send task t{} on channel {c} is still Pending after {} polls (woken flag {woken}) but receiver alive={}, queue={}, open-and-empty channels={} — history {:?}",
                        t.id,
                        t.polls.load(Ordering::SeqCst),
                        self.rx_alive[c],
                        self.qlen(c),
                        self.open_empty(),
                        self.hist
                    ));
                }
            } else {
                let ok = self.qlen(c) == 0 && self.handles(c) > 0;
                if !ok {
                    return Some(format!(
                        "{what}: recv task t{} on channel {c} is still Pending after {} polls (woken flag {woken}) but queue={}, live handles={} — history {:?}",
                        t.id,
                        t.polls.load(Ordering::SeqCst),
                        self.qlen(c),
                        self.handles(c),
                        self.hist
                    ));
                }
            }
        }
        None
    }
}

/// the hand-off scenarios: one per kind of operation that wakes others. Returns the first witness.
pub fn handoff_scenarios<I: ChanImpl>(rng: &mut Rng, reps: usize, counts: &mut u64) -> Option<String> {
    let pool = Pool::new();
    for _ in 0..reps {
        let n = 2 + rng.below(2) as usize;
        let k = 1 + rng.below(3) as usize;
        // S1: receiver drop wakes the senders parked on its channel
        {
            let mut w = HW::<I>::new(n, &pool);
            for c in 0..n {
                w.send(c);
            }
            for _ in 0..k {
                w.send(0);
            }
            w.send(1);
            w.drop_rx(0);
            *counts += 1;
            if let Some(x) = w.check("receiver drop with parked senders") {
                return Some(x);
            }
            // the rest drains normally
            while let Some(t) = w.recv(1) {
                w.pool.settle();
                if !matches!(*t.out.lock().unwrap(), Some(Out::Recv(Some(_), _))) {
                    break;
                }
            }
            if let Some(x) = w.check("drain after receiver drop") {
                return Some(x);
            }
        }
        // S2: recv making room opens the gate and wakes every parked sender
        {
            let mut w = HW::<I>::new(n, &pool);
            for c in 0..n {
                w.send(c);
            }
            for c in 0..n {
                for _ in 0..k {
                    w.send(c);
                }
            }
            *counts += 1;
            for round in 0..(2 * k + 3) {
                for c in 0..n {
                    w.recv(c);
                    if let Some(x) = w.check(&format!("recv making room (round {round}, channel {c})")) {
                        return Some(x);
                    }
                }
            }
        }
        // S3: the last sender drop wakes the parked receiver, which must see end-of-stream
        {
            let mut w = HW::<I>::new(n, &pool);
            let r = w.recv(0).unwrap();
            w.recv(1);
            w.drop_all_tx(0);
            *counts += 1;
            if let Some(x) = w.check("last sender drop with parked receiver") {
                return Some(x);
            }
            if !matches!(*r.out.lock().unwrap(), Some(Out::Recv(None, _))) {
                return Some(format!("last sender drop: parked receiver did not resolve to None; history {:?}", w.hist));
            }
        }
        // S4: a send wakes the parked receiver, which must get the value
        {
            let mut w = HW::<I>::new(n, &pool);
            let r = w.recv(0).unwrap();
            w.send(0);
            *counts += 1;
            if let Some(x) = w.check("send with parked receiver") {
                return Some(x);
            }
            if !matches!(*r.out.lock().unwrap(), Some(Out::Recv(Some(_), _))) {
                return Some(format!("send: parked receiver did not get the value; history {:?}", w.hist));
            }
        }
    }
    None
}

// ------------------------------------------------------------------------------------------------
// (B) two-thread race sweeps
// ------------------------------------------------------------------------------------------------

struct Flag(AtomicBool);
impl Wake for Flag {
    fn wake(self: Arc<Self>) {
        self.0.store(true, Ordering::SeqCst);
    }
}

fn poll1<T>(f: &mut BoxFut<T>, flag: &Arc<Flag>) -> Poll<T> {
    let w = Waker::from(flag.clone());
    let mut cx = Context::from_waker(&w);
    f.as_mut().poll(&mut cx)
}

fn rendezvous(arrived: &AtomicUsize, round: usize) {
    arrived.fetch_add(1, Ordering::SeqCst);
    let mut spins = 0u32;
    while arrived.load(Ordering::SeqCst) < 2 * (round + 1) {
        spins += 1;
        if spins > 2000 {
            std::thread::yield_now();
        } else {
            std::hint::spin_loop();
        }
    }
}
fn jitter(k: u32) {
    for _ in 0..k {
        std::hint::spin_loop();
    }
}

#[derive(Clone, Copy, Debug, PartialEq)]
pub enum Sweep {
    RecvLastVsDropLastTx,
    SendVsDropRx,
    CloneVsDrop,
    DropLastTxVsDropRx,
    RecvOpensGateVsSend,
}
pub const SWEEPS: [Sweep; 5] = [Sweep::RecvLastVsDropLastTx, Sweep::SendVsDropRx, Sweep::CloneVsDrop, Sweep::DropLastTxVsDropRx, Sweep::RecvOpensGateVsSend];

pub struct SweepResult {
    pub trials: u64,
    pub witness: Option<String>,
    /// gate left MORE open than the true count says (lost back-pressure) — observed, not an oracle
    pub too_open: u64,
}

/// what thread X does / what thread Y does, per trial
enum XJob<I: ChanImpl> {
    Recv(I::Rx),
    Send(Arc<I::Tx>, u64),
    Clone(Arc<I::Tx>),
}
enum XOut<I: ChanImpl> {
    Recv(Option<I::Rx>, Option<Option<u64>>),
    Send(Option<bool>, Arc<Flag>, Option<BoxFut<bool>>),
    Clone(I::Tx),
}
enum YJob<I: ChanImpl> {
    DropTx(Vec<Arc<I::Tx>>),
    DropRx(I::Rx),
    Send(Arc<I::Tx>, u64),
}
enum YOut {
    None,
    Send(Option<bool>, Arc<Flag>, Option<BoxFut<bool>>),
}

struct Trial<I: ChanImpl> {
    tx1: Arc<I::Tx>,
    rx1: Option<I::Rx>,
    rx0: Option<I::Rx>,
    tx0_rest: Vec<Arc<I::Tx>>,
}

pub fn sweep<I: ChanImpl>(kind: Sweep, budget: Duration, rng: &mut Rng) -> SweepResult {
    let t0 = Instant::now();
    let mut res = SweepResult { trials: 0, witness: None, too_open: 0 };
    let idle = Arc::new(Flag(AtomicBool::new(false)));
    while t0.elapsed() < budget && res.witness.is_none() {
        const CHUNK: usize = 128;
        let mut trials: Vec<Trial<I>> = vec![];
        let mut xs: Vec<(XJob<I>, u32)> = vec![];
        let mut ys: Vec<(YJob<I>, u32)> = vec![];
        for _ in 0..CHUNK {
            let (mut txs, mut rxs) = I::channels(2);
            let tx1 = Arc::new(txs.pop().unwrap());
            let tx0 = Arc::new(txs.pop().unwrap());
            let rx1 = rxs.pop().unwrap();
            let rx0 = rxs.pop().unwrap();
            let (jx, jy) = (rng.below(48) as u32, rng.below(48) as u32);
            let mut tr = Trial::<I> { tx1, rx1: Some(rx1), rx0: None, tx0_rest: vec![] };
            match kind {
                Sweep::RecvLastVsDropLastTx => {
                    let mut f = I::send_fut(tx0.clone(), 1);
                    assert!(matches!(poll1(&mut f, &idle), Poll::Ready(true)));
                    drop(f);
                    xs.push((XJob::Recv(rx0), jx));
                    ys.push((YJob::DropTx(vec![tx0]), jy));
                }
                Sweep::SendVsDropRx => {
                    tr.tx0_rest.push(tx0.clone());
                    xs.push((XJob::Send(tx0, 1), jx));
                    ys.push((YJob::DropRx(rx0), jy));
                }
                Sweep::CloneVsDrop => {
                    let other = Arc::new(I::clone_tx(&tx0));
                    tr.rx0 = Some(rx0);
                    xs.push((XJob::Clone(tx0), jx));
                    ys.push((YJob::DropTx(vec![other]), jy));
                }
                Sweep::DropLastTxVsDropRx => {
                    // X "receives" nothing: it drops the receiver; Y drops the last sender
                    xs.push((XJob::Recv(rx0), jx)); // replaced below by a drop
                    ys.push((YJob::DropTx(vec![tx0]), jy));
                }
                Sweep::RecvOpensGateVsSend => {
                    // both channels non-empty => gate closed; X empties channel 0, Y sends on channel 1
                    let mut f = I::send_fut(tx0.clone(), 1);
                    assert!(matches!(poll1(&mut f, &idle), Poll::Ready(true)));
                    let mut g = I::send_fut(tr.tx1.clone(), 2);
                    assert!(matches!(poll1(&mut g, &idle), Poll::Ready(true)));
                    tr.tx0_rest.push(tx0);
                    xs.push((XJob::Recv(rx0), jx));
                    ys.push((YJob::Send(tr.tx1.clone(), 3), jy));
                }
            }
            trials.push(tr);
        }
        let arrived = AtomicUsize::new(0);
        let drop_rx_mode = kind == Sweep::DropLastTxVsDropRx;
        let (xouts, youts): (Vec<XOut<I>>, Vec<YOut>) = std::thread::scope(|s| {
            let arrived = &arrived;
            let hx = s.spawn(move || {
                let mut out = vec![];
                for (i, (job, j)) in xs.into_iter().enumerate() {
                    rendezvous(arrived, i);
                    jitter(j);
                    out.push(match job {
                        XJob::Recv(rx) => {
                            if drop_rx_mode {
                                drop(rx);
                                XOut::Recv(None, None)
                            } else {
                                let flag = Arc::new(Flag(AtomicBool::new(false)));
                                let mut f = I::recv_fut(rx);
                                match poll1(&mut f, &flag) {
                                    Poll::Ready((rx, v)) => XOut::Recv(Some(rx), Some(v)),
                                    Poll::Pending => XOut::Recv(None, None),
                                }
                            }
                        }
                        XJob::Send(tx, v) => {
                            let flag = Arc::new(Flag(AtomicBool::new(false)));
                            let mut f = I::send_fut(tx, v);
                            match poll1(&mut f, &flag) {
                                Poll::Ready(b) => XOut::Send(Some(b), flag, None),
                                Poll::Pending => XOut::Send(None, flag, Some(f)),
                            }
                        }
                        XJob::Clone(tx) => XOut::Clone(I::clone_tx(&tx)),
                    });
                }
                out
            });
            let hy = s.spawn(move || {
                let mut out = vec![];
                for (i, (job, j)) in ys.into_iter().enumerate() {
                    rendezvous(arrived, i);
                    jitter(j);
                    out.push(match job {
                        YJob::DropTx(v) => {
                            drop(v);
                            YOut::None
                        }
                        YJob::DropRx(rx) => {
                            drop(rx);
                            YOut::None
                        }
                        YJob::Send(tx, v) => {
                            let flag = Arc::new(Flag(AtomicBool::new(false)));
                            let mut f = I::send_fut(tx, v);
                            match poll1(&mut f, &flag) {
                                Poll::Ready(b) => YOut::Send(Some(b), flag, None),
                                Poll::Pending => YOut::Send(None, flag, Some(f)),
                            }
                        }
                    });
                }
                out
            });
            (hx.join().unwrap(), hy.join().unwrap())
        });
        // quiescence checks, single-threaded
        for ((mut tr, xo), yo) in trials.into_iter().zip(xouts).zip(youts) {
            res.trials += 1;
            let trial_no = res.trials;
            let mut local: Option<String> = None;
            let mut fail = |m: String| {
                if local.is_none() {
                    local = Some(format!("{kind:?} ({}, trial {trial_no}): {m}", I::NAME));
                }
            };
            let mut ch1_prefilled = 0usize;
            match (kind, xo, yo) {
                (Sweep::RecvLastVsDropLastTx, XOut::Recv(rx, v), _) => {
                    if v != Some(Some(1)) {
                        fail(format!("recv of the queued value returned {v:?}"));
                    }
                    tr.rx0 = rx;
                }
                (Sweep::SendVsDropRx, XOut::Send(r, _, f), _) => {
                    if r.is_none() {
                        // channel 0 was empty and channel 1 is empty: the gate is open, a send cannot park
                        fail("send on an empty channel next to an idle empty channel returned Pending".into());
                    }
                    drop(f);
                }
                (Sweep::CloneVsDrop, XOut::Clone(c), _) => {
                    drop(c);
                }
                (Sweep::DropLastTxVsDropRx, _, _) => {}
                (Sweep::RecvOpensGateVsSend, XOut::Recv(rx, v), YOut::Send(r, flag, f)) => {
                    if v != Some(Some(1)) {
                        fail(format!("recv of the queued value returned {v:?}"));
                    }
                    tr.rx0 = rx;
                    ch1_prefilled = 1;
                    match (r, f) {
                        (Some(true), _) => ch1_prefilled = 2,
                        (Some(false), _) => fail("send failed although the receiver is alive".into()),
                        (None, Some(mut f)) => {
                            // channel 0 is now open and empty: a sender parked by the gate must have been woken
                            if !flag.0.load(Ordering::SeqCst) {
                                fail("sender parked by the gate was not woken although channel 0 became empty (open gate)".into());
                            }
                            match poll1(&mut f, &flag) {
                                Poll::Ready(true) => ch1_prefilled = 2,
                                other => fail(format!("re-poll of the gate-parked sender gave {:?} although channel 0 is open and empty", other.map(|b| b))),
                            }
                        }
                        (None, None) => unreachable!(),
                    }
                }
                _ => unreachable!(),
            }
            // drop what is left of channel 0's senders where the scenario closes it
            let ch0_open_empty = matches!(kind, Sweep::RecvOpensGateVsSend);
            if !ch0_open_empty {
                tr.tx0_rest.clear();
            }
            // (never too low) a send on the idle channel must be Ready: it is open and empty, or — in the
            // gate scenario — channel 0 is open and empty
            let mut f = I::send_fut(tr.tx1.clone(), 7);
            match poll1(&mut f, &idle) {
                Poll::Ready(true) => {}
                Poll::Ready(false) => fail("send on the idle channel failed".into()),
                Poll::Pending => fail("gate closed although an open channel is empty: send on the idle channel is Pending (empty_channels too low)".into()),
            }
            drop(f);
            // (observation) with channel 0 gone and channel 1 non-empty the gate should now be closed
            if !ch0_open_empty {
                let mut g = I::send_fut(tr.tx1.clone(), 8);
                let extra = match poll1(&mut g, &idle) {
                    Poll::Ready(true) => {
                        res.too_open += 1;
                        1
                    }
                    _ => 0,
                };
                drop(g);
                ch1_prefilled += extra;
            }
            // the values arrive, in order, and closed channels report end-of-stream
            let mut rx1 = tr.rx1.take().unwrap();
            for _ in 0..(ch1_prefilled + 1) {
                let mut f = I::recv_fut(rx1);
                match poll1(&mut f, &idle) {
                    Poll::Ready((rx, Some(_))) => rx1 = rx,
                    other => {
                        fail(format!("idle channel did not deliver its value: {:?}", other.map(|(_, v)| v)));
                        break;
                    }
                }
            }
            if let Some(rx0) = tr.rx0.take() {
                if !ch0_open_empty {
                    let mut f = I::recv_fut(rx0);
                    match poll1(&mut f, &idle) {
                        Poll::Ready((_, None)) => {}
                        other => fail(format!("channel 0 has no sender left and is drained but recv gave {:?}", other.map(|(_, v)| v))),
                    }
                }
            }
            if res.witness.is_none() {
                res.witness = local;
            }
        }
    }
    res
}

// ------------------------------------------------------------------------------------------------
// driver
// ------------------------------------------------------------------------------------------------

pub fn run_detectors(run: &mut Run, rng: &mut Rng) {
    let hw = std::thread::available_parallelism().map(|n| n.get()).unwrap_or(1);
    run.note(&format!("C15 real-thread detectors: {hw} hardware threads available (they need >= 2 to be able to fire)"));
    let thorough = run.thorough();
    // ---- oracles on the real code
    let mut n = 0u64;
    let reps = if thorough { 60 } else { 12 };
    let w = handoff_scenarios::<Real>(rng, reps, &mut n);
    run.add("rt_handoff_scenarios_real", n);
    run.oracle(w.is_none(), &format!("rt-handoff lost wake-up (real): {}", w.as_deref().unwrap_or("").split(':').next().unwrap_or("")), w.as_deref().unwrap_or(""));
    let per = Duration::from_millis(if thorough { 3000 } else { 250 });
    for k in SWEEPS {
        let r = sweep::<Real>(k, per, rng);
        run.add(&format!("rt_sweep_trials_real_{k:?}"), r.trials);
        run.add(&format!("rt_sweep_gate_too_open_observed_real_{k:?}"), r.too_open);
        run.oracle(r.witness.is_none(), &format!("rt-race {k:?} (real)"), r.witness.as_deref().unwrap_or(""));
    }
    // ---- self-test: how reliably do the detectors fire on the defective miniature copies?
    use crate::mini15::DEFECT;
    let st_per = Duration::from_millis(if thorough { 2000 } else { 400 });
    // control: the unmodified copy must be silent
    DEFECT.store(0, Ordering::SeqCst);
    let mut n0 = 0;
    let c0 = handoff_scenarios::<Mini>(rng, 3, &mut n0);
    let c1 = sweep::<Mini>(Sweep::RecvLastVsDropLastTx, Duration::from_millis(100), rng);
    let silent = c0.is_none() && c1.witness.is_none();
    run.oracle(silent, "rt-selftest control: detectors silent on the unmodified copy", &format!("{c0:?} / {:?}", c1.witness));
    let mut report = vec![];
    for (d, name) in [(1u8, "A: receiver drop wakes before clearing"), (3u8, "A: last sender drop wakes before taking recv_wakers")] {
        DEFECT.store(d, Ordering::SeqCst);
        let rounds = if thorough { 20 } else { 5 };
        let mut hit = 0;
        for _ in 0..rounds {
            let mut k = 0;
            if handoff_scenarios::<Mini>(rng, 2, &mut k).is_some() {
                hit += 1;
            }
        }
        run.add(&format!("rt_selftest_defect{d}_detected_of_{rounds}"), hit);
        report.push(format!("defect {d} ({name}): hand-off detector fired in {hit}/{rounds} rounds"));
    }
    {
        DEFECT.store(2, Ordering::SeqCst);
        let rounds = if thorough { 10 } else { 3 };
        let mut hit = 0;
        let mut trials_to_hit = vec![];
        for _ in 0..rounds {
            let r = sweep::<Mini>(Sweep::RecvLastVsDropLastTx, st_per, rng);
            if r.witness.is_some() {
                hit += 1;
                trials_to_hit.push(r.trials);
            }
        }
        run.add(&format!("rt_selftest_defect2_detected_of_{rounds}"), hit);
        report.push(format!("defect 2 (B: recv decides by n_senders): race sweep fired in {hit}/{rounds} rounds of {} ms, trials to first witness {trials_to_hit:?}", st_per.as_millis()));
    }
    DEFECT.store(0, Ordering::SeqCst);
    for r in &report {
        run.note(&format!("C15 detector self-test: {r}"));
    }
    eprintln!("C15 detector self-test: {}", report.join(" | "));
}
