//! C08 — sorting, merging and TopK return correctly ordered results.
//!
//! Real operators (`SortExec` with/without `fetch`, with memory limits forcing spills and
//! multi-level merges; `SortPreservingMergeExec` with both tie-breaking modes; `PartialSortExec`)
//! are run on generated inputs (NULLs, duplicates, i64 extremes, empty batches) × option combos ×
//! batch sizes.  Ties are free, so the Lean side JUDGES the output (`judge`: sorted ∧ permutation, or
//! the top-k relation) instead of predicting one sequence; the k-way merge with the default
//! lowest-stream-index tie rule is deterministic and is compared for equality (`kmerge`);
//! `compare_rows` itself is compared for equality (`cmp`).  The same predicates are evaluated in
//! Rust as the implementation-level oracle.
use std::cmp::Ordering;
use std::sync::Arc;
use std::time::Duration;

use arrow::array::{Array, ArrayRef, Int64Array, RecordBatch};
use arrow::compute::SortOptions;
use arrow::datatypes::{DataType, Field, Schema, SchemaRef};
use arrow::row::{RowConverter, SortField};
use datafusion_common::ScalarValue;
use datafusion_common::utils::compare_rows;
use datafusion_datasource::memory::MemorySourceConfig;
use datafusion_datasource::source::DataSourceExec;
use datafusion_execution::TaskContext;
use datafusion_execution::config::SessionConfig;
use datafusion_execution::runtime_env::RuntimeEnvBuilder;
use datafusion_physical_expr::expressions::col;
use datafusion_physical_expr::{LexOrdering, PhysicalSortExpr};
use datafusion_physical_plan::ExecutionPlan;
use datafusion_physical_plan::sorts::partial_sort::PartialSortExec;
use datafusion_physical_plan::sorts::sort::SortExec;
use datafusion_physical_plan::sorts::sort_preserving_merge::SortPreservingMergeExec;
use hutil::{Args, Rng, Run};

type Row = Vec<Option<i64>>;

#[derive(Clone, Copy, PartialEq, Eq, Debug)]
struct Opt {
    desc: bool,
    nf: bool,
}
impl Opt {
    fn atom(&self) -> &'static str {
        match (self.desc, self.nf) {
            (false, true) => "af",
            (false, false) => "al",
            (true, true) => "df",
            (true, false) => "dl",
        }
    }
    fn arrow(&self) -> SortOptions {
        SortOptions { descending: self.desc, nulls_first: self.nf }
    }
}

/// independent Rust statement of the order (used by the implementation-level oracle)
fn cmp_rows(opts: &[Opt], a: &Row, b: &Row) -> Ordering {
    for (i, o) in opts.iter().enumerate() {
        let r = match (a[i], b[i]) {
            (None, None) => Ordering::Equal,
            (None, Some(_)) => {
                if o.nf {
                    Ordering::Less
                } else {
                    Ordering::Greater
                }
            }
            (Some(_), None) => {
                if o.nf {
                    Ordering::Greater
                } else {
                    Ordering::Less
                }
            }
            (Some(x), Some(y)) => {
                if o.desc {
                    y.cmp(&x)
                } else {
                    x.cmp(&y)
                }
            }
        };
        if r != Ordering::Equal {
            return r;
        }
    }
    Ordering::Equal
}

fn sx_opts(opts: &[Opt]) -> String {
    format!("({})", opts.iter().map(|o| o.atom()).collect::<Vec<_>>().join(" "))
}
fn sx_row(r: &Row) -> String {
    format!("({})", r.iter().map(|v| v.map(|x| x.to_string()).unwrap_or_else(|| "n".into())).collect::<Vec<_>>().join(" "))
}
fn sx_rows(rs: &[Row]) -> String {
    format!("({})", rs.iter().map(sx_row).collect::<Vec<_>>().join(" "))
}
fn plain_rows(rs: &[Row]) -> String {
    rs.iter().map(sx_row).collect::<Vec<_>>().join(" ")
}

fn gen_opts(rng: &mut Rng, nk: usize) -> Vec<Opt> {
    (0..nk).map(|_| Opt { desc: rng.chance(1, 2), nf: rng.chance(1, 2) }).collect()
}

fn gen_val(rng: &mut Rng, dom: i64) -> Option<i64> {
    match rng.below(20) {
        0..=3 => None,
        4 => Some(i64::MIN),
        5 => Some(i64::MAX),
        _ => Some(rng.range(-1, dom)),
    }
}

/// `n` rows with `nc` columns; the last column is a unique row id
fn gen_rows(rng: &mut Rng, n: usize, nc: usize, dom: i64, id0: i64) -> Vec<Row> {
    (0..n)
        .map(|i| {
            let mut r: Row = (0..nc - 1).map(|_| gen_val(rng, dom)).collect();
            r.push(Some(id0 + i as i64));
            r
        })
        .collect()
}

fn schema_of(nc: usize) -> SchemaRef {
    let mut f: Vec<Field> = (0..nc - 1).map(|i| Field::new(format!("c{i}"), DataType::Int64, true)).collect();
    f.push(Field::new("id", DataType::Int64, true));
    Arc::new(Schema::new(f))
}

fn batch_of(schema: &SchemaRef, rows: &[Row]) -> RecordBatch {
    let nc = schema.fields().len();
    let cols: Vec<ArrayRef> = (0..nc).map(|c| Arc::new(rows.iter().map(|r| r[c]).collect::<Int64Array>()) as ArrayRef).collect();
    RecordBatch::try_new(schema.clone(), cols).unwrap()
}

/// split rows into batches of random sizes (sometimes empty batches in between)
fn split_batches(rng: &mut Rng, schema: &SchemaRef, rows: &[Row], max: usize) -> Vec<RecordBatch> {
    let mut out = vec![];
    let mut i = 0;
    while i < rows.len() {
        if rng.chance(1, 8) {
            out.push(batch_of(schema, &[]));
        }
        let k = 1 + rng.below(max as u64) as usize;
        let j = (i + k).min(rows.len());
        out.push(batch_of(schema, &rows[i..j]));
        i = j;
    }
    if rng.chance(1, 6) {
        out.push(batch_of(schema, &[]));
    }
    out
}

fn rows_of(batches: &[RecordBatch]) -> Vec<Row> {
    let mut out = vec![];
    for b in batches {
        let cols: Vec<&Int64Array> = b.columns().iter().map(|c| c.as_any().downcast_ref::<Int64Array>().unwrap()).collect();
        for r in 0..b.num_rows() {
            out.push(cols.iter().map(|c| if c.is_null(r) { None } else { Some(c.value(r)) }).collect());
        }
    }
    out
}

fn lex(schema: &SchemaRef, opts: &[Opt]) -> LexOrdering {
    LexOrdering::new(opts.iter().enumerate().map(|(i, o)| PhysicalSortExpr { expr: col(schema.field(i).name(), schema).unwrap(), options: o.arrow() }))
        .unwrap()
}

enum Outcome {
    Rows(Vec<Row>, Vec<usize>),
    Resources,
    Error(String),
    Hang,
}

enum OutcomeB {
    Batches(Vec<RecordBatch>),
    Resources,
    Error(String),
    Hang,
}

fn run_plan(plan: Arc<dyn ExecutionPlan>, ctx: Arc<TaskContext>) -> Outcome {
    match run_plan_batches(plan, ctx) {
        OutcomeB::Batches(batches) => {
            let sizes = batches.iter().map(|b| b.num_rows()).collect();
            Outcome::Rows(rows_of(&batches), sizes)
        }
        OutcomeB::Resources => Outcome::Resources,
        OutcomeB::Error(e) => Outcome::Error(e),
        OutcomeB::Hang => Outcome::Hang,
    }
}

fn run_plan_batches(plan: Arc<dyn ExecutionPlan>, ctx: Arc<TaskContext>) -> OutcomeB {
    let rt = tokio::runtime::Builder::new_current_thread().enable_all().build().unwrap();
    let res = hutil::catch(std::panic::AssertUnwindSafe(|| {
        rt.block_on(async { tokio::time::timeout(Duration::from_secs(60), datafusion_physical_plan::collect(plan, ctx)).await })
    }));
    match res {
        Err(p) => OutcomeB::Error(format!("panic: {p}")),
        Ok(Err(_)) => OutcomeB::Hang,
        Ok(Ok(Err(e))) => {
            let m = e.to_string();
            if m.contains("Resources exhausted") || m.contains("ResourcesExhausted") || m.contains("Not enough memory") {
                OutcomeB::Resources
            } else {
                OutcomeB::Error(m)
            }
        }
        Ok(Ok(Ok(batches))) => OutcomeB::Batches(batches),
    }
}

/// implementation-level oracle: sorted ∧ permutation (fetch = None) or the top-k relation
fn oracle_judge(opts: &[Opt], fetch: Option<usize>, inp: &[Row], out: &[Row]) -> Result<(), String> {
    for w in out.windows(2) {
        if cmp_rows(opts, &w[0], &w[1]) == Ordering::Greater {
            return Err(format!("output not sorted: {} before {}", sx_row(&w[0]), sx_row(&w[1])));
        }
    }
    let mut a: Vec<&Row> = inp.iter().collect();
    let mut b: Vec<&Row> = out.iter().collect();
    a.sort();
    b.sort();
    match fetch {
        None => {
            if a != b {
                return Err(format!("output is not a permutation of the input ({} rows in, {} rows out)", inp.len(), out.len()));
            }
        }
        Some(k) => {
            if out.len() != k.min(inp.len()) {
                return Err(format!("fetch={k}: {} rows in, {} rows out", inp.len(), out.len()));
            }
            // sub-bag: remove out from inp
            let mut rest: Vec<&Row> = vec![];
            let mut j = 0;
            for r in &a {
                if j < b.len() && *r == b[j] {
                    j += 1;
                } else {
                    rest.push(r);
                }
            }
            if j != b.len() {
                return Err("output contains a row that is not in the input (or too many copies)".into());
            }
            if let Some(last) = out.last() {
                for d in rest {
                    if cmp_rows(opts, d, last) == Ordering::Less {
                        return Err(format!("dropped row {} is smaller than kept row {}", sx_row(d), sx_row(last)));
                    }
                }
            }
        }
    }
    Ok(())
}

struct Cfg {
    batch_size: usize,
    mem_limit: Option<usize>,
    spill_reservation: Option<usize>,
    in_place_threshold: Option<usize>,
}

fn ctx_of(cfg: &Cfg) -> Arc<TaskContext> {
    let mut sc = SessionConfig::new().with_batch_size(cfg.batch_size);
    if let Some(n) = cfg.spill_reservation {
        sc = sc.with_sort_spill_reservation_bytes(n);
    }
    if let Some(n) = cfg.in_place_threshold {
        sc = sc.with_sort_in_place_threshold_bytes(n);
    }
    let mut rb = RuntimeEnvBuilder::new();
    if let Some(m) = cfg.mem_limit {
        rb = rb.with_memory_limit(m, 1.0);
    }
    Arc::new(TaskContext::default().with_session_config(sc).with_runtime(rb.build_arc().unwrap()))
}

fn source(schema: &SchemaRef, parts: &[Vec<RecordBatch>], sorted_on: Option<LexOrdering>) -> Arc<dyn ExecutionPlan> {
    let mut src = MemorySourceConfig::try_new(parts, schema.clone(), None).unwrap();
    if let Some(l) = sorted_on {
        src = src.try_with_sort_information(vec![l]).unwrap();
    }
    DataSourceExec::from_data_source(src)
}

/// record one judged case + oracle
#[allow(clippy::too_many_arguments)]
fn record(run: &mut Run, what: &str, sig: &str, opts: &[Opt], fetch: Option<usize>, inp: &[Row], outcome: Outcome, nontrivial: bool) -> Option<Vec<Row>> {
    record_op(run, "judge", what, sig, opts, fetch, inp, outcome, nontrivial)
}

#[allow(clippy::too_many_arguments)]
fn record_op(run: &mut Run, op: &str, what: &str, sig: &str, opts: &[Opt], fetch: Option<usize>, inp: &[Row], outcome: Outcome, nontrivial: bool) -> Option<Vec<Row>> {
    match outcome {
        Outcome::Rows(out, _) => {
            let f = fetch.map(|k| k.to_string()).unwrap_or_else(|| "none".into());
            let req = format!("({} {} {} {})", sx_opts(opts), f, sx_rows(inp), sx_rows(&out));
            run.case(op, &req, "ok", nontrivial);
            let o = oracle_judge(opts, fetch, inp, &out);
            run.oracle(o.is_ok(), &format!("{what} {sig}"), &format!("{} | input {} | output {}", o.err().unwrap_or_default(), sx_rows(inp), sx_rows(&out)));
            Some(out)
        }
        Outcome::Resources => {
            run.count(&format!("{what}:err-resources"));
            None
        }
        Outcome::Error(e) => {
            run.count(&format!("{what}:err-other"));
            run.oracle(false, &format!("{what} {sig} unexpected-error"), &e);
            None
        }
        Outcome::Hang => {
            run.oracle(false, &format!("{what} {sig} hang"), "no result within 60 s");
            None
        }
    }
}

fn n_ties(opts: &[Opt], rows: &[Row]) -> usize {
    let mut s: Vec<&Row> = rows.iter().collect();
    s.sort_by(|a, b| cmp_rows(opts, a, b));
    s.windows(2).filter(|w| cmp_rows(opts, w[0], w[1]) == Ordering::Equal).count()
}

fn shape(rng: &mut Rng) -> (usize, usize, Vec<Opt>) {
    let nk = 1 + rng.below(3) as usize;
    let nc = nk + 1 + rng.below(2) as usize; // keys, maybe one extra payload column, id
    let opts = gen_opts(rng, nk);
    (nk, nc, opts)
}

// ------------------------------------------------------------------------------------------ cmp
fn cmp_cases(run: &mut Run, rng: &mut Rng) {
    let n = run.budget(3000, 60_000);
    for i in 0..n {
        let nk = 1 + rng.below(3) as usize;
        let opts = gen_opts(rng, nk);
        let a: Row = (0..nk).map(|_| gen_val(rng, 2)).collect();
        let b: Row = if rng.chance(1, 5) { a.clone() } else { (0..nk).map(|_| gen_val(rng, 2)).collect() };
        let sa: Vec<ScalarValue> = a.iter().map(|v| ScalarValue::Int64(*v)).collect();
        let sb: Vec<ScalarValue> = b.iter().map(|v| ScalarValue::Int64(*v)).collect();
        let so: Vec<SortOptions> = opts.iter().map(|o| o.arrow()).collect();
        let got = compare_rows(&sa, &sb, &so).unwrap();
        let txt = match got {
            Ordering::Less => "lt",
            Ordering::Equal => "eq",
            Ordering::Greater => "gt",
        };
        let nontrivial = a.iter().any(|v| v.is_none()) || b.iter().any(|v| v.is_none()) || got == Ordering::Equal;
        run.case("cmp", &format!("({} {} {})", sx_opts(&opts), sx_row(&a), sx_row(&b)), txt, nontrivial);
        run.count(&format!("cmp:{txt}"));
        // the row format used by the sort operators orders rows like compare_rows (trusted contract, checked here)
        let conv = RowConverter::new(so.iter().map(|o| SortField::new_with_options(DataType::Int64, *o)).collect()).unwrap();
        let cols: Vec<ArrayRef> = (0..nk).map(|c| Arc::new(Int64Array::from(vec![a[c], b[c]])) as ArrayRef).collect();
        let rows = conv.convert_columns(&cols).unwrap();
        let rf = rows.row(0).cmp(&rows.row(1));
        run.oracle(rf == got && got == cmp_rows(&opts, &a, &b), &format!("rowformat#{i} {} {} {}", sx_opts(&opts), sx_row(&a), sx_row(&b)), &format!("compare_rows={got:?} row-format={rf:?}"));
    }
}

// ------------------------------------------------------------------------------------------ SortExec
fn sort_cases(run: &mut Run, rng: &mut Rng) {
    let n = run.budget(500, 12_000);
    for i in 0..n {
        let (_nk, nc, opts) = shape(rng);
        let schema = schema_of(nc);
        let nrows = *rng.pick(&[0usize, 1, 2, 5, 17, 40, 90, 200]);
        let dom = *rng.pick(&[1i64, 3, 20]);
        let rows = gen_rows(rng, nrows, nc, dom, 0);
        let maxb = *rng.pick(&[1usize, 3, 10, 64]);
        let batches = split_batches(rng, &schema, &rows, maxb);
        let cfg = Cfg {
            batch_size: *rng.pick(&[1usize, 2, 3, 7, 50, 8192]),
            mem_limit: None,
            spill_reservation: None,
            in_place_threshold: Some(*rng.pick(&[0usize, 1 << 20])),
        };
        let plan: Arc<dyn ExecutionPlan> = Arc::new(SortExec::new(lex(&schema, &opts), source(&schema, &[batches], None)));
        let out = run_plan(plan, ctx_of(&cfg));
        let ties = n_ties(&opts, &rows);
        run.count(if cfg.in_place_threshold == Some(0) { "sort:merge-path" } else { "sort:concat-path" });
        record(run, "sort", &format!("#{i} opts={} bs={} ipt={:?} rows={}", sx_opts(&opts), cfg.batch_size, cfg.in_place_threshold, sx_rows(&rows)), &opts, None, &rows, out, nrows >= 2 && ties > 0);
    }
}

fn spill_cases(run: &mut Run, rng: &mut Rng) {
    let n = run.budget(120, 3000);
    for i in 0..n {
        let (_nk, nc, opts) = shape(rng);
        let schema = schema_of(nc);
        let nrows = *rng.pick(&[300usize, 600, 1000, 1500]);
        let dom = *rng.pick(&[3i64, 50]);
        let rows = gen_rows(rng, nrows, nc, dom, 0);
        let maxb = *rng.pick(&[20usize, 60, 100]);
        let batches = split_batches(rng, &schema, &rows, maxb);
        let cfg = Cfg {
            batch_size: *rng.pick(&[16usize, 50, 100]),
            mem_limit: Some(*rng.pick(&[12_000usize, 16_000, 24_000, 40_000, 80_000])),
            spill_reservation: Some(*rng.pick(&[1024usize, 2048, 4096])),
            in_place_threshold: Some(*rng.pick(&[0usize, 4096, 1 << 20])),
        };
        let sort = Arc::new(SortExec::new(lex(&schema, &opts), source(&schema, &[batches], None)));
        let plan: Arc<dyn ExecutionPlan> = sort.clone();
        let ctx = ctx_of(&cfg);
        let out = run_plan(plan, ctx.clone());
        let spills = sort.metrics().and_then(|m| m.spill_count()).unwrap_or(0);
        let ok = matches!(out, Outcome::Rows(..));
        if ok {
            run.count(match spills {
                0 => "spill:0-files",
                1 => "spill:1-file",
                2..=4 => "spill:2-4-files",
                _ => "spill:5+-files",
            });
        }
        let sig = format!("#{i} opts={} bs={} mem={:?} resv={:?} ipt={:?} nrows={nrows} seed-rows={}", sx_opts(&opts), cfg.batch_size, cfg.mem_limit, cfg.spill_reservation, cfg.in_place_threshold, sx_rows(&rows[..rows.len().min(6)]));
        record(run, "spill", &sig, &opts, None, &rows, out, spills > 0);
        if ok {
            let reserved = ctx.runtime_env().memory_pool.reserved();
            run.oracle(reserved == 0, &format!("spill {sig} memory-returned"), &format!("memory_pool.reserved()={reserved} after the sort stream ended"));
        }
    }
}

fn topk_cases(run: &mut Run, rng: &mut Rng) {
    let n = run.budget(500, 12_000);
    for i in 0..n {
        let (nk, nc, opts) = shape(rng);
        let schema = schema_of(nc);
        let nrows = *rng.pick(&[0usize, 1, 3, 10, 40, 120]);
        let dom = *rng.pick(&[1i64, 3, 20]);
        let mut rows = gen_rows(rng, nrows, nc, dom, 0);
        let k = *rng.pick(&[1usize, 2, 3, 5, 10, 50, 500]);
        // sometimes the input is declared (and is) sorted on a prefix of the keys: exercises the
        // early-termination rule of TopK
        let prefix = if nk >= 2 && rng.chance(1, 2) { 1 + rng.below(nk as u64 - 1) as usize } else { 0 };
        if prefix > 0 {
            rows.sort_by(|a, b| cmp_rows(&opts[..prefix], a, b));
        }
        let maxb = *rng.pick(&[1usize, 4, 16]);
        let batches = split_batches(rng, &schema, &rows, maxb);
        let cfg = Cfg { batch_size: *rng.pick(&[1usize, 3, 50, 8192]), mem_limit: None, spill_reservation: None, in_place_threshold: None };
        let sorted_on = if prefix > 0 { Some(lex(&schema, &opts[..prefix])) } else { None };
        let plan: Arc<dyn ExecutionPlan> = Arc::new(SortExec::new(lex(&schema, &opts), source(&schema, &[batches], sorted_on)).with_fetch(Some(k)));
        let out = run_plan(plan, ctx_of(&cfg));
        run.count(if prefix > 0 { "topk:prefix-sorted-input" } else { "topk:unsorted-input" });
        if k < nrows {
            run.count("topk:k<n");
        }
        let ties = n_ties(&opts, &rows);
        record(run, "topk", &format!("#{i} opts={} k={k} prefix={prefix} bs={} rows={}", sx_opts(&opts), cfg.batch_size, sx_rows(&rows)), &opts, Some(k), &rows, out, k < nrows && ties > 0);
    }
}

// ------------------------------------------------------------------------------------------ SortPreservingMergeExec
fn spm_cases(run: &mut Run, rng: &mut Rng) {
    let n = run.budget(500, 12_000);
    for i in 0..n {
        let (_nk, nc, opts) = shape(rng);
        let schema = schema_of(nc);
        let ns = 1 + rng.below(7) as usize;
        let dom = *rng.pick(&[0i64, 1, 3, 20]);
        let mut streams: Vec<Vec<Row>> = vec![];
        let mut id0 = 0;
        for _ in 0..ns {
            let len = *rng.pick(&[0usize, 1, 2, 5, 12, 30]);
            let mut rows = gen_rows(rng, len, nc, dom, id0);
            id0 += 1000;
            rows.sort_by(|a, b| cmp_rows(&opts, a, b)); // stable: ids ascending inside a tie
            streams.push(rows);
        }
        let parts: Vec<Vec<RecordBatch>> = streams
            .iter()
            .map(|s| {
                let maxb = *rng.pick(&[1usize, 2, 5, 50]);
                split_batches(rng, &schema, s, maxb)
            })
            .collect();
        let fetch = if rng.chance(1, 3) { Some(*rng.pick(&[1usize, 2, 5, 20, 1000])) } else { None };
        let rr = rng.chance(1, 2);
        let cfg = Cfg { batch_size: *rng.pick(&[1usize, 2, 3, 7, 8192]), mem_limit: None, spill_reservation: None, in_place_threshold: None };
        let plan: Arc<dyn ExecutionPlan> = Arc::new(
            SortPreservingMergeExec::new(lex(&schema, &opts), source(&schema, &parts, Some(lex(&schema, &opts)))).with_fetch(fetch).with_round_robin_repartition(rr),
        );
        let out = run_plan(plan, ctx_of(&cfg));
        let all: Vec<Row> = streams.iter().flatten().cloned().collect();
        let ties = n_ties(&opts, &all);
        run.count(if rr { "spm:round-robin-ties" } else { "spm:lowest-index-ties" });
        run.count(&format!("spm:streams={}", ns.min(4)));
        let sig = format!("#{i} opts={} rr={rr} fetch={fetch:?} bs={} streams=({})", sx_opts(&opts), cfg.batch_size, streams.iter().map(|s| sx_rows(s)).collect::<Vec<_>>().join(" "));
        let got = record(run, "spm", &sig, &opts, fetch, &all, out, ns >= 2 && ties > 0);
        // with the default tie rule the merge is deterministic: compare with the model's kMerge.
        // (a single input partition is passed through without merging.)
        if let (Some(got), false) = (got, rr) {
            let f = fetch.map(|k| k.to_string()).unwrap_or_else(|| "none".into());
            let req = format!("({} {} ({}))", sx_opts(&opts), f, streams.iter().map(|s| sx_rows(s)).collect::<Vec<_>>().join(" "));
            run.case("kmerge", &req, &plain_rows(&got), ns >= 2 && ties > 0);
            // implementation-level statement of the tie rule: equal keys come out by (stream, position)
            let mut want = all.clone();
            want.sort_by(|a, b| cmp_rows(&opts, a, b)); // stable over (stream, position) order
            if let Some(k) = fetch {
                want.truncate(k);
            }
            run.oracle(want == got, &format!("spm-stable {sig}"), &format!("expected {} got {}", sx_rows(&want), sx_rows(&got)));
        }
    }
}

// ------------------------------------------------------------------------------------------ PartialSortExec
fn partial_cases(run: &mut Run, rng: &mut Rng) {
    let n = run.budget(400, 10_000);
    for i in 0..n {
        let nk = 2 + rng.below(2) as usize;
        let nc = nk + 1;
        let opts = gen_opts(rng, nk);
        let schema = schema_of(nc);
        let prefix = 1 + rng.below(nk as u64 - 1) as usize;
        let nrows = *rng.pick(&[0usize, 1, 4, 15, 60, 150]);
        let dom = *rng.pick(&[1i64, 3, 8]);
        let mut rows = gen_rows(rng, nrows, nc, dom, 0);
        rows.sort_by(|a, b| cmp_rows(&opts[..prefix], a, b));
        let maxb = *rng.pick(&[1usize, 3, 10, 40]);
        let batches = split_batches(rng, &schema, &rows, maxb);
        let fetch = if rng.chance(1, 3) { Some(*rng.pick(&[1usize, 2, 5, 20, 1000])) } else { None };
        let cfg = Cfg { batch_size: *rng.pick(&[1usize, 3, 50, 8192]), mem_limit: None, spill_reservation: None, in_place_threshold: None };
        let plan: Arc<dyn ExecutionPlan> =
            Arc::new(PartialSortExec::new(lex(&schema, &opts), source(&schema, &[batches], Some(lex(&schema, &opts[..prefix]))), prefix).with_fetch(fetch));
        let out = run_plan(plan, ctx_of(&cfg));
        let ties = n_ties(&opts, &rows);
        run.count(&format!("partial:prefix={prefix}/{nk}"));
        record(run, "partial", &format!("#{i} opts={} prefix={prefix} fetch={fetch:?} rows={}", sx_opts(&opts), sx_rows(&rows)), &opts, fetch, &rows, out, nrows >= 2 && ties > 0);
    }
}


// ============================================================================================
// Typed keys: the merge has TYPE-SPECIALISED cursors for single-column keys (primitive, Utf8,
// LargeUtf8, Binary, LargeBinary, Utf8View with an "all strings inline" fast path); multi-column
// keys and the other types go through the row-format cursor.  Keys of these types are generated
// here; the Lean judge sees an ORDER-PRESERVING INTEGER ENCODING computed by this harness from an
// independent reference order (bytewise for strings/binary, false<true, numeric, f64::total_cmp):
// per key column, rank of the value among the distinct values of that column in the case.
// ============================================================================================

#[derive(Clone, Copy, Debug, PartialEq)]
enum KT {
    Utf8,
    LargeUtf8,
    Utf8View,
    Binary,
    LargeBinary,
    BinaryView,
    Boolean,
    Int32,
    UInt64,
    Float64,
}
const ALL_KT: &[KT] = &[KT::Utf8, KT::LargeUtf8, KT::Utf8View, KT::Binary, KT::LargeBinary, KT::BinaryView, KT::Boolean, KT::Int32, KT::UInt64, KT::Float64];

#[derive(Clone, Debug)]
enum TV {
    Null,
    Bytes(Vec<u8>),
    Bool(bool),
    I32(i32),
    U64(u64),
    F64(f64),
}

/// the independent reference order of non-NULL values of one type
fn ref_cmp(a: &TV, b: &TV) -> Ordering {
    match (a, b) {
        (TV::Bytes(x), TV::Bytes(y)) => x.as_slice().cmp(y.as_slice()),
        (TV::Bool(x), TV::Bool(y)) => x.cmp(y),
        (TV::I32(x), TV::I32(y)) => x.cmp(y),
        (TV::U64(x), TV::U64(y)) => x.cmp(y),
        (TV::F64(x), TV::F64(y)) => x.total_cmp(y),
        _ => unreachable!("mixed types in one column"),
    }
}

fn show_tv(v: &TV) -> String {
    match v {
        TV::Null => "NULL".into(),
        TV::Bytes(b) => match std::str::from_utf8(b) {
            Ok(s) if s.chars().all(|c| c.is_ascii_graphic()) => format!("'{s}'"),
            _ => hutil::hex(b),
        },
        TV::Bool(b) => b.to_string(),
        TV::I32(x) => x.to_string(),
        TV::U64(x) => x.to_string(),
        TV::F64(x) => format!("f64:{:016x}", x.to_bits()),
    }
}

type TRow = (Vec<TV>, i64);

fn show_trows(rs: &[TRow]) -> String {
    rs.iter().map(|(k, id)| format!("({} #{id})", k.iter().map(show_tv).collect::<Vec<_>>().join(" "))).collect::<Vec<_>>().join("")
}

const BASE12: &str = "abcdefghijkl";

/// strings of length 0, 1, 4, 11, 12, 13, 40 sharing their first 4 and first 12 bytes
fn text_pool() -> Vec<Vec<u8>> {
    let tail28 = "mnopqrstuvwxyz0123456789ABCD";
    let mut v: Vec<String> = vec![
        "".into(),
        "a".into(),
        "b".into(),
        "abcd".into(),
        "abce".into(),
        "abcdefghijk".into(),               // 11
        BASE12.into(),                      // 12
        "abcdefghijkm".into(),              // 12, differs at the last inline byte
        "abcdZfghijkl".into(),              // 12, shares only the 4-byte prefix
        format!("{BASE12}m"),               // 13
        format!("{BASE12}n"),               // 13, differs after the 12-byte prefix
        "abcdZZZZZZZZZ".into(),             // 13, shares only the 4-byte prefix
        format!("{BASE12}{tail28}"),        // 40
        format!("{BASE12}{}E", &tail28[..27]), // 40, differs at the last byte
        format!("{BASE12}X{}", &tail28[1..]), // 40, differs at byte 13
        format!("abcz{}", "y".repeat(36)),  // 40, different 4-byte prefix
        "ab\u{e9}".into(),                  // non-ASCII: bytes >= 0x80 must compare unsigned
        "abcd\u{e9}fghijk".into(),          // 12 bytes with a high byte inside the inline part
    ];
    v.dedup();
    v.into_iter().map(|s| s.into_bytes()).collect()
}

fn binary_pool() -> Vec<Vec<u8>> {
    let mut v = text_pool();
    v.extend([vec![0x00], vec![0xff], vec![0x80], vec![0x7f], vec![0x61, 0x00], vec![0xff; 12], vec![0xff; 13], vec![0x00; 13], {
        let mut x = BASE12.as_bytes().to_vec();
        x.push(0x00);
        x
    }]);
    v
}

#[derive(Clone, Copy, PartialEq)]
enum Len {
    ShortOnly, // every string fits inline (<= 12 bytes): Utf8View arrays without data buffers
    LongOnly,
    Mixed,
}

fn gen_tv(rng: &mut Rng, kt: KT, len: Len) -> TV {
    if rng.chance(1, 6) {
        return TV::Null;
    }
    match kt {
        KT::Utf8 | KT::LargeUtf8 | KT::Utf8View | KT::Binary | KT::LargeBinary | KT::BinaryView => {
            let pool = if matches!(kt, KT::Utf8 | KT::LargeUtf8 | KT::Utf8View) { text_pool() } else { binary_pool() };
            let pool: Vec<Vec<u8>> = pool
                .into_iter()
                .filter(|b| match len {
                    Len::ShortOnly => b.len() <= 12,
                    Len::LongOnly => b.len() > 12,
                    Len::Mixed => true,
                })
                .collect();
            TV::Bytes(rng.pick(&pool).clone())
        }
        KT::Boolean => TV::Bool(rng.chance(1, 2)),
        KT::Int32 => TV::I32(*rng.pick(&[i32::MIN, -1, 0, 1, 2, 2, 7, i32::MAX])),
        KT::UInt64 => TV::U64(*rng.pick(&[0u64, 1, 2, 2, 1 << 63, (1 << 63) + 1, u64::MAX])),
        KT::Float64 => TV::F64(*rng.pick(&[f64::NEG_INFINITY, -1.5, -0.0, 0.0, 0.5, 0.5, 2.0, 1e300, f64::INFINITY, f64::NAN])),
    }
}

fn dt_of(kt: KT) -> DataType {
    match kt {
        KT::Utf8 => DataType::Utf8,
        KT::LargeUtf8 => DataType::LargeUtf8,
        KT::Utf8View => DataType::Utf8View,
        KT::Binary => DataType::Binary,
        KT::LargeBinary => DataType::LargeBinary,
        KT::BinaryView => DataType::BinaryView,
        KT::Boolean => DataType::Boolean,
        KT::Int32 => DataType::Int32,
        KT::UInt64 => DataType::UInt64,
        KT::Float64 => DataType::Float64,
    }
}

fn tschema(kts: &[KT]) -> SchemaRef {
    let mut f: Vec<Field> = kts.iter().enumerate().map(|(i, kt)| Field::new(format!("c{i}"), dt_of(*kt), true)).collect();
    f.push(Field::new("id", DataType::Int64, true));
    Arc::new(Schema::new(f))
}

fn tarray(kt: KT, vals: &[&TV]) -> ArrayRef {
    use arrow::array::*;
    let bytes = |v: &TV| -> Option<Vec<u8>> {
        match v {
            TV::Bytes(b) => Some(b.clone()),
            _ => None,
        }
    };
    let strs: Vec<Option<String>> = vals.iter().map(|v| bytes(v).map(|b| String::from_utf8(b).unwrap_or_default())).collect();
    let bins: Vec<Option<Vec<u8>>> = vals.iter().map(|v| bytes(v)).collect();
    match kt {
        KT::Utf8 => Arc::new(StringArray::from(strs)),
        KT::LargeUtf8 => Arc::new(LargeStringArray::from(strs)),
        KT::Utf8View => Arc::new(StringViewArray::from(strs)),
        KT::Binary => Arc::new(BinaryArray::from(bins.iter().map(|b| b.as_deref()).collect::<Vec<_>>())),
        KT::LargeBinary => Arc::new(LargeBinaryArray::from(bins.iter().map(|b| b.as_deref()).collect::<Vec<_>>())),
        KT::BinaryView => Arc::new(BinaryViewArray::from(bins.iter().map(|b| b.as_deref()).collect::<Vec<_>>())),
        KT::Boolean => Arc::new(vals.iter().map(|v| if let TV::Bool(b) = v { Some(*b) } else { None }).collect::<BooleanArray>()),
        KT::Int32 => Arc::new(vals.iter().map(|v| if let TV::I32(x) = v { Some(*x) } else { None }).collect::<Int32Array>()),
        KT::UInt64 => Arc::new(vals.iter().map(|v| if let TV::U64(x) = v { Some(*x) } else { None }).collect::<UInt64Array>()),
        KT::Float64 => Arc::new(vals.iter().map(|v| if let TV::F64(x) = v { Some(*x) } else { None }).collect::<Float64Array>()),
    }
}

fn tbatch(kts: &[KT], schema: &SchemaRef, rows: &[TRow]) -> RecordBatch {
    let mut cols: Vec<ArrayRef> = kts.iter().enumerate().map(|(c, kt)| tarray(*kt, &rows.iter().map(|r| &r.0[c]).collect::<Vec<_>>())).collect();
    cols.push(Arc::new(rows.iter().map(|r| Some(r.1)).collect::<Int64Array>()));
    RecordBatch::try_new(schema.clone(), cols).unwrap()
}

fn trows_of(kts: &[KT], batches: &[RecordBatch]) -> Vec<TRow> {
    use arrow::array::*;
    let mut out = vec![];
    for b in batches {
        let ids = b.column(kts.len()).as_any().downcast_ref::<Int64Array>().unwrap();
        for r in 0..b.num_rows() {
            let key: Vec<TV> = kts
                .iter()
                .enumerate()
                .map(|(c, kt)| {
                    let a = b.column(c);
                    if a.is_null(r) {
                        return TV::Null;
                    }
                    let any = a.as_any();
                    match kt {
                        KT::Utf8 => TV::Bytes(any.downcast_ref::<StringArray>().unwrap().value(r).as_bytes().to_vec()),
                        KT::LargeUtf8 => TV::Bytes(any.downcast_ref::<LargeStringArray>().unwrap().value(r).as_bytes().to_vec()),
                        KT::Utf8View => TV::Bytes(any.downcast_ref::<StringViewArray>().unwrap().value(r).as_bytes().to_vec()),
                        KT::Binary => TV::Bytes(any.downcast_ref::<BinaryArray>().unwrap().value(r).to_vec()),
                        KT::LargeBinary => TV::Bytes(any.downcast_ref::<LargeBinaryArray>().unwrap().value(r).to_vec()),
                        KT::BinaryView => TV::Bytes(any.downcast_ref::<BinaryViewArray>().unwrap().value(r).to_vec()),
                        KT::Boolean => TV::Bool(any.downcast_ref::<BooleanArray>().unwrap().value(r)),
                        KT::Int32 => TV::I32(any.downcast_ref::<Int32Array>().unwrap().value(r)),
                        KT::UInt64 => TV::U64(any.downcast_ref::<UInt64Array>().unwrap().value(r)),
                        KT::Float64 => TV::F64(any.downcast_ref::<Float64Array>().unwrap().value(r)),
                    }
                })
                .collect();
            out.push((key, if ids.is_null(r) { -1 } else { ids.value(r) }));
        }
    }
    out
}

/// reference comparison of typed rows under the sort options (NULL placement by `nulls_first` only)
fn tcmp(opts: &[Opt], a: &TRow, b: &TRow) -> Ordering {
    for (i, o) in opts.iter().enumerate() {
        let r = match (&a.0[i], &b.0[i]) {
            (TV::Null, TV::Null) => Ordering::Equal,
            (TV::Null, _) => if o.nf { Ordering::Less } else { Ordering::Greater },
            (_, TV::Null) => if o.nf { Ordering::Greater } else { Ordering::Less },
            (x, y) => if o.desc { ref_cmp(y, x) } else { ref_cmp(x, y) },
        };
        if r != Ordering::Equal {
            return r;
        }
    }
    Ordering::Equal
}

/// order-preserving, injective integer encoding: per key column the rank of the value among the distinct
/// non-NULL values of that column occurring in `all`
struct Encoder {
    cols: Vec<Vec<TV>>,
}
impl Encoder {
    fn new(nk: usize, all: &[&[TRow]]) -> Self {
        let cols = (0..nk)
            .map(|c| {
                let mut v: Vec<TV> = all.iter().flat_map(|rs| rs.iter()).map(|r| r.0[c].clone()).filter(|x| !matches!(x, TV::Null)).collect();
                v.sort_by(ref_cmp);
                v.dedup_by(|a, b| ref_cmp(a, b) == Ordering::Equal);
                v
            })
            .collect();
        Encoder { cols }
    }
    fn enc(&self, rows: &[TRow]) -> Vec<Row> {
        rows.iter()
            .map(|(k, id)| {
                let mut r: Row = k
                    .iter()
                    .enumerate()
                    .map(|(c, v)| match v {
                        TV::Null => None,
                        v => Some(self.cols[c].binary_search_by(|p| ref_cmp(p, v)).expect("value is in the pool") as i64),
                    })
                    .collect();
                r.push(Some(*id));
                r
            })
            .collect()
    }
}

struct TCase {
    kts: Vec<KT>,
    opts: Vec<Opt>,
    schema: SchemaRef,
}

fn tshape(rng: &mut Rng, min_keys: usize) -> TCase {
    // single-column keys take the specialised cursors: make them the majority
    let nk = if min_keys <= 1 && rng.chance(3, 5) { 1 } else { min_keys.max(2) + rng.below(2) as usize };
    // single-column keys: weight the string / view types, whose cursors have the intricate fast paths
    const SINGLE: &[KT] = &[
        KT::Utf8View, KT::Utf8View, KT::Utf8View, KT::Utf8View, KT::Utf8View, KT::Utf8, KT::Utf8, KT::Utf8, KT::LargeUtf8, KT::LargeUtf8, KT::Binary, KT::Binary,
        KT::LargeBinary, KT::BinaryView, KT::Boolean, KT::Int32, KT::Int32, KT::UInt64, KT::UInt64, KT::Float64,
    ];
    let kts: Vec<KT> = (0..nk).map(|_| if nk == 1 { *rng.pick(SINGLE) } else { *rng.pick(ALL_KT) }).collect();
    let opts = gen_opts(rng, nk);
    let schema = tschema(&kts);
    TCase { kts, opts, schema }
}

fn tlex(c: &TCase, n: usize) -> LexOrdering {
    LexOrdering::new(c.opts[..n].iter().enumerate().map(|(i, o)| PhysicalSortExpr { expr: col(c.schema.field(i).name(), &c.schema).unwrap(), options: o.arrow() })).unwrap()
}

fn gen_trows(rng: &mut Rng, c: &TCase, n: usize, len: Len, id0: i64) -> Vec<TRow> {
    (0..n).map(|i| (c.kts.iter().map(|kt| gen_tv(rng, *kt, len)).collect(), id0 + i as i64)).collect()
}

fn pick_len(rng: &mut Rng) -> Len {
    match rng.below(6) {
        0 | 1 => Len::ShortOnly,
        2 => Len::LongOnly,
        _ => Len::Mixed,
    }
}

/// batches of random sizes; each batch draws its strings short-only / long-only / mixed, so that
/// all-inline view arrays meet arrays with data buffers inside one merge
fn gen_tbatches(rng: &mut Rng, c: &TCase, n: usize, maxb: usize, id0: i64) -> (Vec<TRow>, Vec<Vec<TRow>>) {
    let mut all = vec![];
    let mut chunks = vec![];
    let mut i = 0;
    while i < n {
        let k = (1 + rng.below(maxb as u64) as usize).min(n - i);
        let len = pick_len(rng);
        let rows = gen_trows(rng, c, k, len, id0 + i as i64);
        all.extend(rows.iter().cloned());
        chunks.push(rows);
        i += k;
    }
    (all, chunks)
}

fn kt_tag(c: &TCase) -> String {
    if c.kts.len() == 1 { format!("{:?}", c.kts[0]) } else { "multi-column".into() }
}

#[allow(clippy::too_many_arguments)]
fn trecord(run: &mut Run, what: &str, sig: &str, c: &TCase, fetch: Option<usize>, inp: &[TRow], outcome: OutcomeB, nontrivial: bool) -> Option<(Vec<Row>, Encoder)> {
    let outcome = match outcome {
        OutcomeB::Batches(b) => {
            let out = trows_of(&c.kts, &b);
            let e = Encoder::new(c.kts.len(), &[inp, &out]);
            let (ei, eo) = (e.enc(inp), e.enc(&out));
            // known finding: TopK's dynamic filter compares with IEEE semantics (-0.0 = +0.0) while the heap and the
            // full sort use the total order (-0.0 < +0.0); inputs holding both zeros in a Float64 key under a fetch
            // are recorded under their own op / signature
            let signed_zero = fetch.is_some()
                && c.kts.iter().enumerate().any(|(ci, kt)| {
                    *kt == KT::Float64 && inp.iter().any(|r| matches!(r.0[ci], TV::F64(x) if x == 0.0 && x.is_sign_negative())) && inp.iter().any(|r| matches!(r.0[ci], TV::F64(x) if x == 0.0 && x.is_sign_positive()))
                });
            let (op, diag) = if signed_zero { ("judgez", " diag=signed-zero-under-fetch") } else { ("judge", "") };
            if signed_zero {
                run.count("typed:signed-zero-under-fetch");
            }
            let sig2 = format!("{sig}{diag} types={:?} input={} output={}", c.kts, show_trows(inp), show_trows(&out));
            let got = record_op(run, op, &format!("{what}{}", if signed_zero { "-signed-zero" } else { "" }), &sig2, &c.opts, fetch, &ei, Outcome::Rows(eo, vec![]), nontrivial);
            return got.map(|g| (g, e));
        }
        OutcomeB::Resources => Outcome::Resources,
        OutcomeB::Error(e) => Outcome::Error(e),
        OutcomeB::Hang => Outcome::Hang,
    };
    record(run, what, &format!("{sig} types={:?} input={}", c.kts, show_trows(inp)), &c.opts, fetch, &[], outcome, nontrivial);
    None
}

fn t_nontrivial(c: &TCase, rows: &[TRow]) -> bool {
    let mut s: Vec<&TRow> = rows.iter().collect();
    s.sort_by(|a, b| tcmp(&c.opts, a, b));
    rows.len() >= 2 && (s.windows(2).any(|w| tcmp(&c.opts, w[0], w[1]) == Ordering::Equal) || rows.iter().any(|r| r.0.iter().any(|v| matches!(v, TV::Null))))
}

fn typed_sort_cases(run: &mut Run, rng: &mut Rng) {
    let n = run.budget(600, 12_000);
    for i in 0..n {
        let c = tshape(rng, 1);
        let nrows = *rng.pick(&[0usize, 1, 2, 6, 20, 60, 150]);
        let maxb = *rng.pick(&[1usize, 3, 10, 64]);
        let (rows, chunks) = gen_tbatches(rng, &c, nrows, maxb, 0);
        let batches: Vec<RecordBatch> = chunks.iter().map(|r| tbatch(&c.kts, &c.schema, r)).collect();
        let fetch = if rng.chance(1, 3) { Some(*rng.pick(&[1usize, 2, 3, 7, 30, 500])) } else { None };
        let cfg = Cfg { batch_size: *rng.pick(&[1usize, 2, 3, 7, 50, 8192]), mem_limit: None, spill_reservation: None, in_place_threshold: Some(*rng.pick(&[0usize, 1 << 20])) };
        let plan: Arc<dyn ExecutionPlan> = Arc::new(SortExec::new(tlex(&c, c.kts.len()), source(&c.schema, &[batches], None)).with_fetch(fetch));
        let out = run_plan_batches(plan, ctx_of(&cfg));
        run.count(&format!("typed-sort:{}", kt_tag(&c)));
        run.count(if fetch.is_some() { "typed-sort:topk" } else if cfg.in_place_threshold == Some(0) { "typed-sort:merge-path" } else { "typed-sort:concat-path" });
        trecord(run, "typed-sort", &format!("#{i} opts={} fetch={fetch:?} bs={} ipt={:?}", sx_opts(&c.opts), cfg.batch_size, cfg.in_place_threshold), &c, fetch, &rows, out, t_nontrivial(&c, &rows));
    }
}

/// k-way merge of the (reference-sorted) streams under a deliberately WRONG value comparison — used only by the
/// per-run self-test that the generated inputs would expose such a bug in a specialised cursor
fn merge_with(streams: &[Vec<TRow>], opts: &[Opt], bad: &dyn Fn(&[u8], &[u8]) -> Ordering) -> Vec<TRow> {
    let mut pos = vec![0usize; streams.len()];
    let mut out = vec![];
    let cmp = |a: &TRow, b: &TRow| -> Ordering {
        match (&a.0[0], &b.0[0]) {
            (TV::Bytes(x), TV::Bytes(y)) => {
                let r = bad(x, y);
                if opts[0].desc { r.reverse() } else { r }
            }
            _ => tcmp(opts, a, b),
        }
    };
    loop {
        let mut best: Option<usize> = None;
        for s in 0..streams.len() {
            if pos[s] < streams[s].len() && best.map(|b| cmp(&streams[s][pos[s]], &streams[b][pos[b]]) == Ordering::Less).unwrap_or(true) {
                best = Some(s);
            }
        }
        match best {
            Some(b) => {
                out.push(streams[b][pos[b]].clone());
                pos[b] += 1;
            }
            None => return out,
        }
    }
}

fn typed_spm_cases(run: &mut Run, rng: &mut Rng) {
    let n = run.budget(800, 16_000);
    // self-test counters: on how many single-column string/view merges would a wrong specialised comparison
    // (a) "4-byte prefix, then length" (b) signed bytes (c) "12-byte inline part only" produce an output that the judge rejects
    let mut detect = [0u32; 3];
    for i in 0..n {
        let c = tshape(rng, 1);
        let ns = 2 + rng.below(3) as usize;
        // every partition draws its strings with its own length class: a partition holding ONLY short
        // strings is merged against partitions holding long ones
        let mut streams: Vec<Vec<TRow>> = vec![];
        for s in 0..ns {
            let len = pick_len(rng);
            let k = *rng.pick(&[0usize, 1, 3, 8, 25]);
            let mut rows = gen_trows(rng, &c, k, len, 1000 * s as i64);
            rows.sort_by(|a, b| tcmp(&c.opts, a, b));
            streams.push(rows);
        }
        let parts: Vec<Vec<RecordBatch>> = streams
            .iter()
            .map(|s| {
                let maxb = *rng.pick(&[1usize, 2, 5, 50]);
                let mut out = vec![];
                let mut j = 0;
                while j < s.len() {
                    let e = (j + 1 + rng.below(maxb as u64) as usize).min(s.len());
                    out.push(tbatch(&c.kts, &c.schema, &s[j..e]));
                    j = e;
                }
                out
            })
            .collect();
        let fetch = if rng.chance(1, 3) { Some(*rng.pick(&[1usize, 2, 5, 20, 1000])) } else { None };
        let rr = rng.chance(1, 2);
        let cfg = Cfg { batch_size: *rng.pick(&[1usize, 2, 3, 7, 8192]), mem_limit: None, spill_reservation: None, in_place_threshold: None };
        let full = tlex(&c, c.kts.len());
        let plan: Arc<dyn ExecutionPlan> = Arc::new(SortPreservingMergeExec::new(full.clone(), source(&c.schema, &parts, Some(full))).with_fetch(fetch).with_round_robin_repartition(rr));
        let out = run_plan_batches(plan, ctx_of(&cfg));
        let all: Vec<TRow> = streams.iter().flatten().cloned().collect();
        run.count(&format!("typed-spm:{}", kt_tag(&c)));
        if c.kts.len() == 1 && matches!(c.kts[0], KT::Utf8View) {
            // which view-cursor path the merge takes: both sides inline-only, or at least one side with data buffers
            let inline_only: Vec<bool> = streams.iter().filter(|s| !s.is_empty()).map(|s| s.iter().all(|r| !matches!(&r.0[0], TV::Bytes(b) if b.len() > 12))).collect();
            let k = inline_only.iter().filter(|x| **x).count();
            run.count(if inline_only.len() < 2 {
                "typed-spm:Utf8View:<2-nonempty-streams"
            } else if k == inline_only.len() {
                "typed-spm:Utf8View:all-streams-inline-only"
            } else if k == 0 {
                "typed-spm:Utf8View:all-streams-with-buffers"
            } else {
                "typed-spm:Utf8View:inline-only-vs-buffers"
            });
        }
        if c.kts.len() == 1 && matches!(c.kts[0], KT::Utf8View | KT::Utf8 | KT::LargeUtf8 | KT::Binary | KT::LargeBinary) {
            let bads: [&dyn Fn(&[u8], &[u8]) -> Ordering; 3] = [
                &|x, y| x[..x.len().min(4)].cmp(&y[..y.len().min(4)]).then(x.len().cmp(&y.len())),
                &|x, y| x.iter().map(|b| *b as i8).cmp(y.iter().map(|b| *b as i8)),
                &|x, y| x[..x.len().min(12)].cmp(&y[..y.len().min(12)]),
            ];
            for (bi, bad) in bads.iter().enumerate() {
                let wrong = merge_with(&streams, &c.opts, *bad);
                let e = Encoder::new(1, &[&all]);
                if oracle_judge(&c.opts, None, &e.enc(&all), &e.enc(&wrong)).is_err() {
                    detect[bi] += 1;
                }
            }
        }
        let nt = t_nontrivial(&c, &all);
        let got = trecord(run, "typed-spm", &format!("#{i} opts={} rr={rr} fetch={fetch:?} bs={} streams={ns}", sx_opts(&c.opts), cfg.batch_size), &c, fetch, &all, out, nt);
        if let (Some((got, enc)), false) = (got, rr) {
            // default tie rule: deterministic, must equal the model's kMerge on the encoded streams
            let f = fetch.map(|k| k.to_string()).unwrap_or_else(|| "none".into());
            let req = format!("({} {} ({}))", sx_opts(&c.opts), f, streams.iter().map(|s| sx_rows(&enc.enc(s))).collect::<Vec<_>>().join(" "));
            run.case("kmerge", &req, &plain_rows(&got), nt);
        }
    }
    for (name, d) in ["prefix4-then-length", "signed-bytes", "inline-12-bytes-only"].iter().zip(detect.iter()) {
        run.add(&format!("selftest:wrong-string-compare-detectable:{name}"), *d as u64);
        run.oracle(*d >= 5, &format!("selftest generator-sensitivity {name}"), &format!("only {d} generated string/view merges would expose a `{name}` comparison bug in a specialised cursor"));
    }
}

fn typed_partial_cases(run: &mut Run, rng: &mut Rng) {
    let n = run.budget(150, 4_000);
    for i in 0..n {
        let c = tshape(rng, 2);
        let nk = c.kts.len();
        let prefix = 1 + rng.below(nk as u64 - 1) as usize;
        let nrows = *rng.pick(&[0usize, 1, 4, 15, 60]);
        let (mut rows, _) = gen_tbatches(rng, &c, nrows, 8, 0);
        rows.sort_by(|a, b| tcmp(&c.opts[..prefix], a, b));
        let maxb = *rng.pick(&[1usize, 3, 10, 40]);
        let mut batches = vec![];
        let mut j = 0;
        while j < rows.len() {
            let e = (j + 1 + rng.below(maxb as u64) as usize).min(rows.len());
            batches.push(tbatch(&c.kts, &c.schema, &rows[j..e]));
            j = e;
        }
        let fetch = if rng.chance(1, 3) { Some(*rng.pick(&[1usize, 2, 5, 20, 1000])) } else { None };
        let cfg = Cfg { batch_size: *rng.pick(&[1usize, 3, 50, 8192]), mem_limit: None, spill_reservation: None, in_place_threshold: None };
        let plan: Arc<dyn ExecutionPlan> = Arc::new(PartialSortExec::new(tlex(&c, nk), source(&c.schema, &[batches], Some(tlex(&c, prefix))), prefix).with_fetch(fetch));
        let out = run_plan_batches(plan, ctx_of(&cfg));
        run.count("typed-partial");
        trecord(run, "typed-partial", &format!("#{i} opts={} prefix={prefix} fetch={fetch:?}", sx_opts(&c.opts)), &c, fetch, &rows, out, t_nontrivial(&c, &rows));
    }
}

fn typed_spill_cases(run: &mut Run, rng: &mut Rng) {
    let n = run.budget(80, 2_000);
    for i in 0..n {
        let c = tshape(rng, 1);
        let nrows = *rng.pick(&[300usize, 600, 1000]);
        let maxb = *rng.pick(&[20usize, 60, 100]);
        let (rows, chunks) = gen_tbatches(rng, &c, nrows, maxb, 0);
        let batches: Vec<RecordBatch> = chunks.iter().map(|r| tbatch(&c.kts, &c.schema, r)).collect();
        let cfg = Cfg {
            batch_size: *rng.pick(&[16usize, 50, 100]),
            mem_limit: Some(*rng.pick(&[16_000usize, 24_000, 40_000, 80_000])),
            spill_reservation: Some(*rng.pick(&[1024usize, 2048, 4096])),
            in_place_threshold: Some(*rng.pick(&[0usize, 4096, 1 << 20])),
        };
        let sort = Arc::new(SortExec::new(tlex(&c, c.kts.len()), source(&c.schema, &[batches], None)));
        let out = run_plan_batches(sort.clone(), ctx_of(&cfg));
        let spills = sort.metrics().and_then(|m| m.spill_count()).unwrap_or(0);
        if matches!(out, OutcomeB::Batches(_)) {
            run.count(if spills == 0 { "typed-spill:0-files" } else { "typed-spill:spilled" });
            run.count(&format!("typed-spill:{}", kt_tag(&c)));
        }
        let sig = format!("#{i} opts={} bs={} mem={:?} resv={:?} ipt={:?} nrows={nrows}", sx_opts(&c.opts), cfg.batch_size, cfg.mem_limit, cfg.spill_reservation, cfg.in_place_threshold);
        trecord(run, "typed-spill", &sig, &c, None, &rows, out, spills > 0);
    }
}

/// spilled runs whose batches have ODD row counts under a budget so tight that the multi-level merge has to
/// re-spill runs in halves (`split_spill_file_in_half`) before two streams fit
fn odd_respill_cases(run: &mut Run, rng: &mut Rng) {
    let n = run.budget(40, 800);
    for i in 0..n {
        let (_nk, nc, opts) = shape(rng);
        let schema = schema_of(nc);
        let odd = *rng.pick(&[3usize, 7, 13, 33, 101]);
        let nb = *rng.pick(&[9usize, 21, 45]);
        let dom = *rng.pick(&[3i64, 50]);
        let rows = gen_rows(rng, odd * nb, nc, dom, 0);
        let batches: Vec<RecordBatch> = rows.chunks(odd).map(|c| batch_of(&schema, c)).collect();
        let cfg = Cfg {
            batch_size: *rng.pick(&[odd, 2 * odd + 1, 101]),
            mem_limit: Some(*rng.pick(&[5_000usize, 7_000, 9_000, 12_000, 16_000])),
            spill_reservation: Some(*rng.pick(&[0usize, 256, 1024])),
            in_place_threshold: Some(0),
        };
        let sort = Arc::new(SortExec::new(lex(&schema, &opts), source(&schema, &[batches], None)));
        let ctx = ctx_of(&cfg);
        let out = run_plan(sort.clone(), ctx.clone());
        let spills = sort.metrics().and_then(|m| m.spill_count()).unwrap_or(0);
        let ok = matches!(out, Outcome::Rows(..));
        if ok {
            // more spill files than input batches can only come from intermediate / halved re-spills
            run.count(if spills > nb { "odd-respill:files>batches" } else if spills > 0 { "odd-respill:spilled" } else { "odd-respill:0-files" });
        }
        let sig = format!("#{i} opts={} odd={odd} nb={nb} bs={} mem={:?} resv={:?}", sx_opts(&opts), cfg.batch_size, cfg.mem_limit, cfg.spill_reservation);
        record(run, "odd-respill", &sig, &opts, None, &rows, out, spills > 0);
        if ok {
            let reserved = ctx.runtime_env().memory_pool.reserved();
            run.oracle(reserved == 0, &format!("odd-respill {sig} memory-returned"), &format!("memory_pool.reserved()={reserved} after the sort stream ended"));
        }
    }
}

/// TopK with >= 2 sort keys where the current k-th row has NULL in the leading key (NULLS LAST) and later
/// batches tie on that leading NULL: the heap boundary comparison must go on to the second key
fn topk_null_tie_cases(run: &mut Run, rng: &mut Rng) {
    let n = run.budget(150, 3_000);
    for i in 0..n {
        let nk = 2 + rng.below(2) as usize;
        let nc = nk + 1;
        let mut opts = gen_opts(rng, nk);
        opts[0].nf = false; // NULL is the largest leading key
        let schema = schema_of(nc);
        let k = 2 + rng.below(5) as usize;
        let mut id = 0i64;
        let mut mk = |lead: Option<i64>, rng: &mut Rng| -> Row {
            let mut r: Row = vec![lead];
            for _ in 1..nk {
                r.push(if rng.chance(1, 5) { None } else { Some(rng.range(0, 6)) });
            }
            r.push(Some(id));
            id += 1;
            r
        };
        // first batch: k-1 rows with a non-NULL leading key and one row with a NULL leading key (the k-th)
        let mut first: Vec<Row> = (0..k - 1).map(|_| mk(Some(rng.range(0, 3)), rng)).collect();
        first.push(mk(None, rng));
        let mut batches_rows = vec![first];
        for _ in 0..(1 + rng.below(4)) {
            let m = 1 + rng.below(6) as usize;
            batches_rows.push((0..m).map(|_| if rng.chance(3, 4) { mk(None, rng) } else { mk(Some(rng.range(0, 3)), rng) }).collect());
        }
        let rows: Vec<Row> = batches_rows.iter().flatten().cloned().collect();
        let batches: Vec<RecordBatch> = batches_rows.iter().map(|b| batch_of(&schema, b)).collect();
        let cfg = Cfg { batch_size: *rng.pick(&[1usize, 3, 8192]), mem_limit: None, spill_reservation: None, in_place_threshold: None };
        let plan: Arc<dyn ExecutionPlan> = Arc::new(SortExec::new(lex(&schema, &opts), source(&schema, &[batches], None)).with_fetch(Some(k)));
        let out = run_plan(plan, ctx_of(&cfg));
        run.count("topk:null-leading-key-boundary");
        record(run, "topk-null-tie", &format!("#{i} opts={} k={k} rows={}", sx_opts(&opts), sx_rows(&rows)), &opts, Some(k), &rows, out, true);
    }
}

pub fn run(run: &mut Run, args: &Args) {
    hutil::quiet_panics();
    let mut rng = Rng::new(args.seed);
    cmp_cases(run, &mut rng);
    sort_cases(run, &mut rng);
    topk_cases(run, &mut rng);
    spm_cases(run, &mut rng);
    partial_cases(run, &mut rng);
    spill_cases(run, &mut rng);
    typed_sort_cases(run, &mut rng);
    typed_spm_cases(run, &mut rng);
    typed_partial_cases(run, &mut rng);
    typed_spill_cases(run, &mut rng);
    odd_respill_cases(run, &mut rng);
    topk_null_tie_cases(run, &mut rng);
}
