//! C08 — sorting, merging and TopK return correctly ordered results.
//!
//! Real operators (`SortExec` with/without `fetch`, with memory limits forcing spills and
//! multi-level merges; `SortPreservingMergeExec` with both tie-breaking modes; `PartialSortExec`)
//! are run on generated inputs (NULLs, duplicates, i64 extremes, empty batches) × option combos ×
//! batch sizes.  Ties are free, so the Lean side JUDGES the output (`judge`: sorted ∧ permutation, or
//! the top-k relation) instead of predicting one sequence; the k-way merge with the default
//! lowest-stream-index tie rule is deterministic and is compared for equality (`kmerge`);
//! `compare_rows` itself is compared for equality (`cmp`).  The same predicates are evaluated in
//! Rust as the implementation-level oracle.
use std::cmp::Ordering;
use std::sync::Arc;
use std::time::Duration;

use arrow::array::{Array, ArrayRef, Int64Array, RecordBatch};
use arrow::compute::SortOptions;
use arrow::datatypes::{DataType, Field, Schema, SchemaRef};
use arrow::row::{RowConverter, SortField};
use datafusion_common::ScalarValue;
use datafusion_common::utils::compare_rows;
use datafusion_datasource::memory::MemorySourceConfig;
use datafusion_datasource::source::DataSourceExec;
use datafusion_execution::TaskContext;
use datafusion_execution::config::SessionConfig;
use datafusion_execution::runtime_env::RuntimeEnvBuilder;
use datafusion_physical_expr::expressions::col;
use datafusion_physical_expr::{LexOrdering, PhysicalSortExpr};
use datafusion_physical_plan::ExecutionPlan;
use datafusion_physical_plan::sorts::partial_sort::PartialSortExec;
use datafusion_physical_plan::sorts::sort::SortExec;
use datafusion_physical_plan::sorts::sort_preserving_merge::SortPreservingMergeExec;
use hutil::{Args, Rng, Run};

type Row = Vec<Option<i64>>;

#[derive(Clone, Copy, PartialEq, Eq, Debug)]
struct Opt {
    desc: bool,
    nf: bool,
}
impl Opt {
    fn atom(&self) -> &'static str {
        match (self.desc, self.nf) {
            (false, true) => "af",
            (false, false) => "al",
            (true, true) => "df",
            (true, false) => "dl",
        }
    }
    fn arrow(&self) -> SortOptions {
        SortOptions { descending: self.desc, nulls_first: self.nf }
    }
}

/// independent Rust statement of the order (used by the implementation-level oracle)
fn cmp_rows(opts: &[Opt], a: &Row, b: &Row) -> Ordering {
    for (i, o) in opts.iter().enumerate() {
        let r = match (a[i], b[i]) {
            (None, None) => Ordering::Equal,
            (None, Some(_)) => {
                if o.nf {
                    Ordering::Less
                } else {
                    Ordering::Greater
                }
            }
            (Some(_), None) => {
                if o.nf {
                    Ordering::Greater
                } else {
                    Ordering::Less
                }
            }
            (Some(x), Some(y)) => {
                if o.desc {
                    y.cmp(&x)
                } else {
                    x.cmp(&y)
                }
            }
        };
        if r != Ordering::Equal {
            return r;
        }
    }
    Ordering::Equal
}

fn sx_opts(opts: &[Opt]) -> String {
    format!("({})", opts.iter().map(|o| o.atom()).collect::<Vec<_>>().join(" "))
}
fn sx_row(r: &Row) -> String {
    format!("({})", r.iter().map(|v| v.map(|x| x.to_string()).unwrap_or_else(|| "n".into())).collect::<Vec<_>>().join(" "))
}
fn sx_rows(rs: &[Row]) -> String {
    format!("({})", rs.iter().map(sx_row).collect::<Vec<_>>().join(" "))
}
fn plain_rows(rs: &[Row]) -> String {
    rs.iter().map(sx_row).collect::<Vec<_>>().join(" ")
}

fn gen_opts(rng: &mut Rng, nk: usize) -> Vec<Opt> {
    (0..nk).map(|_| Opt { desc: rng.chance(1, 2), nf: rng.chance(1, 2) }).collect()
}

fn gen_val(rng: &mut Rng, dom: i64) -> Option<i64> {
    match rng.below(20) {
        0..=3 => None,
        4 => Some(i64::MIN),
        5 => Some(i64::MAX),
        _ => Some(rng.range(-1, dom)),
    }
}

/// `n` rows with `nc` columns; the last column is a unique row id
fn gen_rows(rng: &mut Rng, n: usize, nc: usize, dom: i64, id0: i64) -> Vec<Row> {
    (0..n)
        .map(|i| {
            let mut r: Row = (0..nc - 1).map(|_| gen_val(rng, dom)).collect();
            r.push(Some(id0 + i as i64));
            r
        })
        .collect()
}

fn schema_of(nc: usize) -> SchemaRef {
    let mut f: Vec<Field> = (0..nc - 1).map(|i| Field::new(format!("c{i}"), DataType::Int64, true)).collect();
    f.push(Field::new("id", DataType::Int64, true));
    Arc::new(Schema::new(f))
}

fn batch_of(schema: &SchemaRef, rows: &[Row]) -> RecordBatch {
    let nc = schema.fields().len();
    let cols: Vec<ArrayRef> = (0..nc).map(|c| Arc::new(rows.iter().map(|r| r[c]).collect::<Int64Array>()) as ArrayRef).collect();
    RecordBatch::try_new(schema.clone(), cols).unwrap()
}

/// split rows into batches of random sizes (sometimes empty batches in between)
fn split_batches(rng: &mut Rng, schema: &SchemaRef, rows: &[Row], max: usize) -> Vec<RecordBatch> {
    let mut out = vec![];
    let mut i = 0;
    while i < rows.len() {
        if rng.chance(1, 8) {
            out.push(batch_of(schema, &[]));
        }
        let k = 1 + rng.below(max as u64) as usize;
        let j = (i + k).min(rows.len());
        out.push(batch_of(schema, &rows[i..j]));
        i = j;
    }
    if rng.chance(1, 6) {
        out.push(batch_of(schema, &[]));
    }
    out
}

fn rows_of(batches: &[RecordBatch]) -> Vec<Row> {
    let mut out = vec![];
    for b in batches {
        let cols: Vec<&Int64Array> = b.columns().iter().map(|c| c.as_any().downcast_ref::<Int64Array>().unwrap()).collect();
        for r in 0..b.num_rows() {
            out.push(cols.iter().map(|c| if c.is_null(r) { None } else { Some(c.value(r)) }).collect());
        }
    }
    out
}

fn lex(schema: &SchemaRef, opts: &[Opt]) -> LexOrdering {
    LexOrdering::new(opts.iter().enumerate().map(|(i, o)| PhysicalSortExpr { expr: col(schema.field(i).name(), schema).unwrap(), options: o.arrow() }))
        .unwrap()
}

enum Outcome {
    Rows(Vec<Row>, Vec<usize>),
    Resources,
    Error(String),
    Hang,
}

fn run_plan(plan: Arc<dyn ExecutionPlan>, ctx: Arc<TaskContext>) -> Outcome {
    let rt = tokio::runtime::Builder::new_current_thread().enable_all().build().unwrap();
    let res = hutil::catch(std::panic::AssertUnwindSafe(|| {
        rt.block_on(async { tokio::time::timeout(Duration::from_secs(60), datafusion_physical_plan::collect(plan, ctx)).await })
    }));
    match res {
        Err(p) => Outcome::Error(format!("panic: {p}")),
        Ok(Err(_)) => Outcome::Hang,
        Ok(Ok(Err(e))) => {
            let m = e.to_string();
            if m.contains("Resources exhausted") || m.contains("ResourcesExhausted") || m.contains("Not enough memory") {
                Outcome::Resources
            } else {
                Outcome::Error(m)
            }
        }
        Ok(Ok(Ok(batches))) => {
            let sizes = batches.iter().map(|b| b.num_rows()).collect();
            Outcome::Rows(rows_of(&batches), sizes)
        }
    }
}

/// implementation-level oracle: sorted ∧ permutation (fetch = None) or the top-k relation
fn oracle_judge(opts: &[Opt], fetch: Option<usize>, inp: &[Row], out: &[Row]) -> Result<(), String> {
    for w in out.windows(2) {
        if cmp_rows(opts, &w[0], &w[1]) == Ordering::Greater {
            return Err(format!("output not sorted: {} before {}", sx_row(&w[0]), sx_row(&w[1])));
        }
    }
    let mut a: Vec<&Row> = inp.iter().collect();
    let mut b: Vec<&Row> = out.iter().collect();
    a.sort();
    b.sort();
    match fetch {
        None => {
            if a != b {
                return Err(format!("output is not a permutation of the input ({} rows in, {} rows out)", inp.len(), out.len()));
            }
        }
        Some(k) => {
            if out.len() != k.min(inp.len()) {
                return Err(format!("fetch={k}: {} rows in, {} rows out", inp.len(), out.len()));
            }
            // sub-bag: remove out from inp
            let mut rest: Vec<&Row> = vec![];
            let mut j = 0;
            for r in &a {
                if j < b.len() && *r == b[j] {
                    j += 1;
                } else {
                    rest.push(r);
                }
            }
            if j != b.len() {
                return Err("output contains a row that is not in the input (or too many copies)".into());
            }
            if let Some(last) = out.last() {
                for d in rest {
                    if cmp_rows(opts, d, last) == Ordering::Less {
                        return Err(format!("dropped row {} is smaller than kept row {}", sx_row(d), sx_row(last)));
                    }
                }
            }
        }
    }
    Ok(())
}

struct Cfg {
    batch_size: usize,
    mem_limit: Option<usize>,
    spill_reservation: Option<usize>,
    in_place_threshold: Option<usize>,
}

fn ctx_of(cfg: &Cfg) -> Arc<TaskContext> {
    let mut sc = SessionConfig::new().with_batch_size(cfg.batch_size);
    if let Some(n) = cfg.spill_reservation {
        sc = sc.with_sort_spill_reservation_bytes(n);
    }
    if let Some(n) = cfg.in_place_threshold {
        sc = sc.with_sort_in_place_threshold_bytes(n);
    }
    let mut rb = RuntimeEnvBuilder::new();
    if let Some(m) = cfg.mem_limit {
        rb = rb.with_memory_limit(m, 1.0);
    }
    Arc::new(TaskContext::default().with_session_config(sc).with_runtime(rb.build_arc().unwrap()))
}

fn source(schema: &SchemaRef, parts: &[Vec<RecordBatch>], sorted_on: Option<LexOrdering>) -> Arc<dyn ExecutionPlan> {
    let mut src = MemorySourceConfig::try_new(parts, schema.clone(), None).unwrap();
    if let Some(l) = sorted_on {
        src = src.try_with_sort_information(vec![l]).unwrap();
    }
    DataSourceExec::from_data_source(src)
}

/// record one judged case + oracle
#[allow(clippy::too_many_arguments)]
fn record(run: &mut Run, what: &str, sig: &str, opts: &[Opt], fetch: Option<usize>, inp: &[Row], outcome: Outcome, nontrivial: bool) -> Option<Vec<Row>> {
    match outcome {
        Outcome::Rows(out, _) => {
            let f = fetch.map(|k| k.to_string()).unwrap_or_else(|| "none".into());
            let req = format!("({} {} {} {})", sx_opts(opts), f, sx_rows(inp), sx_rows(&out));
            run.case("judge", &req, "ok", nontrivial);
            let o = oracle_judge(opts, fetch, inp, &out);
            run.oracle(o.is_ok(), &format!("{what} {sig}"), &format!("{} | input {} | output {}", o.err().unwrap_or_default(), sx_rows(inp), sx_rows(&out)));
            Some(out)
        }
        Outcome::Resources => {
            run.count(&format!("{what}:err-resources"));
            None
        }
        Outcome::Error(e) => {
            run.count(&format!("{what}:err-other"));
            run.oracle(false, &format!("{what} {sig} unexpected-error"), &e);
            None
        }
        Outcome::Hang => {
            run.oracle(false, &format!("{what} {sig} hang"), "no result within 60 s");
            None
        }
    }
}

fn n_ties(opts: &[Opt], rows: &[Row]) -> usize {
    let mut s: Vec<&Row> = rows.iter().collect();
    s.sort_by(|a, b| cmp_rows(opts, a, b));
    s.windows(2).filter(|w| cmp_rows(opts, w[0], w[1]) == Ordering::Equal).count()
}

fn shape(rng: &mut Rng) -> (usize, usize, Vec<Opt>) {
    let nk = 1 + rng.below(3) as usize;
    let nc = nk + 1 + rng.below(2) as usize; // keys, maybe one extra payload column, id
    let opts = gen_opts(rng, nk);
    (nk, nc, opts)
}

// ------------------------------------------------------------------------------------------ cmp
fn cmp_cases(run: &mut Run, rng: &mut Rng) {
    let n = run.budget(3000, 60_000);
    for i in 0..n {
        let nk = 1 + rng.below(3) as usize;
        let opts = gen_opts(rng, nk);
        let a: Row = (0..nk).map(|_| gen_val(rng, 2)).collect();
        let b: Row = if rng.chance(1, 5) { a.clone() } else { (0..nk).map(|_| gen_val(rng, 2)).collect() };
        let sa: Vec<ScalarValue> = a.iter().map(|v| ScalarValue::Int64(*v)).collect();
        let sb: Vec<ScalarValue> = b.iter().map(|v| ScalarValue::Int64(*v)).collect();
        let so: Vec<SortOptions> = opts.iter().map(|o| o.arrow()).collect();
        let got = compare_rows(&sa, &sb, &so).unwrap();
        let txt = match got {
            Ordering::Less => "lt",
            Ordering::Equal => "eq",
            Ordering::Greater => "gt",
        };
        let nontrivial = a.iter().any(|v| v.is_none()) || b.iter().any(|v| v.is_none()) || got == Ordering::Equal;
        run.case("cmp", &format!("({} {} {})", sx_opts(&opts), sx_row(&a), sx_row(&b)), txt, nontrivial);
        run.count(&format!("cmp:{txt}"));
        // the row format used by the sort operators orders rows like compare_rows (trusted contract, checked here)
        let conv = RowConverter::new(so.iter().map(|o| SortField::new_with_options(DataType::Int64, *o)).collect()).unwrap();
        let cols: Vec<ArrayRef> = (0..nk).map(|c| Arc::new(Int64Array::from(vec![a[c], b[c]])) as ArrayRef).collect();
        let rows = conv.convert_columns(&cols).unwrap();
        let rf = rows.row(0).cmp(&rows.row(1));
        run.oracle(rf == got && got == cmp_rows(&opts, &a, &b), &format!("rowformat#{i} {} {} {}", sx_opts(&opts), sx_row(&a), sx_row(&b)), &format!("compare_rows={got:?} row-format={rf:?}"));
    }
}

// ------------------------------------------------------------------------------------------ SortExec
fn sort_cases(run: &mut Run, rng: &mut Rng) {
    let n = run.budget(500, 12_000);
    for i in 0..n {
        let (_nk, nc, opts) = shape(rng);
        let schema = schema_of(nc);
        let nrows = *rng.pick(&[0usize, 1, 2, 5, 17, 40, 90, 200]);
        let dom = *rng.pick(&[1i64, 3, 20]);
        let rows = gen_rows(rng, nrows, nc, dom, 0);
        let maxb = *rng.pick(&[1usize, 3, 10, 64]);
        let batches = split_batches(rng, &schema, &rows, maxb);
        let cfg = Cfg {
            batch_size: *rng.pick(&[1usize, 2, 3, 7, 50, 8192]),
            mem_limit: None,
            spill_reservation: None,
            in_place_threshold: Some(*rng.pick(&[0usize, 1 << 20])),
        };
        let plan: Arc<dyn ExecutionPlan> = Arc::new(SortExec::new(lex(&schema, &opts), source(&schema, &[batches], None)));
        let out = run_plan(plan, ctx_of(&cfg));
        let ties = n_ties(&opts, &rows);
        run.count(if cfg.in_place_threshold == Some(0) { "sort:merge-path" } else { "sort:concat-path" });
        record(run, "sort", &format!("#{i} opts={} bs={} ipt={:?} rows={}", sx_opts(&opts), cfg.batch_size, cfg.in_place_threshold, sx_rows(&rows)), &opts, None, &rows, out, nrows >= 2 && ties > 0);
    }
}

fn spill_cases(run: &mut Run, rng: &mut Rng) {
    let n = run.budget(120, 3000);
    for i in 0..n {
        let (_nk, nc, opts) = shape(rng);
        let schema = schema_of(nc);
        let nrows = *rng.pick(&[300usize, 600, 1000, 1500]);
        let dom = *rng.pick(&[3i64, 50]);
        let rows = gen_rows(rng, nrows, nc, dom, 0);
        let maxb = *rng.pick(&[20usize, 60, 100]);
        let batches = split_batches(rng, &schema, &rows, maxb);
        let cfg = Cfg {
            batch_size: *rng.pick(&[16usize, 50, 100]),
            mem_limit: Some(*rng.pick(&[12_000usize, 16_000, 24_000, 40_000, 80_000])),
            spill_reservation: Some(*rng.pick(&[1024usize, 2048, 4096])),
            in_place_threshold: Some(*rng.pick(&[0usize, 4096, 1 << 20])),
        };
        let sort = Arc::new(SortExec::new(lex(&schema, &opts), source(&schema, &[batches], None)));
        let plan: Arc<dyn ExecutionPlan> = sort.clone();
        let ctx = ctx_of(&cfg);
        let out = run_plan(plan, ctx.clone());
        let spills = sort.metrics().and_then(|m| m.spill_count()).unwrap_or(0);
        let ok = matches!(out, Outcome::Rows(..));
        if ok {
            run.count(match spills {
                0 => "spill:0-files",
                1 => "spill:1-file",
                2..=4 => "spill:2-4-files",
                _ => "spill:5+-files",
            });
        }
        let sig = format!("#{i} opts={} bs={} mem={:?} resv={:?} ipt={:?} nrows={nrows} seed-rows={}", sx_opts(&opts), cfg.batch_size, cfg.mem_limit, cfg.spill_reservation, cfg.in_place_threshold, sx_rows(&rows[..rows.len().min(6)]));
        record(run, "spill", &sig, &opts, None, &rows, out, spills > 0);
        if ok {
            let reserved = ctx.runtime_env().memory_pool.reserved();
            run.oracle(reserved == 0, &format!("spill {sig} memory-returned"), &format!("memory_pool.reserved()={reserved} after the sort stream ended"));
        }
    }
}

fn topk_cases(run: &mut Run, rng: &mut Rng) {
    let n = run.budget(500, 12_000);
    for i in 0..n {
        let (nk, nc, opts) = shape(rng);
        let schema = schema_of(nc);
        let nrows = *rng.pick(&[0usize, 1, 3, 10, 40, 120]);
        let dom = *rng.pick(&[1i64, 3, 20]);
        let mut rows = gen_rows(rng, nrows, nc, dom, 0);
        let k = *rng.pick(&[1usize, 2, 3, 5, 10, 50, 500]);
        // sometimes the input is declared (and is) sorted on a prefix of the keys: exercises the
        // early-termination rule of TopK
        let prefix = if nk >= 2 && rng.chance(1, 2) { 1 + rng.below(nk as u64 - 1) as usize } else { 0 };
        if prefix > 0 {
            rows.sort_by(|a, b| cmp_rows(&opts[..prefix], a, b));
        }
        let maxb = *rng.pick(&[1usize, 4, 16]);
        let batches = split_batches(rng, &schema, &rows, maxb);
        let cfg = Cfg { batch_size: *rng.pick(&[1usize, 3, 50, 8192]), mem_limit: None, spill_reservation: None, in_place_threshold: None };
        let sorted_on = if prefix > 0 { Some(lex(&schema, &opts[..prefix])) } else { None };
        let plan: Arc<dyn ExecutionPlan> = Arc::new(SortExec::new(lex(&schema, &opts), source(&schema, &[batches], sorted_on)).with_fetch(Some(k)));
        let out = run_plan(plan, ctx_of(&cfg));
        run.count(if prefix > 0 { "topk:prefix-sorted-input" } else { "topk:unsorted-input" });
        if k < nrows {
            run.count("topk:k<n");
        }
        let ties = n_ties(&opts, &rows);
        record(run, "topk", &format!("#{i} opts={} k={k} prefix={prefix} bs={} rows={}", sx_opts(&opts), cfg.batch_size, sx_rows(&rows)), &opts, Some(k), &rows, out, k < nrows && ties > 0);
    }
}

// ------------------------------------------------------------------------------------------ SortPreservingMergeExec
fn spm_cases(run: &mut Run, rng: &mut Rng) {
    let n = run.budget(500, 12_000);
    for i in 0..n {
        let (_nk, nc, opts) = shape(rng);
        let schema = schema_of(nc);
        let ns = 1 + rng.below(7) as usize;
        let dom = *rng.pick(&[0i64, 1, 3, 20]);
        let mut streams: Vec<Vec<Row>> = vec![];
        let mut id0 = 0;
        for _ in 0..ns {
            let len = *rng.pick(&[0usize, 1, 2, 5, 12, 30]);
            let mut rows = gen_rows(rng, len, nc, dom, id0);
            id0 += 1000;
            rows.sort_by(|a, b| cmp_rows(&opts, a, b)); // stable: ids ascending inside a tie
            streams.push(rows);
        }
        let parts: Vec<Vec<RecordBatch>> = streams
            .iter()
            .map(|s| {
                let maxb = *rng.pick(&[1usize, 2, 5, 50]);
                split_batches(rng, &schema, s, maxb)
            })
            .collect();
        let fetch = if rng.chance(1, 3) { Some(*rng.pick(&[1usize, 2, 5, 20, 1000])) } else { None };
        let rr = rng.chance(1, 2);
        let cfg = Cfg { batch_size: *rng.pick(&[1usize, 2, 3, 7, 8192]), mem_limit: None, spill_reservation: None, in_place_threshold: None };
        let plan: Arc<dyn ExecutionPlan> = Arc::new(
            SortPreservingMergeExec::new(lex(&schema, &opts), source(&schema, &parts, Some(lex(&schema, &opts)))).with_fetch(fetch).with_round_robin_repartition(rr),
        );
        let out = run_plan(plan, ctx_of(&cfg));
        let all: Vec<Row> = streams.iter().flatten().cloned().collect();
        let ties = n_ties(&opts, &all);
        run.count(if rr { "spm:round-robin-ties" } else { "spm:lowest-index-ties" });
        run.count(&format!("spm:streams={}", ns.min(4)));
        let sig = format!("#{i} opts={} rr={rr} fetch={fetch:?} bs={} streams=({})", sx_opts(&opts), cfg.batch_size, streams.iter().map(|s| sx_rows(s)).collect::<Vec<_>>().join(" "));
        let got = record(run, "spm", &sig, &opts, fetch, &all, out, ns >= 2 && ties > 0);
        // with the default tie rule the merge is deterministic: compare with the model's kMerge.
        // (a single input partition is passed through without merging.)
        if let (Some(got), false) = (got, rr) {
            let f = fetch.map(|k| k.to_string()).unwrap_or_else(|| "none".into());
            let req = format!("({} {} ({}))", sx_opts(&opts), f, streams.iter().map(|s| sx_rows(s)).collect::<Vec<_>>().join(" "));
            run.case("kmerge", &req, &plain_rows(&got), ns >= 2 && ties > 0);
            // implementation-level statement of the tie rule: equal keys come out by (stream, position)
            let mut want = all.clone();
            want.sort_by(|a, b| cmp_rows(&opts, a, b)); // stable over (stream, position) order
            if let Some(k) = fetch {
                want.truncate(k);
            }
            run.oracle(want == got, &format!("spm-stable {sig}"), &format!("expected {} got {}", sx_rows(&want), sx_rows(&got)));
        }
    }
}

// ------------------------------------------------------------------------------------------ PartialSortExec
fn partial_cases(run: &mut Run, rng: &mut Rng) {
    let n = run.budget(400, 10_000);
    for i in 0..n {
        let nk = 2 + rng.below(2) as usize;
        let nc = nk + 1;
        let opts = gen_opts(rng, nk);
        let schema = schema_of(nc);
        let prefix = 1 + rng.below(nk as u64 - 1) as usize;
        let nrows = *rng.pick(&[0usize, 1, 4, 15, 60, 150]);
        let dom = *rng.pick(&[1i64, 3, 8]);
        let mut rows = gen_rows(rng, nrows, nc, dom, 0);
        rows.sort_by(|a, b| cmp_rows(&opts[..prefix], a, b));
        let maxb = *rng.pick(&[1usize, 3, 10, 40]);
        let batches = split_batches(rng, &schema, &rows, maxb);
        let fetch = if rng.chance(1, 3) { Some(*rng.pick(&[1usize, 2, 5, 20, 1000])) } else { None };
        let cfg = Cfg { batch_size: *rng.pick(&[1usize, 3, 50, 8192]), mem_limit: None, spill_reservation: None, in_place_threshold: None };
        let plan: Arc<dyn ExecutionPlan> =
            Arc::new(PartialSortExec::new(lex(&schema, &opts), source(&schema, &[batches], Some(lex(&schema, &opts[..prefix]))), prefix).with_fetch(fetch));
        let out = run_plan(plan, ctx_of(&cfg));
        let ties = n_ties(&opts, &rows);
        run.count(&format!("partial:prefix={prefix}/{nk}"));
        record(run, "partial", &format!("#{i} opts={} prefix={prefix} fetch={fetch:?} rows={}", sx_opts(&opts), sx_rows(&rows)), &opts, fetch, &rows, out, nrows >= 2 && ties > 0);
    }
}

pub fn run(run: &mut Run, args: &Args) {
    hutil::quiet_panics();
    let mut rng = Rng::new(args.seed);
    cmp_cases(run, &mut rng);
    sort_cases(run, &mut rng);
    topk_cases(run, &mut rng);
    spm_cases(run, &mut rng);
    partial_cases(run, &mut rng);
    spill_cases(run, &mut rng);
}
