//! C16 — spill channels deliver every spilled batch exactly once and terminate.
//!
//! Tie (K): the real `spill_pool::{spsc_channel, mpsc_channel}` are driven sequentially with an
//! explicit op order (push / failing push / empty push / clone / new_sink / drop / reader poll) and a
//! manual `Waker`; every push result, every poll result (batch id / Pending / EOS), whether the
//! task's waker has been woken and the number of spill files created are compared op by op with
//! the coarse runs of the Lean state machine `Sm.SpillPool` (`fixed = true`).
//!
//! Backends:
//!  * `mem`  — a custom `TempFileFactory` (public `DiskManagerMode::Custom`) keeping files in
//!    memory: fully deterministic (no tokio blocking pool), with exact fault injection at
//!    `create_temp_file`, the k-th `write`, `flush` and `SpillWriter::finish`.  The `Env` sent to
//!    the model is what the *environment* did (which injected fault fired, and in which stage).
//!  * `disk` — the real `DiskManager` temp files; a push is made to fail through
//!    `set_max_temp_directory_size` (0, or a few hundred bytes above the current usage) around the
//!    call.  Run in lockstep with a `mem` twin of the same history (the twin is the case sent to
//!    the model); the disk world must answer every push and deliver every batch like the twin.
//!
//! Implementation-level oracles (no model involved):
//!   delivered-once   every delivered id was accepted by a push (Ok, or Err only in the rotation
//!                    `finish` after append+flush succeeded) and is delivered at most once
//!   spsc-order       without clones, delivery order = push order
//!   eos-early        EOS only after every sink is dropped and every accepted batch delivered
//!   lost-wakeup      a reader whose last poll was Pending and whose waker has not been woken
//!                    gets Pending again
//!   reader-stranded  after all sinks are dropped no poll is Pending and EOS arrives within
//!                    (#undelivered + 1) polls          <- fires if commit afaa1b3 is reverted
use std::collections::BTreeSet;
use std::io::Write;
use std::pin::Pin;
use std::sync::atomic::{AtomicBool, AtomicI64, AtomicUsize, Ordering::SeqCst};
use std::sync::{Arc, Mutex};
use std::task::{Context, Poll, Waker};

use arrow::array::{Array, Int32Array, RecordBatch};
use arrow::datatypes::{DataType, Field, Schema, SchemaRef};
use bytes::Bytes;
use datafusion_common::{DataFusionError, Result};
use datafusion_execution::disk_manager::{DiskManager, DiskManagerBuilder, DiskManagerMode};
use datafusion_execution::runtime_env::RuntimeEnvBuilder;
use datafusion_execution::{SendableRecordBatchStream, SpillFile, SpillWriter, TempFileFactory};
use datafusion_physical_plan::SpillManager;
use datafusion_physical_plan::metrics::{ExecutionPlanMetricsSet, SpillMetrics};
use datafusion_physical_plan::spill::spill_pool::{self, SpillPoolSink, SpillPoolWriter};
use futures::{Stream, StreamExt};
use hutil::{Args, Rng, Run};

// ------------------------------------------------------------------ in-memory backend with faults

#[derive(Default)]
struct Faults {
    fail_create: AtomicBool,
    /// write calls still allowed before every further write fails; negative = no limit
    writes_left: AtomicI64,
    fail_flush: AtomicBool,
    fail_finish: AtomicBool,
    // observed during the current push
    flushed: AtomicBool,
    fired_create: AtomicBool,
    fired_append: AtomicBool,
    fired_finish: AtomicBool,
    created: AtomicUsize,
    chunk: AtomicUsize,
}

impl Faults {
    fn clear(&self) {
        self.fail_create.store(false, SeqCst);
        self.writes_left.store(-1, SeqCst);
        self.fail_flush.store(false, SeqCst);
        self.fail_finish.store(false, SeqCst);
        self.flushed.store(false, SeqCst);
        self.fired_create.store(false, SeqCst);
        self.fired_append.store(false, SeqCst);
        self.fired_finish.store(false, SeqCst);
    }
}

struct MemFile {
    data: Arc<Mutex<Vec<u8>>>,
    faults: Arc<Faults>,
}

struct MemWriter {
    data: Arc<Mutex<Vec<u8>>>,
    faults: Arc<Faults>,
}

impl Write for MemWriter {
    fn write(&mut self, buf: &[u8]) -> std::io::Result<usize> {
        let left = self.faults.writes_left.load(SeqCst);
        if left == 0 {
            if self.faults.flushed.load(SeqCst) {
                self.faults.fired_finish.store(true, SeqCst);
            } else {
                self.faults.fired_append.store(true, SeqCst);
            }
            return Err(std::io::Error::other("injected write failure"));
        }
        if left > 0 {
            self.faults.writes_left.store(left - 1, SeqCst);
        }
        self.data.lock().unwrap().extend_from_slice(buf);
        Ok(buf.len())
    }
    fn flush(&mut self) -> std::io::Result<()> {
        if self.faults.fail_flush.load(SeqCst) && !self.faults.flushed.load(SeqCst) {
            self.faults.fired_append.store(true, SeqCst);
            return Err(std::io::Error::other("injected flush failure"));
        }
        self.faults.flushed.store(true, SeqCst);
        Ok(())
    }
}

impl SpillWriter for MemWriter {
    fn finish(&mut self) -> Result<()> {
        if self.faults.fail_finish.load(SeqCst) {
            self.faults.fired_finish.store(true, SeqCst);
            return Err(DataFusionError::Execution("injected finish failure".into()));
        }
        Ok(())
    }
}

/// byte stream with the semantics of a `ReaderStream` over a growing file: yields what is there
/// (at most `chunk` bytes per item), and ends — for good — when it is polled with nothing new.
struct MemRead {
    data: Arc<Mutex<Vec<u8>>>,
    pos: usize,
    chunk: usize,
    done: bool,
}

impl Stream for MemRead {
    type Item = Result<Bytes>;
    fn poll_next(mut self: Pin<&mut Self>, _cx: &mut Context<'_>) -> Poll<Option<Self::Item>> {
        if self.done {
            return Poll::Ready(None);
        }
        let chunk = {
            let d = self.data.lock().unwrap();
            if self.pos < d.len() {
                let end = d.len().min(self.pos + self.chunk);
                Some(Bytes::copy_from_slice(&d[self.pos..end]))
            } else {
                None
            }
        };
        match chunk {
            Some(c) => {
                self.pos += c.len();
                Poll::Ready(Some(Ok(c)))
            }
            None => {
                self.done = true;
                Poll::Ready(None)
            }
        }
    }
}

impl SpillFile for MemFile {
    fn size(&self) -> Option<u64> {
        Some(self.data.lock().unwrap().len() as u64)
    }
    fn read_stream(&self) -> Result<Pin<Box<dyn Stream<Item = Result<Bytes>> + Send>>> {
        Ok(Box::pin(MemRead {
            data: Arc::clone(&self.data),
            pos: 0,
            chunk: self.faults.chunk.load(SeqCst).max(1),
            done: false,
        }))
    }
    fn open_writer(&self) -> Result<Box<dyn SpillWriter>> {
        Ok(Box::new(MemWriter { data: Arc::clone(&self.data), faults: Arc::clone(&self.faults) }))
    }
}

struct MemFactory {
    faults: Arc<Faults>,
}

/// events sent by a push that runs on its own thread
enum Ev {
    /// the push is inside `create_in_progress_file` (it holds no lock there) and waits
    AtGate(usize),
    Done(usize, bool),
}

struct Gate {
    w: usize,
    tx: std::sync::mpsc::Sender<Ev>,
    release: std::sync::mpsc::Receiver<()>,
}

thread_local! {
    /// set on threads that run a gated push: `create_temp_file` reports and blocks until released
    static GATE: std::cell::RefCell<Option<Gate>> = const { std::cell::RefCell::new(None) };
}

impl TempFileFactory for MemFactory {
    fn create_temp_file(&self, _description: &str) -> Result<Arc<dyn SpillFile>> {
        GATE.with(|g| {
            if let Some(gate) = g.borrow().as_ref() {
                let _ = gate.tx.send(Ev::AtGate(gate.w));
                let _ = gate.release.recv();
            }
        });
        if self.faults.fail_create.load(SeqCst) {
            self.faults.fired_create.store(true, SeqCst);
            return Err(DataFusionError::Execution("injected create failure".into()));
        }
        self.faults.created.fetch_add(1, SeqCst);
        Ok(Arc::new(MemFile { data: Arc::new(Mutex::new(vec![])), faults: Arc::clone(&self.faults) }))
    }
}

// ------------------------------------------------------------------ manual waker

/// The reader's waker, built on a `RawWakerVTable` so that `clone` can be hooked: the code under
/// test clones the waker exactly when it registers it (`register_waker(cx.waker().clone())`), i.e.
/// inside the check-then-register region.  When armed, the k-th clone releases a writer thread and
/// gives it a bounded moment to run *at that point of the reader's region*.
#[derive(Default)]
struct WakeFlag {
    woken: AtomicBool,
    count: AtomicUsize,
    armed: Mutex<Option<Armed>>,
}

struct Armed {
    at_clone: usize,
    seen: usize,
    release: std::sync::mpsc::Sender<()>,
    done: std::sync::mpsc::Receiver<bool>,
    timeout: std::time::Duration,
    fired: bool,
    /// the writer's operation ran to completion while the reader was inside `clone`
    done_in_gap: Option<bool>,
}

impl WakeFlag {
    fn on_clone(&self) {
        let mut g = self.armed.lock().unwrap();
        if let Some(a) = g.as_mut() {
            if !a.fired {
                a.seen += 1;
                if a.seen == a.at_clone {
                    a.fired = true;
                    let _ = a.release.send(());
                    a.done_in_gap = a.done.recv_timeout(a.timeout).ok();
                }
            }
        }
    }
    fn arm(&self, at_clone: usize, release: std::sync::mpsc::Sender<()>, done: std::sync::mpsc::Receiver<bool>, timeout: std::time::Duration) {
        *self.armed.lock().unwrap() = Some(Armed { at_clone, seen: 0, release, done, timeout, fired: false, done_in_gap: None });
    }
    fn disarm(&self) -> Armed {
        self.armed.lock().unwrap().take().expect("armed")
    }
}

mod rawwaker {
    use super::WakeFlag;
    use std::sync::Arc;
    use std::sync::atomic::Ordering::SeqCst;
    use std::task::{RawWaker, RawWakerVTable, Waker};

    static VTABLE: RawWakerVTable = RawWakerVTable::new(clone, wake, wake_by_ref, drop_raw);

    unsafe fn clone(p: *const ()) -> RawWaker {
        unsafe {
            Arc::increment_strong_count(p as *const WakeFlag);
            (*(p as *const WakeFlag)).on_clone();
        }
        RawWaker::new(p, &VTABLE)
    }
    unsafe fn wake(p: *const ()) {
        let a = unsafe { Arc::from_raw(p as *const WakeFlag) };
        a.woken.store(true, SeqCst);
        a.count.fetch_add(1, SeqCst);
    }
    unsafe fn wake_by_ref(p: *const ()) {
        let a = unsafe { &*(p as *const WakeFlag) };
        a.woken.store(true, SeqCst);
        a.count.fetch_add(1, SeqCst);
    }
    unsafe fn drop_raw(p: *const ()) {
        drop(unsafe { Arc::from_raw(p as *const WakeFlag) });
    }
    pub fn make(flag: &Arc<WakeFlag>) -> Waker {
        let p = Arc::into_raw(Arc::clone(flag)) as *const ();
        unsafe { Waker::from_raw(RawWaker::new(p, &VTABLE)) }
    }
}

// ------------------------------------------------------------------ histories

#[derive(Clone, Copy, Debug, PartialEq, Eq, PartialOrd, Ord)]
enum Fault {
    None,
    Create,
    /// fail every `write` after `k` more successful write calls
    Write(i64),
    Flush,
    Finish,
    /// disk backend only: disk limit = current usage + `n` bytes during the push
    DiskLimit(u64),
}

#[derive(Clone, Copy, Debug)]
enum Op {
    Push { w: usize, id: usize, rows: usize, fault: Fault },
    PushEmpty { w: usize },
    /// `SpillPoolWriter::clone` (sink = false) or `new_sink` (sink = true)
    Clone { w: usize, sink: bool },
    Drop { w: usize },
    Poll,
    /// `push_batch` on its own thread; if it has to create a file it stops inside
    /// `create_in_progress_file` (between the two pool-lock regions) until `PushCont`
    PushBegin { w: usize, id: usize, rows: usize, fault: Fault },
    /// lets the stopped push of sink `w` run to completion (ignored if none is stopped)
    PushCont { w: usize, fault: Fault },
    /// reader poll during which — at the `k`-th `Waker::clone`, i.e. inside the reader's
    /// check-then-register region — a writer thread is released to perform `wop`.
    /// `must_wake`: `wop` is the event the reader waits for, so its waker has to be woken.
    GapPoll { k: usize, wop: GapOp, must_wake: bool },
}

#[derive(Clone, Copy, Debug)]
enum GapOp {
    Push { w: usize, id: usize, rows: usize, fault: Fault },
    Drop { w: usize },
}

/// how long the reader waits inside `Waker::clone` for the released writer (calibrated at start)
static GAP_WAIT_US: std::sync::atomic::AtomicU64 = std::sync::atomic::AtomicU64::new(20_000);

struct InFlight {
    id: usize,
    worker: usize,
    release: std::sync::mpsc::Sender<()>,
}

type Job = Box<dyn FnOnce() + Send>;

/// long-lived threads that run the gated pushes (spawning a thread per push is far too slow)
fn workers() -> &'static Vec<Mutex<std::sync::mpsc::Sender<Job>>> {
    static POOL: std::sync::OnceLock<Vec<Mutex<std::sync::mpsc::Sender<Job>>>> = std::sync::OnceLock::new();
    POOL.get_or_init(|| {
        (0..6)
            .map(|_| {
                let (tx, rx) = std::sync::mpsc::channel::<Job>();
                std::thread::spawn(move || {
                    for job in rx {
                        job();
                    }
                });
                Mutex::new(tx)
            })
            .collect()
    })
}

enum Sink {
    W(SpillPoolWriter),
    S(SpillPoolSink),
}
impl Sink {
    fn push(&self, b: &RecordBatch) -> Result<()> {
        match self {
            Sink::W(w) => w.push_batch(b),
            Sink::S(s) => s.push_batch(b),
        }
    }
}

fn schema() -> SchemaRef {
    Arc::new(Schema::new(vec![Field::new("id", DataType::Int32, false)]))
}

fn batch(id: usize, rows: usize) -> RecordBatch {
    RecordBatch::try_new(schema(), vec![Arc::new(Int32Array::from(vec![id as i32; rows]))]).unwrap()
}

fn batch_id(b: &RecordBatch) -> Option<usize> {
    let a = b.column(0).as_any().downcast_ref::<Int32Array>()?;
    if a.is_empty() {
        return None;
    }
    let v = a.value(0);
    if a.values().iter().all(|x| *x == v) { Some(v as usize) } else { None }
}

#[derive(Clone, Debug, PartialEq, Eq)]
enum PollRes {
    Batch(usize),
    Pending,
    Eos,
    Err(String),
}
impl PollRes {
    fn show(&self) -> String {
        match self {
            PollRes::Batch(b) => format!("b{b}"),
            PollRes::Pending => "pending".into(),
            PollRes::Eos => "eos".into(),
            PollRes::Err(_) => "err".into(),
        }
    }
}

struct PushRec {
    id: usize,
    ok: bool,
    /// the batch was appended and flushed (push Ok, or Err only from the rotation finish)
    accepted: bool,
}

/// one channel + everything observed on it
struct World {
    disk: Option<Arc<DiskManager>>,
    faults: Arc<Faults>,
    sinks: Vec<Option<Arc<Sink>>>,
    inflight: std::collections::BTreeMap<usize, InFlight>,
    ev_tx: std::sync::mpsc::Sender<Ev>,
    ev_rx: std::sync::mpsc::Receiver<Ev>,
    reader: SendableRecordBatchStream,
    flag: Arc<WakeFlag>,
    waker: Waker,
    rt: Option<Arc<tokio::runtime::Runtime>>,
    pushes: Vec<PushRec>,
    delivered: Vec<usize>,
    cloned: bool,
    live: usize,
    parked_unwoken_before_poll: bool,
    last_pending: bool,
    saw_eos: bool,
    has_gap: bool,
    // oracle failures: (signature kind, detail)
    fails: Vec<(String, String)>,
    kinds: BTreeSet<&'static str>,
}

impl World {
    fn new(max: usize, mpsc: bool, chunk: usize, disk: bool, rt: Option<Arc<tokio::runtime::Runtime>>) -> World {
        let faults = Arc::new(Faults::default());
        faults.clear();
        faults.chunk.store(chunk, SeqCst);
        let builder = if disk {
            DiskManagerBuilder::default().with_mode(DiskManagerMode::OsTmpDirectory).with_max_temp_directory_size(1 << 40)
        } else {
            DiskManagerBuilder::default().with_mode(DiskManagerMode::Custom(Arc::new(MemFactory { faults: Arc::clone(&faults) })))
        };
        let env = Arc::new(RuntimeEnvBuilder::new().with_disk_manager_builder(builder).build().unwrap());
        let dm = if disk { Some(Arc::clone(&env.disk_manager)) } else { None };
        let metrics = SpillMetrics::new(&ExecutionPlanMetricsSet::new(), 0);
        let sm = Arc::new(SpillManager::new(env, metrics, schema()));
        let (sink, reader) = if mpsc {
            let (w, r) = spill_pool::mpsc_channel(max, sm);
            (Sink::W(w), r)
        } else {
            let (w, r) = spill_pool::spsc_channel(max, sm);
            (Sink::S(w), r)
        };
        let flag = Arc::new(WakeFlag::default());
        let waker = rawwaker::make(&flag);
        let (ev_tx, ev_rx) = std::sync::mpsc::channel();
        World {
            inflight: Default::default(),
            ev_tx,
            ev_rx,
            disk: dm,
            faults,
            sinks: vec![Some(Arc::new(sink))],
            reader,
            flag,
            waker,
            rt,
            pushes: vec![],
            delivered: vec![],
            cloned: false,
            live: 1,
            parked_unwoken_before_poll: false,
            last_pending: false,
            saw_eos: false,
            has_gap: false,
            fails: vec![],
            kinds: BTreeSet::new(),
        }
    }

    fn fail(&mut self, kind: &str, detail: String) {
        if !self.fails.iter().any(|(k, _)| k == kind) {
            self.fails.push((kind.to_string(), detail));
        }
    }

    fn set_fault(&self, fault: Fault) {
        self.faults.clear();
        match fault {
            Fault::None => {}
            Fault::Create => self.faults.fail_create.store(true, SeqCst),
            Fault::Write(k) => self.faults.writes_left.store(k, SeqCst),
            Fault::Flush => self.faults.fail_flush.store(true, SeqCst),
            Fault::Finish => self.faults.fail_finish.store(true, SeqCst),
            Fault::DiskLimit(_) => {}
        }
        if let (Some(dm), Fault::Write(_) | Fault::DiskLimit(_)) = (&self.disk, fault) {
            let lim = match fault {
                Fault::DiskLimit(n) => dm.used_disk_space() + n,
                _ => 0,
            };
            dm.set_max_temp_directory_size(lim).unwrap();
        }
    }

    /// bookkeeping after a `push_batch` call returned; gives the environment flags `c a f`
    fn finish_push(&mut self, id: usize, ok: bool) -> String {
        if let Some(dm) = &self.disk {
            dm.set_max_temp_directory_size(1 << 40).unwrap();
        }
        let (c, a, f) = (
            !self.faults.fired_create.load(SeqCst),
            !self.faults.fired_append.load(SeqCst),
            !self.faults.fired_finish.load(SeqCst),
        );
        self.faults.clear();
        let accepted = ok || (c && a && !f);
        self.pushes.push(PushRec { id, ok, accepted });
        self.kinds.insert(if ok {
            "push-ok"
        } else if !c {
            "push-fail-create"
        } else if !a {
            "push-fail-append"
        } else {
            "push-fail-finish"
        });
        let t = |x: bool| if x { "t" } else { "f" };
        format!("{} {} {}", t(c), t(a), t(f))
    }

    /// (request piece, result text)
    fn push(&mut self, w: usize, id: usize, rows: usize, fault: Fault) -> (String, String) {
        let b = batch(id, rows);
        let sz = b.get_array_memory_size();
        self.set_fault(fault);
        let res = self.sinks[w].as_ref().unwrap().push(&b);
        let ok = res.is_ok();
        let env = self.finish_push(id, ok);
        (format!("(push {w} {id} {sz} {env})"), if ok { "ok".into() } else { "err".into() })
    }

    /// starts `push_batch` on a thread of its own; it either completes (it found an open file) or
    /// stops inside `create_in_progress_file`
    fn push_begin(&mut self, w: usize, id: usize, rows: usize, fault: Fault) -> (String, String) {
        let b = batch(id, rows);
        let sz = b.get_array_memory_size();
        self.set_fault(fault);
        let sink = Arc::clone(self.sinks[w].as_ref().unwrap());
        let tx = self.ev_tx.clone();
        let (rel_tx, rel_rx) = std::sync::mpsc::channel();
        let busy: Vec<usize> = self.inflight.values().map(|f| f.worker).collect();
        let worker = (0..workers().len()).find(|i| !busy.contains(i)).expect("a free worker thread");
        let job: Job = Box::new(move || {
            GATE.with(|g| *g.borrow_mut() = Some(Gate { w, tx: tx.clone(), release: rel_rx }));
            let ok = sink.push(&b).is_ok();
            drop(sink);
            GATE.with(|g| *g.borrow_mut() = None);
            let _ = tx.send(Ev::Done(w, ok));
        });
        workers()[worker].lock().unwrap().send(job).unwrap();
        match self.ev_rx.recv().unwrap() {
            Ev::AtGate(_) => {
                // no I/O has happened yet; the fault of this op is void, the continuation has its own
                self.faults.clear();
                self.inflight.insert(w, InFlight { id, worker, release: rel_tx });
                self.kinds.insert("push-stopped-in-create");
                (format!("(pushb {w} {id} {sz} t t t)"), "gate".into())
            }
            Ev::Done(_, ok) => {
                let env = self.finish_push(id, ok);
                (format!("(pushb {w} {id} {sz} {env})"), if ok { "ok".into() } else { "err".into() })
            }
        }
    }

    fn push_cont(&mut self, w: usize, fault: Fault) -> Option<(String, String)> {
        let fl = self.inflight.remove(&w)?;
        self.set_fault(fault);
        fl.release.send(()).unwrap();
        let ok = match self.ev_rx.recv().unwrap() {
            Ev::Done(_, ok) => ok,
            Ev::AtGate(_) => unreachable!("a push creates at most one file"),
        };
        let env = self.finish_push(fl.id, ok);
        Some((format!("(pushc {w} {env})"), if ok { "ok".into() } else { "err".into() }))
    }

    /// one reader poll with a writer operation released inside the reader's registration region
    fn gap_poll(&mut self, k: usize, wop: GapOp, must_wake: bool, hist: &str) -> (String, String) {
        self.has_gap = true;
        let (rel_tx, rel_rx) = std::sync::mpsc::channel::<()>();
        let (done_tx, done_rx) = std::sync::mpsc::channel::<bool>();
        let piece;
        let job: Job = match wop {
            GapOp::Push { w, id, rows, fault } => {
                let b = batch(id, rows);
                piece = format!("(gappoll {k} (push {w} {id} {} {fault:?}))", b.get_array_memory_size());
                self.set_fault(fault);
                let sink = Arc::clone(self.sinks[w].as_ref().unwrap());
                Box::new(move || {
                    let _ = rel_rx.recv();
                    let ok = sink.push(&b).is_ok();
                    drop(sink);
                    let _ = done_tx.send(ok);
                })
            }
            GapOp::Drop { w } => {
                piece = format!("(gappoll {k} (drop {w}))");
                let sink = self.sinks[w].take().unwrap();
                Box::new(move || {
                    let _ = rel_rx.recv();
                    drop(sink);
                    let _ = done_tx.send(true);
                })
            }
        };
        let busy: Vec<usize> = self.inflight.values().map(|f| f.worker).collect();
        let worker = (0..workers().len()).find(|i| !busy.contains(i)).expect("a free worker thread");
        workers()[worker].lock().unwrap().send(job).unwrap();
        let wait = std::time::Duration::from_micros(GAP_WAIT_US.load(SeqCst));
        self.flag.arm(k, rel_tx.clone(), done_rx, wait);
        let h = format!("{hist} {piece})");
        let r = self.poll(&h);
        let armed = self.flag.disarm();
        if !armed.fired {
            // the poll registered nothing (it returned Ready): the writer runs after it
            let _ = rel_tx.send(());
        }
        let ok = match armed.done_in_gap {
            Some(ok) => ok,
            None => match armed.done.recv_timeout(std::time::Duration::from_secs(60)) {
                Ok(ok) => ok,
                Err(_) => {
                    eprintln!("C16 harness: the writer operation released inside the reader's registration region did not finish within 60 s (deadlock?); history {h}");
                    std::process::exit(3);
                }
            },
        };
        match wop {
            GapOp::Push { id, .. } => {
                let _ = self.finish_push(id, ok);
            }
            GapOp::Drop { .. } => {
                self.live -= 1;
                self.kinds.insert(if self.live == 0 { "drop-last" } else { "drop-nonlast" });
            }
        }
        self.kinds.insert(if armed.fired { "gap-fired" } else { "gap-not-reached" });
        if armed.fired && armed.done_in_gap.is_some() {
            self.kinds.insert("gap-writer-ran-inside-region");
        }
        let woken = self.flag.woken.load(SeqCst);
        let mut res = format!("{}{}", r.show(), if woken { "+woken" } else { "" });
        if armed.fired && r == PollRes::Pending && !woken {
            // nobody woke the reader although the writer's operation is complete: it must have
            // nothing to get, i.e. an immediate re-poll must be Pending again
            let r2 = self.poll(&format!("{h} then (poll)"));
            res.push_str(&format!(",repoll={}", r2.show()));
            if must_wake || r2 != PollRes::Pending {
                self.fail(
                    "lost-wakeup-gap",
                    format!(
                        "the writer operation {wop:?} was released at Waker::clone #{k} of a reader poll that returned Pending (the operation {} while the reader was inside clone); it has completed, the reader's waker was never woken, and an immediate re-poll returned {} ; history {h}",
                        if armed.done_in_gap.is_some() { "ran to completion" } else { "was blocked" },
                        r2.show()
                    ),
                );
            }
        }
        (piece, res)
    }

    fn clone_sink(&mut self, w: usize, sink: bool) {
        let new = match self.sinks[w].as_ref().unwrap().as_ref() {
            Sink::W(x) => {
                if sink {
                    Sink::S(x.new_sink())
                } else {
                    Sink::W(x.clone())
                }
            }
            Sink::S(_) => unreachable!("the generator clones only SpillPoolWriter"),
        };
        self.sinks.push(Some(Arc::new(new)));
        self.cloned = true;
        self.live += 1;
        self.kinds.insert("clone");
    }

    fn drop_sink(&mut self, w: usize) {
        self.sinks[w] = None;
        self.live -= 1;
        self.kinds.insert(if self.live == 0 { "drop-last" } else { "drop-nonlast" });
    }

    fn poll_once(&mut self) -> PollRes {
        let mut cx = Context::from_waker(&self.waker);
        let _guard = self.rt.as_ref().map(|rt| rt.enter());
        match self.reader.poll_next_unpin(&mut cx) {
            Poll::Pending => PollRes::Pending,
            Poll::Ready(None) => PollRes::Eos,
            Poll::Ready(Some(Err(e))) => PollRes::Err(e.to_string()),
            Poll::Ready(Some(Ok(b))) => match batch_id(&b) {
                Some(id) => PollRes::Batch(id),
                None => PollRes::Err("delivered batch is not one of the pushed batches".into()),
            },
        }
    }

    /// one `poll_next` with the manual waker, plus the per-poll oracles
    fn poll(&mut self, hist: &str) -> PollRes {
        self.parked_unwoken_before_poll = self.last_pending && !self.flag.woken.load(SeqCst);
        self.flag.woken.store(false, SeqCst);
        let r = self.poll_once();
        self.observe(&r, hist);
        r
    }

    fn observe(&mut self, r: &PollRes, hist: &str) {
        match r {
            PollRes::Pending => {
                self.kinds.insert("poll-pending");
                if self.live == 0 {
                    self.fail("reader-stranded", format!("poll returned Pending although every sink had been dropped; history {hist}; delivered so far {:?}", self.delivered));
                }
            }
            PollRes::Batch(id) => {
                self.kinds.insert(if self.live > 0 { "poll-batch-live" } else { "poll-batch-after-drop" });
                let accepted = self.pushes.iter().any(|p| p.id == *id && p.accepted);
                if !accepted || self.delivered.contains(id) {
                    self.fail("delivered-once", format!("batch {id} delivered {} ; history {hist}", if accepted { "twice" } else { "although no push of it was accepted" }));
                }
                if !self.cloned && self.delivered.last().is_some_and(|l| l > id) {
                    self.fail("spsc-order", format!("single writer: batch {id} delivered after batch {:?}; history {hist}", self.delivered.last()));
                }
                self.delivered.push(*id);
            }
            PollRes::Eos => {
                self.kinds.insert("poll-eos");
                self.saw_eos = true;
                let missing: Vec<usize> = self.pushes.iter().filter(|p| p.ok && !self.delivered.contains(&p.id)).map(|p| p.id).collect();
                if self.live > 0 || !missing.is_empty() {
                    self.fail("eos-early", format!("EOS with {} live sink(s), undelivered accepted batches {:?}; history {hist}", self.live, missing));
                }
            }
            PollRes::Err(e) => {
                self.fail("reader-error", format!("poll returned Err({e}); history {hist}"));
            }
        }
        if self.parked_unwoken_before_poll && !matches!(r, PollRes::Pending) {
            self.fail("lost-wakeup", format!("reader was Pending and never woken, yet the next poll returned {}; history {hist}", r.show()));
        }
        self.last_pending = matches!(r, PollRes::Pending);
    }

    fn status(&self) -> String {
        let files = if self.disk.is_some() { "_".to_string() } else { self.faults.created.load(SeqCst).to_string() };
        format!("/{}/{}", if self.flag.woken.load(SeqCst) { "w" } else { "-" }, files)
    }

    fn live_sinks(&self) -> Vec<usize> {
        (0..self.sinks.len()).filter(|i| self.sinks[*i].is_some()).collect()
    }
    fn undelivered(&self) -> usize {
        self.pushes.iter().filter(|p| p.accepted && !self.delivered.contains(&p.id)).count()
    }
}

/// runs `ops` (then drops every remaining sink and drains) on a fresh `mem` world; returns the
/// request, the answers, and the world for inspection
fn run_mem(max: usize, mpsc: bool, chunk: usize, ops: &[Op]) -> (String, String, World) {
    PROGRESS.fetch_add(1, SeqCst);
    if PROGRESS.load(SeqCst) % 64 == 0 {
        *LAST_CASE.lock().unwrap() = format!("max={max} mpsc={mpsc} ops={ops:?}");
    }
    let mut wd = World::new(max, mpsc, chunk, false, None);
    let mut req = format!("({max} mem");
    let mut ans: Vec<String> = vec![];
    let mut step = |wd: &mut World, op: Op, req: &mut String, ans: &mut Vec<String>| {
        let (piece, res) = match op {
            Op::Push { w, id, rows, fault } => wd.push(w, id, rows, fault),
            Op::PushEmpty { w } => {
                let r = wd.sinks[w].as_ref().unwrap().push(&batch(0, 0));
                wd.kinds.insert("push-empty");
                (format!("(pushe {w})"), if r.is_ok() { "ok".into() } else { "err".into() })
            }
            Op::Clone { w, sink } => {
                wd.clone_sink(w, sink);
                (format!("(clone {w})"), "ok".into())
            }
            Op::Drop { w } => {
                wd.drop_sink(w);
                (format!("(drop {w})"), "ok".into())
            }
            Op::Poll => {
                let h = format!("{req} (poll))");
                let r = wd.poll(&h);
                ("(poll)".to_string(), r.show())
            }
            Op::PushBegin { w, id, rows, fault } => wd.push_begin(w, id, rows, fault),
            Op::PushCont { w, fault } => match wd.push_cont(w, fault) {
                Some(x) => x,
                None => return,
            },
            Op::GapPoll { k, wop, must_wake } => wd.gap_poll(k, wop, must_wake, req),
        };
        req.push(' ');
        req.push_str(&piece);
        ans.push(format!("{res}{}", wd.status()));
    };
    for op in ops {
        step(&mut wd, *op, &mut req, &mut ans);
    }
    // closing phase: let stopped pushes finish, drop what is left, then the reader must reach EOS
    // without ever being Pending
    let stopped: Vec<usize> = wd.inflight.keys().copied().collect();
    for w in stopped {
        step(&mut wd, Op::PushCont { w, fault: Fault::None }, &mut req, &mut ans);
    }
    for w in wd.live_sinks() {
        step(&mut wd, Op::Drop { w }, &mut req, &mut ans);
    }
    let bound = wd.undelivered() + 1;
    let mut polls = 0;
    while !wd.saw_eos && polls < bound + 2 {
        step(&mut wd, Op::Poll, &mut req, &mut ans);
        polls += 1;
    }
    req.push(')');
    if !wd.saw_eos || polls > bound {
        let d = format!("after all sinks were dropped the reader did not reach EOS within {bound} poll(s) ({polls} made, EOS seen: {}); delivered {:?}; history {req}", wd.saw_eos, wd.delivered);
        wd.fail("reader-stranded", d);
    }
    (req, ans.join(" "), wd)
}

fn record(run: &mut Run, req: &str, ans: &str, wd: &World, tag: &str) {
    for k in &wd.kinds {
        run.count(k);
    }
    let files = wd.faults.created.load(SeqCst);
    if files > 1 {
        run.count("multi-file");
    }
    let mut kinds = wd.kinds.len();
    if files > 1 {
        kinds += 1;
    }
    if wd.has_gap {
        // a writer ran concurrently with one poll: checked by the oracles only (the per-op waker
        // flag of that poll is a race), not sent to the model
        run.count("gap-histories");
        if run.samples.len() < 5 && run.counters.get("gap-histories") == Some(&1) {
            run.samples.push(format!("C16 gap-history {req} => {ans}"));
        }
    } else {
        run.case("run", req, ans, kinds >= 5);
    }
    for kind in ["delivered-once", "spsc-order", "eos-early", "lost-wakeup", "lost-wakeup-gap", "reader-stranded", "reader-error"] {
        let f = wd.fails.iter().find(|(k, _)| k == kind);
        run.oracle(f.is_none(), &format!("{kind} {tag} hist={req}"), f.map(|x| x.1.as_str()).unwrap_or(""));
    }
}

// ------------------------------------------------------------------ watchdog (a deadlock between the two lock levels would hang the harness)

static PROGRESS: std::sync::atomic::AtomicU64 = std::sync::atomic::AtomicU64::new(0);
static LAST_CASE: Mutex<String> = Mutex::new(String::new());

fn start_watchdog() {
    std::thread::spawn(|| {
        let mut last = u64::MAX;
        let mut idle = 0;
        loop {
            std::thread::sleep(std::time::Duration::from_secs(5));
            let p = PROGRESS.load(SeqCst);
            if p == last {
                idle += 1;
            } else {
                idle = 0;
                last = p;
            }
            if idle >= 36 {
                eprintln!("C16 harness: no progress for 180 s (deadlock?) while running history: {}", LAST_CASE.lock().unwrap());
                std::process::exit(3);
            }
        }
    });
}

// ------------------------------------------------------------------ generators

const ROWS_SMALL: usize = 10;
const ROWS_LARGE: usize = 1000;

fn pick_fault(rng: &mut Rng) -> Fault {
    match rng.below(100) {
        0..=59 => Fault::None,
        60..=67 => Fault::Create,
        68..=75 => Fault::Write(0),
        76..=79 => Fault::Write(1),
        80..=83 => Fault::Write(2),
        84..=86 => Fault::Write(rng.range(3, 9)),
        87..=91 => Fault::Flush,
        _ => Fault::Finish,
    }
}

fn pick_max(rng: &mut Rng) -> usize {
    let s = batch(0, ROWS_SMALL).get_array_memory_size();
    let l = batch(0, ROWS_LARGE).get_array_memory_size();
    *rng.pick(&[0, s - 1, s, 2 * s, 2 * s + 1, 3 * s, l, l + s, 1 << 30, 1 << 30])
}

/// random sequential history; `disk_ok` restricts faults to those a disk limit can produce
fn random_history(rng: &mut Rng, len: usize, mpsc: bool, disk_ok: bool, gated: bool) -> Vec<Op> {
    let mut ops = vec![];
    // sinks whose push may be stopped inside create_in_progress_file: only `PushCont`/clone until continued
    let mut stopped: Vec<usize> = vec![];
    let mut live: Vec<usize> = vec![0];
    let mut is_writer: Vec<bool> = vec![mpsc]; // SpillPoolWriter (clonable) vs SpillPoolSink
    let mut next_id = 1usize;
    let mut eos_polls = 0;
    for _ in 0..len {
        let c = rng.below(100);
        if live.is_empty() {
            // only the reader is left
            if eos_polls > 3 {
                break;
            }
            ops.push(Op::Poll);
            eos_polls += 1;
            continue;
        }
        let w = *rng.pick(&live);
        if stopped.contains(&w) {
            if rng.chance(1, 2) {
                ops.push(Op::PushCont { w, fault: pick_fault(rng) });
                stopped.retain(|x| *x != w);
            } else {
                ops.push(Op::Poll);
            }
            continue;
        }
        if gated && c < 45 && rng.chance(1, 2) {
            let rows = if rng.chance(1, 5) { ROWS_LARGE } else { ROWS_SMALL };
            ops.push(Op::PushBegin { w, id: next_id, rows, fault: pick_fault(rng) });
            next_id += 1;
            stopped.push(w);
            continue;
        }
        if c < 45 {
            let rows = if rng.chance(1, 5) { ROWS_LARGE } else { ROWS_SMALL };
            let mut fault = pick_fault(rng);
            if disk_ok {
                fault = match fault {
                    Fault::None => Fault::None,
                    Fault::Create | Fault::Flush | Fault::Finish => Fault::None,
                    Fault::Write(k) if k <= 1 => Fault::Write(0),
                    _ => {
                        if rows == ROWS_LARGE {
                            Fault::DiskLimit(600)
                        } else {
                            Fault::Write(0)
                        }
                    }
                };
            }
            ops.push(Op::Push { w, id: next_id, rows, fault });
            next_id += 1;
        } else if c < 48 {
            ops.push(Op::PushEmpty { w });
        } else if c < 58 && mpsc && live.len() < 4 {
            let cands: Vec<usize> = live.iter().copied().filter(|i| is_writer[*i]).collect();
            if let Some(&src) = cands.first() {
                let src = if cands.len() > 1 { *rng.pick(&cands) } else { src };
                let sink = rng.chance(1, 3);
                ops.push(Op::Clone { w: src, sink });
                live.push(is_writer.len());
                is_writer.push(!sink);
            } else {
                ops.push(Op::Poll);
            }
        } else if c < 70 {
            ops.push(Op::Drop { w });
            live.retain(|x| *x != w);
        } else {
            ops.push(Op::Poll);
        }
    }
    ops
}

/// per-thread programs whose interleavings are enumerated exhaustively
#[derive(Clone, Debug)]
enum POp {
    Push { rows: usize, fault: Fault },
    /// gated push: begin …
    PushB { rows: usize, fault: Fault },
    /// … and its continuation (a no-op when the begin did not have to create a file)
    PushC { fault: Fault },
    /// activates thread `child`
    Clone { child: usize, sink: bool },
    Drop,
}

struct Config {
    max: usize,
    mpsc: bool,
    chunk: usize,
    progs: Vec<Vec<POp>>,
    polls: usize,
}

fn random_config(rng: &mut Rng, nwriters: usize, max_ops: usize, polls: usize) -> Config {
    let mpsc = nwriters > 1 || rng.chance(1, 2);
    let mut progs: Vec<Vec<POp>> = vec![vec![]; nwriters];
    // who clones whom: thread i>0 is cloned by a random earlier thread that is a SpillPoolWriter
    let mut is_writer = vec![true; nwriters];
    let mut clone_of: Vec<Vec<(usize, bool)>> = vec![vec![]; nwriters];
    for i in 1..nwriters {
        let cands: Vec<usize> = (0..i).filter(|j| is_writer[*j]).collect();
        let p = *rng.pick(&cands);
        let sink = rng.chance(1, 3);
        is_writer[i] = !sink;
        clone_of[p].push((i, sink));
    }
    for i in 0..nwriters {
        let n = rng.below(max_ops as u64 + 1) as usize;
        let mut prog = vec![];
        for _ in 0..n {
            let rows = if rng.chance(1, 5) { ROWS_LARGE } else { ROWS_SMALL };
            if rng.chance(2, 5) {
                prog.push(POp::PushB { rows, fault: pick_fault(rng) });
                prog.push(POp::PushC { fault: pick_fault(rng) });
            } else {
                prog.push(POp::Push { rows, fault: pick_fault(rng) });
            }
        }
        for (child, sink) in &clone_of[i] {
            // a clone may also be taken while the sink's push is stopped (between PushB and PushC)
            let at = rng.below(prog.len() as u64 + 1) as usize;
            prog.insert(at, POp::Clone { child: *child, sink: *sink });
        }
        if rng.chance(3, 4) {
            prog.push(POp::Drop);
        }
        progs[i] = prog;
    }
    Config { max: pick_max(rng), mpsc, chunk: *rng.pick(&[7usize, 64, 4096, 1 << 20]), progs, polls }
}

/// all interleavings of the thread programs + `polls` reader polls (thread id = progs.len()),
/// respecting program order and clone-before-child; stops after `cap` schedules
fn interleavings(cfg: &Config, cap: usize) -> Option<Vec<Vec<usize>>> {
    let n = cfg.progs.len();
    let mut out = vec![];
    let mut pos = vec![0usize; n + 1];
    let mut active = vec![false; n];
    active[0] = true;
    let mut cur = vec![];
    fn rec(cfg: &Config, n: usize, pos: &mut Vec<usize>, active: &mut Vec<bool>, cur: &mut Vec<usize>, out: &mut Vec<Vec<usize>>, cap: usize) -> bool {
        let mut any = false;
        for t in 0..=n {
            let enabled = if t == n { pos[n] < cfg.polls } else { active[t] && pos[t] < cfg.progs[t].len() };
            if !enabled {
                continue;
            }
            any = true;
            let mut activated = None;
            if t < n {
                if let POp::Clone { child, .. } = cfg.progs[t][pos[t]] {
                    active[child] = true;
                    activated = Some(child);
                }
            }
            pos[t] += 1;
            cur.push(t);
            let ok = rec(cfg, n, pos, active, cur, out, cap);
            cur.pop();
            pos[t] -= 1;
            if let Some(c) = activated {
                active[c] = false;
            }
            if !ok {
                return false;
            }
        }
        if !any {
            if out.len() >= cap {
                return false;
            }
            out.push(cur.clone());
        }
        true
    }
    if rec(cfg, n, &mut pos, &mut active, &mut cur, &mut out, cap) { Some(out) } else { None }
}

/// turn a schedule of thread ids into a sequential history (writer indices are assigned in the
/// order the clones actually happen, as in the model)
fn schedule_ops(cfg: &Config, sched: &[usize]) -> Vec<Op> {
    let n = cfg.progs.len();
    let mut pos = vec![0usize; n];
    let mut widx: Vec<Option<usize>> = vec![None; n];
    widx[0] = Some(0);
    let mut nw = 1;
    let mut ops = vec![];
    for &t in sched {
        if t == n {
            ops.push(Op::Poll);
            continue;
        }
        let w = widx[t].unwrap();
        match &cfg.progs[t][pos[t]] {
            POp::Push { rows, fault } => ops.push(Op::Push { w, id: 1 + t * 16 + pos[t], rows: *rows, fault: *fault }),
            POp::PushB { rows, fault } => ops.push(Op::PushBegin { w, id: 1 + t * 16 + pos[t], rows: *rows, fault: *fault }),
            POp::PushC { fault } => ops.push(Op::PushCont { w, fault: *fault }),
            POp::Clone { child, sink } => {
                ops.push(Op::Clone { w, sink: *sink });
                widx[*child] = Some(nw);
                nw += 1;
            }
            POp::Drop => ops.push(Op::Drop { w }),
        }
        pos[t] += 1;
    }
    ops
}

/// every sequential history of at most `depth` ops over a small alphabet (≤ 3 sinks): per live
/// sink {push small ok, push small with failing append, push large ok, push small with failing
/// rotation finish, drop, clone}, plus reader poll
fn exhaustive_short(run: &mut Run, depth: usize, max: usize) {
    fn rec(run: &mut Run, max: usize, depth: usize, ops: &mut Vec<Op>, live: &mut Vec<usize>, nw: usize, next_id: usize) {
        if !ops.is_empty() {
            let (req, ans, wd) = run_mem(max, true, 4096, ops);
            record(run, &req, &ans, &wd, "short");
            run.count("short-histories");
        }
        if ops.len() == depth {
            return;
        }
        let cur_live = live.clone();
        // sinks whose last op was a gated begin that has not been continued yet
        let mut stopped: Vec<usize> = vec![];
        for op in ops.iter() {
            match op {
                Op::PushBegin { w, .. } => stopped.push(*w),
                Op::PushCont { w, .. } => stopped.retain(|x| x != w),
                _ => {}
            }
        }
        for &w in &cur_live {
            if stopped.contains(&w) {
                for fault in [Fault::None, Fault::Write(0)] {
                    ops.push(Op::PushCont { w, fault });
                    rec(run, max, depth, ops, live, nw, next_id);
                    ops.pop();
                }
                continue;
            }
            ops.push(Op::PushBegin { w, id: next_id, rows: ROWS_SMALL, fault: Fault::None });
            rec(run, max, depth, ops, live, nw, next_id + 1);
            ops.pop();
            for (rows, fault) in [(ROWS_SMALL, Fault::None), (ROWS_SMALL, Fault::Write(0)), (ROWS_LARGE, Fault::None), (ROWS_SMALL, Fault::Finish)] {
                ops.push(Op::Push { w, id: next_id, rows, fault });
                rec(run, max, depth, ops, live, nw, next_id + 1);
                ops.pop();
            }
            ops.push(Op::Drop { w });
            live.retain(|x| *x != w);
            rec(run, max, depth, ops, live, nw, next_id);
            *live = cur_live.clone();
            ops.pop();
            if nw < 3 {
                ops.push(Op::Clone { w, sink: false });
                live.push(nw);
                rec(run, max, depth, ops, live, nw + 1, next_id);
                *live = cur_live.clone();
                ops.pop();
            }
        }
        ops.push(Op::Poll);
        rec(run, max, depth, ops, live, nw, next_id);
        ops.pop();
    }
    rec(run, max, depth, &mut vec![], &mut vec![0], 1, 1);
}

// ------------------------------------------------------------------ forcing a writer into the reader's check-then-register region

/// round trip "release a parked worker thread -> it reports back" under the current machine load;
/// the reader waits 40x the worst of 16 samples (10 ms .. 400 ms) inside `Waker::clone`
fn calibrate_gap_wait() -> std::time::Duration {
    let mut worst = std::time::Duration::ZERO;
    for _ in 0..16 {
        let (rel_tx, rel_rx) = std::sync::mpsc::channel::<()>();
        let (done_tx, done_rx) = std::sync::mpsc::channel::<bool>();
        let job: Job = Box::new(move || {
            let _ = rel_rx.recv();
            let _ = done_tx.send(true);
        });
        workers()[0].lock().unwrap().send(job).unwrap();
        std::thread::sleep(std::time::Duration::from_micros(200));
        let t0 = std::time::Instant::now();
        rel_tx.send(()).unwrap();
        let _ = done_rx.recv();
        worst = worst.max(t0.elapsed());
    }
    let w = (worst * 40).clamp(std::time::Duration::from_millis(10), std::time::Duration::from_millis(400));
    GAP_WAIT_US.store(w.as_micros() as u64, SeqCst);
    w
}

/// the five situations in which the reader's registration must not race with the event it waits
/// for; `prefix` brings the channel there, the last op is the armed poll
fn gap_scenarios() -> Vec<(&'static str, bool, usize, Vec<Op>, GapOp)> {
    let s = batch(0, ROWS_SMALL).get_array_memory_size();
    let big = 1usize << 30;
    let push = |w, id, rows| Op::Push { w, id, rows, fault: Fault::None };
    let mut out: Vec<(&'static str, bool, usize, Vec<Op>, GapOp)> = vec![];
    for mpsc in [false, true] {
        // reader caught up on file 0 (still open); the push appends to file 0
        out.push(("file-wait+push", mpsc, big, vec![push(0, 1, ROWS_SMALL), Op::Poll], GapOp::Push { w: 0, id: 2, rows: ROWS_SMALL, fault: Fault::None }));
        // … and rotates it (append, finish, writer_finished)
        out.push(("file-wait+push-rotate", mpsc, 2 * s - 1, vec![push(0, 1, ROWS_SMALL), Op::Poll], GapOp::Push { w: 0, id: 2, rows: ROWS_SMALL, fault: Fault::None }));
        // … the append fails: the repaired error path finishes the file and wakes
        out.push(("file-wait+push-append-fails", mpsc, big, vec![push(0, 1, ROWS_SMALL), Op::Poll], GapOp::Push { w: 0, id: 2, rows: ROWS_SMALL, fault: Fault::Write(0) }));
        // … the rotation finish fails
        out.push(("file-wait+push-finish-fails", mpsc, 2 * s - 1, vec![push(0, 1, ROWS_SMALL), Op::Poll], GapOp::Push { w: 0, id: 2, rows: ROWS_SMALL, fault: Fault::Finish }));
        // … the last sink is dropped: Drop finalizes file 0
        out.push(("file-wait+last-drop", mpsc, big, vec![push(0, 1, ROWS_SMALL), Op::Poll], GapOp::Drop { w: 0 }));
        // the reader has already returned Pending once on file 0 (a stale registration exists)
        out.push(("file-wait-second-pending+push", mpsc, big, vec![push(0, 1, ROWS_SMALL), Op::Poll, Op::Poll], GapOp::Push { w: 0, id: 2, rows: ROWS_LARGE, fault: Fault::None }));
        // nothing queued, a sink is alive: the push publishes a new file
        out.push(("pool-wait+new-file", mpsc, big, vec![], GapOp::Push { w: 0, id: 1, rows: ROWS_SMALL, fault: Fault::None }));
        // … after a rotated and fully read file
        out.push(("pool-wait-after-rotation+new-file", mpsc, 0, vec![push(0, 1, ROWS_SMALL), Op::Poll], GapOp::Push { w: 0, id: 2, rows: ROWS_SMALL, fault: Fault::None }));
        // nothing queued and no open file: the last drop is the end of the stream
        out.push(("pool-wait+last-drop", mpsc, big, vec![], GapOp::Drop { w: 0 }));
        out.push(("pool-wait-after-rotation+last-drop", mpsc, 0, vec![push(0, 1, ROWS_SMALL), Op::Poll], GapOp::Drop { w: 0 }));
    }
    // two sinks: the other sink's push goes to the file the reader waits on; the last of two drops
    out.push(("file-wait+push-by-clone", true, big, vec![push(0, 1, ROWS_SMALL), Op::Clone { w: 0, sink: false }, Op::Poll], GapOp::Push { w: 1, id: 2, rows: ROWS_SMALL, fault: Fault::None }));
    out.push(("file-wait+last-of-two-drops", true, big, vec![push(0, 1, ROWS_SMALL), Op::Clone { w: 0, sink: true }, Op::Drop { w: 0 }, Op::Poll], GapOp::Drop { w: 1 }));
    out.push(("pool-wait+last-of-two-drops", true, big, vec![Op::Clone { w: 0, sink: false }, Op::Drop { w: 1 }], GapOp::Drop { w: 0 }));
    out
}

/// A miniature re-implementation of the channel's coordination (pool lock + per-file lock, same
/// regions as spill_pool.rs, no I/O), used ONLY to check on every run that the detector above
/// fires for the defect class it exists for: `Split::File` / `Split::Pool` perform the reader's
/// "caught up / nothing queued" check and the waker registration under two lock acquisitions.
mod mini {
    use parking_lot::Mutex;
    use std::collections::VecDeque;
    use std::sync::Arc;
    use std::task::{Context, Poll, Waker};

    pub struct FileSt {
        written: usize,
        finished: bool,
        waker: Option<Waker>,
    }
    pub struct PoolSt {
        files: VecDeque<Arc<Mutex<FileSt>>>,
        open: VecDeque<Arc<Mutex<FileSt>>>,
        count: usize,
        waker: Option<Waker>,
    }
    #[derive(Clone, Copy, PartialEq, Eq, Debug)]
    pub enum Split {
        None,
        File,
        Pool,
    }
    pub struct Writer {
        shared: Arc<Mutex<PoolSt>>,
        pub rotate_at: usize,
    }
    pub struct Reader {
        shared: Arc<Mutex<PoolSt>>,
        cur: Option<Arc<Mutex<FileSt>>>,
        read: usize,
        split: Split,
    }
    pub fn channel(rotate_at: usize, split: Split) -> (Writer, Reader) {
        let shared = Arc::new(Mutex::new(PoolSt { files: VecDeque::new(), open: VecDeque::new(), count: 1, waker: None }));
        (Writer { shared: Arc::clone(&shared), rotate_at }, Reader { shared, cur: None, read: 0, split })
    }
    impl Writer {
        pub fn push(&self) {
            let mut sh = self.shared.lock();
            let f = if let Some(f) = sh.open.pop_front() {
                f
            } else {
                drop(sh);
                let f = Arc::new(Mutex::new(FileSt { written: 0, finished: false, waker: None }));
                sh = self.shared.lock();
                sh.files.push_back(Arc::clone(&f));
                if let Some(w) = sh.waker.take() {
                    w.wake();
                }
                f
            };
            drop(sh);
            let mut fs = f.lock();
            fs.written += 1;
            if let Some(w) = fs.waker.take() {
                w.wake();
            }
            if fs.written >= self.rotate_at {
                fs.finished = true;
                if let Some(w) = fs.waker.take() {
                    w.wake();
                }
            } else {
                drop(fs);
                self.shared.lock().open.push_back(f);
            }
        }
    }
    impl Drop for Writer {
        fn drop(&mut self) {
            let mut sh = self.shared.lock();
            sh.count -= 1;
            if sh.count != 0 {
                return;
            }
            if !sh.open.is_empty() {
                let files = std::mem::take(&mut sh.open);
                drop(sh);
                for f in files {
                    let mut fs = f.lock();
                    fs.finished = true;
                    if let Some(w) = fs.waker.take() {
                        w.wake();
                    }
                }
                sh = self.shared.lock();
            }
            if let Some(w) = sh.waker.take() {
                w.wake();
            }
        }
    }
    enum FileRes {
        Item,
        End,
        Pending,
    }
    impl Reader {
        pub fn poll(&mut self, cx: &mut Context<'_>) -> Poll<Option<()>> {
            loop {
                if let Some(f) = self.cur.clone() {
                    let r = {
                        let mut fs = f.lock();
                        if self.read < fs.written {
                            self.read += 1;
                            FileRes::Item
                        } else if fs.finished {
                            FileRes::End
                        } else if self.split == Split::File {
                            // the seeded defect: check and register under two lock acquisitions
                            drop(fs);
                            let w = cx.waker().clone();
                            f.lock().waker = Some(w);
                            FileRes::Pending
                        } else {
                            fs.waker = Some(cx.waker().clone());
                            FileRes::Pending
                        }
                    };
                    match r {
                        FileRes::Item => return Poll::Ready(Some(())),
                        FileRes::End => {
                            self.shared.lock().files.pop_front();
                            self.cur = None;
                            self.read = 0;
                            continue;
                        }
                        FileRes::Pending => {
                            self.shared.lock().waker = Some(cx.waker().clone());
                            return Poll::Pending;
                        }
                    }
                }
                let mut sh = self.shared.lock();
                if let Some(f) = sh.files.front() {
                    self.cur = Some(Arc::clone(f));
                    self.read = 0;
                    continue;
                }
                if sh.count == 0 {
                    return Poll::Ready(None);
                }
                if self.split == Split::Pool {
                    drop(sh);
                    let w = cx.waker().clone();
                    self.shared.lock().waker = Some(w);
                    return Poll::Pending;
                }
                sh.waker = Some(cx.waker().clone());
                return Poll::Pending;
            }
        }
    }
}

#[derive(Clone, Copy, Debug, PartialEq, Eq)]
enum MiniScn {
    FilePush,
    FileRotate,
    FileLastDrop,
    PoolNewFile,
    PoolLastDrop,
}

/// runs one scenario of the detector on the miniature channel; true = "lost wake-up detected"
fn mini_probe(scn: MiniScn, split: mini::Split, wait: std::time::Duration) -> bool {
    let rotate_at = if scn == MiniScn::FileRotate { 2 } else { 1000 };
    let (writer, mut reader) = mini::channel(rotate_at, split);
    let flag = Arc::new(WakeFlag::default());
    let waker = rawwaker::make(&flag);
    let mut poll = |reader: &mut mini::Reader| {
        let mut cx = Context::from_waker(&waker);
        reader.poll(&mut cx)
    };
    if matches!(scn, MiniScn::FilePush | MiniScn::FileRotate | MiniScn::FileLastDrop) {
        writer.push();
        assert!(matches!(poll(&mut reader), Poll::Ready(Some(()))));
    }
    let (rel_tx, rel_rx) = std::sync::mpsc::channel::<()>();
    let (done_tx, done_rx) = std::sync::mpsc::channel::<bool>();
    let job: Job = Box::new(move || {
        let _ = rel_rx.recv();
        match scn {
            MiniScn::FilePush | MiniScn::FileRotate | MiniScn::PoolNewFile => {
                writer.push();
                let _ = done_tx.send(true);
                // the sink stays alive (its Drop would wake the pool and blur the observation)
                std::mem::forget(writer);
            }
            MiniScn::FileLastDrop | MiniScn::PoolLastDrop => {
                drop(writer);
                let _ = done_tx.send(true);
            }
        }
    });
    workers()[0].lock().unwrap().send(job).unwrap();
    flag.woken.store(false, SeqCst);
    flag.arm(1, rel_tx.clone(), done_rx, wait);
    let r = poll(&mut reader);
    let armed = flag.disarm();
    if !armed.fired {
        let _ = rel_tx.send(());
    }
    if armed.done_in_gap.is_none() {
        let _ = armed.done.recv_timeout(std::time::Duration::from_secs(60));
    }
    armed.fired && r.is_pending() && !flag.woken.load(SeqCst)
}

/// the detector must stay silent on the correct miniature channel and fire on the split ones
fn gap_selftest(run: &mut Run, wait: std::time::Duration) {
    use mini::Split;
    let all = [MiniScn::FilePush, MiniScn::FileRotate, MiniScn::FileLastDrop, MiniScn::PoolNewFile, MiniScn::PoolLastDrop];
    for scn in all {
        for split in [Split::None, Split::File, Split::Pool] {
            let file_level = matches!(scn, MiniScn::FilePush | MiniScn::FileRotate | MiniScn::FileLastDrop);
            let expect = match split {
                Split::None => false,
                Split::File => file_level,
                Split::Pool => !file_level,
            };
            // escalate the wait (machine load) before concluding that the detector is blind
            let mut w = wait;
            let mut got = mini_probe(scn, split, w);
            while expect && !got && w < std::time::Duration::from_secs(10) {
                w *= 4;
                got = mini_probe(scn, split, w);
            }
            if got != expect {
                eprintln!("C16 harness: self-test of the registration-gap detector failed: scenario {scn:?} on the miniature channel with split={split:?}: detected={got}, expected={expect}");
                std::process::exit(4);
            }
            run.count(if expect { "gap-selftest-split-detected" } else { "gap-selftest-silent" });
        }
    }
}

// ------------------------------------------------------------------ disk twin

/// the same history on real temp files; every push must answer like the `mem` twin and every
/// batch / EOS the twin delivered must arrive (generous deadline = hang detection only)
fn run_disk(max: usize, mpsc: bool, ops: &[Op], twin_ans: &[String], rt: &Arc<tokio::runtime::Runtime>) -> Vec<(String, String)> {
    PROGRESS.fetch_add(1, SeqCst);
    *LAST_CASE.lock().unwrap() = format!("disk max={max} mpsc={mpsc} ops={ops:?}");
    let mut wd = World::new(max, mpsc, 1, true, Some(Arc::clone(rt)));
    let mut fails: Vec<(String, String)> = vec![];
    let mut all: Vec<Op> = ops.to_vec();
    // closing phase identical to the twin's: its answers tell how many ops there were
    let mut live: Vec<usize> = vec![0];
    let mut nw = 1;
    for op in ops {
        match op {
            Op::Clone { .. } => {
                live.push(nw);
                nw += 1;
            }
            Op::Drop { w } => live.retain(|x| x != w),
            _ => {}
        }
    }
    for w in live {
        all.push(Op::Drop { w });
    }
    while all.len() < twin_ans.len() {
        all.push(Op::Poll);
    }
    for (i, op) in all.iter().enumerate() {
        let expect = twin_ans[i].split('/').next().unwrap_or("");
        match *op {
            Op::Push { w, id, rows, fault } => {
                let (_, res) = wd.push(w, id, rows, fault);
                if res != expect {
                    fails.push(("disk-push".into(), format!("op #{i} {op:?}: disk backend answered {res}, in-memory twin {expect}")));
                }
            }
            Op::PushEmpty { w } => {
                let _ = wd.sinks[w].as_ref().unwrap().push(&batch(0, 0));
            }
            Op::Clone { w, sink } => wd.clone_sink(w, sink),
            Op::Drop { w } => wd.drop_sink(w),
            Op::PushBegin { .. } | Op::PushCont { .. } | Op::GapPoll { .. } => unreachable!("disk histories are not gated"),
            Op::Poll => {
                let got = if expect == "pending" {
                    // one poll; file I/O may also make it Pending, anything Ready is a divergence
                    let mut r = PollRes::Pending;
                    rt.block_on(async {
                        std::future::poll_fn(|cx| {
                            r = match wd.reader.poll_next_unpin(cx) {
                                Poll::Pending => PollRes::Pending,
                                Poll::Ready(None) => PollRes::Eos,
                                Poll::Ready(Some(Err(e))) => PollRes::Err(e.to_string()),
                                Poll::Ready(Some(Ok(b))) => batch_id(&b).map(PollRes::Batch).unwrap_or(PollRes::Err("foreign batch".into())),
                            };
                            Poll::Ready(())
                        })
                        .await
                    });
                    r
                } else {
                    let r = rt.block_on(async { tokio::time::timeout(std::time::Duration::from_secs(20), wd.reader.next()).await });
                    match r {
                        Err(_) => PollRes::Pending,
                        Ok(None) => PollRes::Eos,
                        Ok(Some(Err(e))) => PollRes::Err(e.to_string()),
                        Ok(Some(Ok(b))) => batch_id(&b).map(PollRes::Batch).unwrap_or(PollRes::Err("foreign batch".into())),
                    }
                };
                if got.show() != expect {
                    let kind = if got == PollRes::Pending { "reader-stranded" } else { "disk-poll" };
                    fails.push((kind.into(), format!("op #{i} poll: disk backend gave {:?} (20 s deadline), in-memory twin {expect}", got)));
                    if got == PollRes::Pending {
                        break;
                    }
                }
            }
        }
    }
    fails
}

// ------------------------------------------------------------------ entry

pub fn run(run: &mut Run, args: &Args) {
    let mut rng = Rng::new(args.seed);
    let thorough = run.thorough() || args.tier == "search";
    start_watchdog();

    // (0) the history that stranded the reader on the pinned upstream code (DESIGN §7.1), first
    {
        let ops = vec![
            Op::Push { w: 0, id: 1, rows: ROWS_SMALL, fault: Fault::None },
            Op::Push { w: 0, id: 2, rows: ROWS_LARGE, fault: Fault::Write(0) },
            Op::Clone { w: 0, sink: false },
            Op::Push { w: 1, id: 3, rows: ROWS_SMALL, fault: Fault::None },
        ];
        let (req, ans, wd) = run_mem(1 << 30, true, 4096, &ops);
        record(run, &req, &ans, &wd, "regression-afaa1b3");
    }

    // (0b) every short history (depth 3 quick / 4 thorough), rotation after two small batches and never
    {
        let s = batch(0, ROWS_SMALL).get_array_memory_size();
        exhaustive_short(run, if thorough { 4 } else { 3 }, s + 1);
        if thorough {
            exhaustive_short(run, 3, 1 << 30);
        }
    }

    // (0c) a writer forced into the reader's check-then-register region (lost wake-up detector)
    {
        let wait = calibrate_gap_wait();
        run.note(&format!("registration-gap detector: the reader waits {} us inside Waker::clone for the released writer", wait.as_micros()));
        gap_selftest(run, wait);
        let reps = if thorough { 6 } else { 2 };
        for rep_i in 0..reps {
            for (name, mpsc, max, prefix, wop) in gap_scenarios() {
                for k in [1usize, 2] {
                    let mut ops = prefix.clone();
                    ops.push(Op::GapPoll { k, wop, must_wake: true });
                    let chunk = *rng.pick(&[7usize, 4096]);
                    let (req, ans, wd) = run_mem(max, mpsc, chunk, &ops);
                    record(run, &req, &ans, &wd, &format!("scenario={name} k={k} rep={rep_i}"));
                    run.count("gap-scenarios");
                }
            }
        }
        // random prefix, then a random writer operation released inside a reader poll
        let n_gap = if thorough { 4000 } else { 400 };
        for i in 0..n_gap {
            let mpsc = rng.chance(3, 4);
            let len = rng.below(10) as usize;
            let mut ops = random_history(&mut rng, len, mpsc, false, false);
            // keep a sink alive for the writer operation: cut the prefix before its last drop
            let mut alive = 1i64;
            let mut cut = ops.len();
            for (j, op) in ops.iter().enumerate() {
                match op {
                    Op::Clone { .. } => alive += 1,
                    Op::Drop { .. } => {
                        alive -= 1;
                        if alive == 0 {
                            cut = j;
                            break;
                        }
                    }
                    _ => {}
                }
            }
            ops.truncate(cut);
            let mut live: Vec<usize> = vec![0];
            let mut nw = 1;
            let mut next_id = 1;
            for op in &ops {
                match op {
                    Op::Clone { .. } => {
                        live.push(nw);
                        nw += 1;
                    }
                    Op::Drop { w } => live.retain(|x| x != w),
                    Op::Push { id, .. } => next_id = next_id.max(id + 1),
                    _ => {}
                }
            }
            if live.is_empty() {
                continue;
            }
            let w = *rng.pick(&live);
            let wop = if rng.chance(1, 3) {
                GapOp::Drop { w }
            } else {
                GapOp::Push { w, id: next_id, rows: if rng.chance(1, 4) { ROWS_LARGE } else { ROWS_SMALL }, fault: pick_fault(&mut rng) }
            };
            ops.push(Op::GapPoll { k: 1 + rng.below(2) as usize, wop, must_wake: false });
            let (req, ans, wd) = run_mem(pick_max(&mut rng), mpsc, 4096, &ops);
            record(run, &req, &ans, &wd, &format!("gaprand#{i}"));
        }
    }

    // (1) random sequential histories
    let n_rand = if thorough { 250_000 } else { 40_000 };
    for i in 0..n_rand {
        let mpsc = rng.chance(3, 4);
        let len = 3 + rng.below(if thorough { 28 } else { 18 }) as usize;
        let ops = random_history(&mut rng, len, mpsc, false, i % 2 == 1);
        let max = pick_max(&mut rng);
        let chunk = *rng.pick(&[7usize, 64, 4096, 1 << 20]);
        let (req, ans, wd) = run_mem(max, mpsc, chunk, &ops);
        record(run, &req, &ans, &wd, &format!("rand#{i}"));
    }

    // (2) exhaustive interleavings of small thread programs
    let n_cfg = if thorough { 900 } else { 250 };
    let cap = if thorough { 4000 } else { 400 };
    let mut done_cfg = 0;
    let mut tries = 0;
    while done_cfg < n_cfg && tries < n_cfg * 20 {
        tries += 1;
        let nwriters = 1 + rng.below(3) as usize;
        let max_ops = if thorough { 4 } else { 3 };
        let polls = 1 + rng.below(if thorough { 4 } else { 3 }) as usize;
        let cfg = random_config(&mut rng, nwriters, max_ops, polls);
        let Some(scheds) = interleavings(&cfg, cap) else { continue };
        done_cfg += 1;
        run.count("configs");
        run.count(&format!("config-writers-{nwriters}"));
        run.add("interleavings", scheds.len() as u64);
        for (j, sched) in scheds.iter().enumerate() {
            let ops = schedule_ops(&cfg, sched);
            let (req, ans, wd) = run_mem(cfg.max, cfg.mpsc, cfg.chunk, &ops);
            record(run, &req, &ans, &wd, &format!("cfg#{done_cfg}.{j}"));
        }
    }

    // (3) real temp files in lockstep with an in-memory twin
    let n_disk = if thorough { 4000 } else { 500 };
    let rt = Arc::new(tokio::runtime::Builder::new_current_thread().enable_all().build().unwrap());
    for i in 0..n_disk {
        let mpsc = rng.chance(3, 4);
        let len = 3 + rng.below(14) as usize;
        let ops = random_history(&mut rng, len, mpsc, true, false);
        let max = pick_max(&mut rng);
        // twin: a disk limit makes the append fail, like `Write(0)`
        let twin_ops: Vec<Op> = ops
            .iter()
            .map(|op| match *op {
                Op::Push { w, id, rows, fault: Fault::DiskLimit(_) } => Op::Push { w, id, rows, fault: Fault::Write(0) },
                o => o,
            })
            .collect();
        let (req, ans, wd) = run_mem(max, mpsc, 4096, &twin_ops);
        record(run, &req, &ans, &wd, &format!("twin#{i}"));
        let twin_ans: Vec<String> = ans.split(' ').map(|s| s.to_string()).collect();
        let fails = run_disk(max, mpsc, &ops, &twin_ans, &rt);
        run.count("disk-histories");
        for kind in ["disk-push", "disk-poll", "reader-stranded"] {
            let f = fails.iter().find(|(k, _)| k == kind);
            run.oracle(f.is_none(), &format!("{kind} disk#{i} hist={req}"), f.map(|x| x.1.as_str()).unwrap_or(""));
        }
    }
    run.note("mem backend: custom TempFileFactory with injected create/write/flush/finish failures; disk backend: DiskManager temp files with max_temp_directory_size forced to 0 / usage+600 around failing pushes");
}
