//! C16 — spill channels deliver every spilled batch exactly once and terminate.
//!
//! Tie (K): the real `spill_pool::{spsc_channel, mpsc_channel}` are driven sequentially with an
//! explicit op order (push / failing push / empty push / clone / new_sink / drop / reader poll) and a
//! manual `Waker`; every push result, every poll result (batch id / Pending / EOS), whether the
//! task's waker has been woken and the number of spill files created are compared op by op with
//! the coarse runs of the Lean state machine `Sm.SpillPool` (`fixed = true`).
//!
//! Backends:
//!  * `mem`  — a custom `TempFileFactory` (public `DiskManagerMode::Custom`) keeping files in
//!    memory: fully deterministic (no tokio blocking pool), with exact fault injection at
//!    `create_temp_file`, the k-th `write`, `flush` and `SpillWriter::finish`.  The `Env` sent to
//!    the model is what the *environment* did (which injected fault fired, and in which stage).
//!  * `disk` — the real `DiskManager` temp files; a push is made to fail through
//!    `set_max_temp_directory_size` (0, or a few hundred bytes above the current usage) around the
//!    call.  Run in lockstep with a `mem` twin of the same history (the twin is the case sent to
//!    the model); the disk world must answer every push and deliver every batch like the twin.
//!
//! Implementation-level oracles (no model involved):
//!   delivered-once   every delivered id was accepted by a push (Ok, or Err only in the rotation
//!                    `finish` after append+flush succeeded) and is delivered at most once
//!   spsc-order       without clones, delivery order = push order
//!   eos-early        EOS only after every sink is dropped and every accepted batch delivered
//!   lost-wakeup      a reader whose last poll was Pending and whose waker has not been woken
//!                    gets Pending again
//!   reader-stranded  after all sinks are dropped no poll is Pending and EOS arrives within
//!                    (#undelivered + 1) polls          <- fires if commit afaa1b3 is reverted
use std::collections::BTreeSet;
use std::io::Write;
use std::pin::Pin;
use std::sync::atomic::{AtomicBool, AtomicI64, AtomicUsize, Ordering::SeqCst};
use std::sync::{Arc, Mutex};
use std::task::{Context, Poll, Wake, Waker};

use arrow::array::{Array, Int32Array, RecordBatch};
use arrow::datatypes::{DataType, Field, Schema, SchemaRef};
use bytes::Bytes;
use datafusion_common::{DataFusionError, Result};
use datafusion_execution::disk_manager::{DiskManager, DiskManagerBuilder, DiskManagerMode};
use datafusion_execution::runtime_env::RuntimeEnvBuilder;
use datafusion_execution::{SendableRecordBatchStream, SpillFile, SpillWriter, TempFileFactory};
use datafusion_physical_plan::SpillManager;
use datafusion_physical_plan::metrics::{ExecutionPlanMetricsSet, SpillMetrics};
use datafusion_physical_plan::spill::spill_pool::{self, SpillPoolSink, SpillPoolWriter};
use futures::{Stream, StreamExt};
use hutil::{Args, Rng, Run};

// ------------------------------------------------------------------ in-memory backend with faults

#[derive(Default)]
struct Faults {
    fail_create: AtomicBool,
    /// write calls still allowed before every further write fails; negative = no limit
    writes_left: AtomicI64,
    fail_flush: AtomicBool,
    fail_finish: AtomicBool,
    // observed during the current push
    flushed: AtomicBool,
    fired_create: AtomicBool,
    fired_append: AtomicBool,
    fired_finish: AtomicBool,
    created: AtomicUsize,
    chunk: AtomicUsize,
}

impl Faults {
    fn clear(&self) {
        self.fail_create.store(false, SeqCst);
        self.writes_left.store(-1, SeqCst);
        self.fail_flush.store(false, SeqCst);
        self.fail_finish.store(false, SeqCst);
        self.flushed.store(false, SeqCst);
        self.fired_create.store(false, SeqCst);
        self.fired_append.store(false, SeqCst);
        self.fired_finish.store(false, SeqCst);
    }
}

struct MemFile {
    data: Arc<Mutex<Vec<u8>>>,
    faults: Arc<Faults>,
}

struct MemWriter {
    data: Arc<Mutex<Vec<u8>>>,
    faults: Arc<Faults>,
}

impl Write for MemWriter {
    fn write(&mut self, buf: &[u8]) -> std::io::Result<usize> {
        let left = self.faults.writes_left.load(SeqCst);
        if left == 0 {
            if self.faults.flushed.load(SeqCst) {
                self.faults.fired_finish.store(true, SeqCst);
            } else {
                self.faults.fired_append.store(true, SeqCst);
            }
            return Err(std::io::Error::other("injected write failure"));
        }
        if left > 0 {
            self.faults.writes_left.store(left - 1, SeqCst);
        }
        self.data.lock().unwrap().extend_from_slice(buf);
        Ok(buf.len())
    }
    fn flush(&mut self) -> std::io::Result<()> {
        if self.faults.fail_flush.load(SeqCst) && !self.faults.flushed.load(SeqCst) {
            self.faults.fired_append.store(true, SeqCst);
            return Err(std::io::Error::other("injected flush failure"));
        }
        self.faults.flushed.store(true, SeqCst);
        Ok(())
    }
}

impl SpillWriter for MemWriter {
    fn finish(&mut self) -> Result<()> {
        if self.faults.fail_finish.load(SeqCst) {
            self.faults.fired_finish.store(true, SeqCst);
            return Err(DataFusionError::Execution("injected finish failure".into()));
        }
        Ok(())
    }
}

/// byte stream with the semantics of a `ReaderStream` over a growing file: yields what is there
/// (at most `chunk` bytes per item), and ends — for good — when it is polled with nothing new.
struct MemRead {
    data: Arc<Mutex<Vec<u8>>>,
    pos: usize,
    chunk: usize,
    done: bool,
}

impl Stream for MemRead {
    type Item = Result<Bytes>;
    fn poll_next(mut self: Pin<&mut Self>, _cx: &mut Context<'_>) -> Poll<Option<Self::Item>> {
        if self.done {
            return Poll::Ready(None);
        }
        let chunk = {
            let d = self.data.lock().unwrap();
            if self.pos < d.len() {
                let end = d.len().min(self.pos + self.chunk);
                Some(Bytes::copy_from_slice(&d[self.pos..end]))
            } else {
                None
            }
        };
        match chunk {
            Some(c) => {
                self.pos += c.len();
                Poll::Ready(Some(Ok(c)))
            }
            None => {
                self.done = true;
                Poll::Ready(None)
            }
        }
    }
}

impl SpillFile for MemFile {
    fn size(&self) -> Option<u64> {
        Some(self.data.lock().unwrap().len() as u64)
    }
    fn read_stream(&self) -> Result<Pin<Box<dyn Stream<Item = Result<Bytes>> + Send>>> {
        Ok(Box::pin(MemRead {
            data: Arc::clone(&self.data),
            pos: 0,
            chunk: self.faults.chunk.load(SeqCst).max(1),
            done: false,
        }))
    }
    fn open_writer(&self) -> Result<Box<dyn SpillWriter>> {
        Ok(Box::new(MemWriter { data: Arc::clone(&self.data), faults: Arc::clone(&self.faults) }))
    }
}

struct MemFactory {
    faults: Arc<Faults>,
}

/// events sent by a push that runs on its own thread
enum Ev {
    /// the push is inside `create_in_progress_file` (it holds no lock there) and waits
    AtGate(usize),
    Done(usize, bool),
}

struct Gate {
    w: usize,
    tx: std::sync::mpsc::Sender<Ev>,
    release: std::sync::mpsc::Receiver<()>,
}

thread_local! {
    /// set on threads that run a gated push: `create_temp_file` reports and blocks until released
    static GATE: std::cell::RefCell<Option<Gate>> = const { std::cell::RefCell::new(None) };
}

impl TempFileFactory for MemFactory {
    fn create_temp_file(&self, _description: &str) -> Result<Arc<dyn SpillFile>> {
        GATE.with(|g| {
            if let Some(gate) = g.borrow().as_ref() {
                let _ = gate.tx.send(Ev::AtGate(gate.w));
                let _ = gate.release.recv();
            }
        });
        if self.faults.fail_create.load(SeqCst) {
            self.faults.fired_create.store(true, SeqCst);
            return Err(DataFusionError::Execution("injected create failure".into()));
        }
        self.faults.created.fetch_add(1, SeqCst);
        Ok(Arc::new(MemFile { data: Arc::new(Mutex::new(vec![])), faults: Arc::clone(&self.faults) }))
    }
}

// ------------------------------------------------------------------ manual waker

#[derive(Default)]
struct WakeFlag {
    woken: AtomicBool,
    count: AtomicUsize,
}
impl Wake for WakeFlag {
    fn wake(self: Arc<Self>) {
        self.woken.store(true, SeqCst);
        self.count.fetch_add(1, SeqCst);
    }
}

// ------------------------------------------------------------------ histories

#[derive(Clone, Copy, Debug, PartialEq, Eq, PartialOrd, Ord)]
enum Fault {
    None,
    Create,
    /// fail every `write` after `k` more successful write calls
    Write(i64),
    Flush,
    Finish,
    /// disk backend only: disk limit = current usage + `n` bytes during the push
    DiskLimit(u64),
}

#[derive(Clone, Copy, Debug)]
enum Op {
    Push { w: usize, id: usize, rows: usize, fault: Fault },
    PushEmpty { w: usize },
    /// `SpillPoolWriter::clone` (sink = false) or `new_sink` (sink = true)
    Clone { w: usize, sink: bool },
    Drop { w: usize },
    Poll,
    /// `push_batch` on its own thread; if it has to create a file it stops inside
    /// `create_in_progress_file` (between the two pool-lock regions) until `PushCont`
    PushBegin { w: usize, id: usize, rows: usize, fault: Fault },
    /// lets the stopped push of sink `w` run to completion (ignored if none is stopped)
    PushCont { w: usize, fault: Fault },
}

struct InFlight {
    id: usize,
    worker: usize,
    release: std::sync::mpsc::Sender<()>,
}

type Job = Box<dyn FnOnce() + Send>;

/// long-lived threads that run the gated pushes (spawning a thread per push is far too slow)
fn workers() -> &'static Vec<Mutex<std::sync::mpsc::Sender<Job>>> {
    static POOL: std::sync::OnceLock<Vec<Mutex<std::sync::mpsc::Sender<Job>>>> = std::sync::OnceLock::new();
    POOL.get_or_init(|| {
        (0..6)
            .map(|_| {
                let (tx, rx) = std::sync::mpsc::channel::<Job>();
                std::thread::spawn(move || {
                    for job in rx {
                        job();
                    }
                });
                Mutex::new(tx)
            })
            .collect()
    })
}

enum Sink {
    W(SpillPoolWriter),
    S(SpillPoolSink),
}
impl Sink {
    fn push(&self, b: &RecordBatch) -> Result<()> {
        match self {
            Sink::W(w) => w.push_batch(b),
            Sink::S(s) => s.push_batch(b),
        }
    }
}

fn schema() -> SchemaRef {
    Arc::new(Schema::new(vec![Field::new("id", DataType::Int32, false)]))
}

fn batch(id: usize, rows: usize) -> RecordBatch {
    RecordBatch::try_new(schema(), vec![Arc::new(Int32Array::from(vec![id as i32; rows]))]).unwrap()
}

fn batch_id(b: &RecordBatch) -> Option<usize> {
    let a = b.column(0).as_any().downcast_ref::<Int32Array>()?;
    if a.is_empty() {
        return None;
    }
    let v = a.value(0);
    if a.values().iter().all(|x| *x == v) { Some(v as usize) } else { None }
}

#[derive(Clone, Debug, PartialEq, Eq)]
enum PollRes {
    Batch(usize),
    Pending,
    Eos,
    Err(String),
}
impl PollRes {
    fn show(&self) -> String {
        match self {
            PollRes::Batch(b) => format!("b{b}"),
            PollRes::Pending => "pending".into(),
            PollRes::Eos => "eos".into(),
            PollRes::Err(_) => "err".into(),
        }
    }
}

struct PushRec {
    id: usize,
    ok: bool,
    /// the batch was appended and flushed (push Ok, or Err only from the rotation finish)
    accepted: bool,
}

/// one channel + everything observed on it
struct World {
    disk: Option<Arc<DiskManager>>,
    faults: Arc<Faults>,
    sinks: Vec<Option<Arc<Sink>>>,
    inflight: std::collections::BTreeMap<usize, InFlight>,
    ev_tx: std::sync::mpsc::Sender<Ev>,
    ev_rx: std::sync::mpsc::Receiver<Ev>,
    reader: SendableRecordBatchStream,
    flag: Arc<WakeFlag>,
    waker: Waker,
    rt: Option<Arc<tokio::runtime::Runtime>>,
    pushes: Vec<PushRec>,
    delivered: Vec<usize>,
    cloned: bool,
    live: usize,
    parked_unwoken_before_poll: bool,
    last_pending: bool,
    saw_eos: bool,
    // oracle failures: (signature kind, detail)
    fails: Vec<(String, String)>,
    kinds: BTreeSet<&'static str>,
}

impl World {
    fn new(max: usize, mpsc: bool, chunk: usize, disk: bool, rt: Option<Arc<tokio::runtime::Runtime>>) -> World {
        let faults = Arc::new(Faults::default());
        faults.clear();
        faults.chunk.store(chunk, SeqCst);
        let builder = if disk {
            DiskManagerBuilder::default().with_mode(DiskManagerMode::OsTmpDirectory).with_max_temp_directory_size(1 << 40)
        } else {
            DiskManagerBuilder::default().with_mode(DiskManagerMode::Custom(Arc::new(MemFactory { faults: Arc::clone(&faults) })))
        };
        let env = Arc::new(RuntimeEnvBuilder::new().with_disk_manager_builder(builder).build().unwrap());
        let dm = if disk { Some(Arc::clone(&env.disk_manager)) } else { None };
        let metrics = SpillMetrics::new(&ExecutionPlanMetricsSet::new(), 0);
        let sm = Arc::new(SpillManager::new(env, metrics, schema()));
        let (sink, reader) = if mpsc {
            let (w, r) = spill_pool::mpsc_channel(max, sm);
            (Sink::W(w), r)
        } else {
            let (w, r) = spill_pool::spsc_channel(max, sm);
            (Sink::S(w), r)
        };
        let flag = Arc::new(WakeFlag::default());
        let waker = Waker::from(Arc::clone(&flag));
        let (ev_tx, ev_rx) = std::sync::mpsc::channel();
        World {
            inflight: Default::default(),
            ev_tx,
            ev_rx,
            disk: dm,
            faults,
            sinks: vec![Some(Arc::new(sink))],
            reader,
            flag,
            waker,
            rt,
            pushes: vec![],
            delivered: vec![],
            cloned: false,
            live: 1,
            parked_unwoken_before_poll: false,
            last_pending: false,
            saw_eos: false,
            fails: vec![],
            kinds: BTreeSet::new(),
        }
    }

    fn fail(&mut self, kind: &str, detail: String) {
        if !self.fails.iter().any(|(k, _)| k == kind) {
            self.fails.push((kind.to_string(), detail));
        }
    }

    fn set_fault(&self, fault: Fault) {
        self.faults.clear();
        match fault {
            Fault::None => {}
            Fault::Create => self.faults.fail_create.store(true, SeqCst),
            Fault::Write(k) => self.faults.writes_left.store(k, SeqCst),
            Fault::Flush => self.faults.fail_flush.store(true, SeqCst),
            Fault::Finish => self.faults.fail_finish.store(true, SeqCst),
            Fault::DiskLimit(_) => {}
        }
        if let (Some(dm), Fault::Write(_) | Fault::DiskLimit(_)) = (&self.disk, fault) {
            let lim = match fault {
                Fault::DiskLimit(n) => dm.used_disk_space() + n,
                _ => 0,
            };
            dm.set_max_temp_directory_size(lim).unwrap();
        }
    }

    /// bookkeeping after a `push_batch` call returned; gives the environment flags `c a f`
    fn finish_push(&mut self, id: usize, ok: bool) -> String {
        if let Some(dm) = &self.disk {
            dm.set_max_temp_directory_size(1 << 40).unwrap();
        }
        let (c, a, f) = (
            !self.faults.fired_create.load(SeqCst),
            !self.faults.fired_append.load(SeqCst),
            !self.faults.fired_finish.load(SeqCst),
        );
        self.faults.clear();
        let accepted = ok || (c && a && !f);
        self.pushes.push(PushRec { id, ok, accepted });
        self.kinds.insert(if ok {
            "push-ok"
        } else if !c {
            "push-fail-create"
        } else if !a {
            "push-fail-append"
        } else {
            "push-fail-finish"
        });
        let t = |x: bool| if x { "t" } else { "f" };
        format!("{} {} {}", t(c), t(a), t(f))
    }

    /// (request piece, result text)
    fn push(&mut self, w: usize, id: usize, rows: usize, fault: Fault) -> (String, String) {
        let b = batch(id, rows);
        let sz = b.get_array_memory_size();
        self.set_fault(fault);
        let res = self.sinks[w].as_ref().unwrap().push(&b);
        let ok = res.is_ok();
        let env = self.finish_push(id, ok);
        (format!("(push {w} {id} {sz} {env})"), if ok { "ok".into() } else { "err".into() })
    }

    /// starts `push_batch` on a thread of its own; it either completes (it found an open file) or
    /// stops inside `create_in_progress_file`
    fn push_begin(&mut self, w: usize, id: usize, rows: usize, fault: Fault) -> (String, String) {
        let b = batch(id, rows);
        let sz = b.get_array_memory_size();
        self.set_fault(fault);
        let sink = Arc::clone(self.sinks[w].as_ref().unwrap());
        let tx = self.ev_tx.clone();
        let (rel_tx, rel_rx) = std::sync::mpsc::channel();
        let busy: Vec<usize> = self.inflight.values().map(|f| f.worker).collect();
        let worker = (0..workers().len()).find(|i| !busy.contains(i)).expect("a free worker thread");
        let job: Job = Box::new(move || {
            GATE.with(|g| *g.borrow_mut() = Some(Gate { w, tx: tx.clone(), release: rel_rx }));
            let ok = sink.push(&b).is_ok();
            drop(sink);
            GATE.with(|g| *g.borrow_mut() = None);
            let _ = tx.send(Ev::Done(w, ok));
        });
        workers()[worker].lock().unwrap().send(job).unwrap();
        match self.ev_rx.recv().unwrap() {
            Ev::AtGate(_) => {
                // no I/O has happened yet; the fault of this op is void, the continuation has its own
                self.faults.clear();
                self.inflight.insert(w, InFlight { id, worker, release: rel_tx });
                self.kinds.insert("push-stopped-in-create");
                (format!("(pushb {w} {id} {sz} t t t)"), "gate".into())
            }
            Ev::Done(_, ok) => {
                let env = self.finish_push(id, ok);
                (format!("(pushb {w} {id} {sz} {env})"), if ok { "ok".into() } else { "err".into() })
            }
        }
    }

    fn push_cont(&mut self, w: usize, fault: Fault) -> Option<(String, String)> {
        let fl = self.inflight.remove(&w)?;
        self.set_fault(fault);
        fl.release.send(()).unwrap();
        let ok = match self.ev_rx.recv().unwrap() {
            Ev::Done(_, ok) => ok,
            Ev::AtGate(_) => unreachable!("a push creates at most one file"),
        };
        let env = self.finish_push(fl.id, ok);
        Some((format!("(pushc {w} {env})"), if ok { "ok".into() } else { "err".into() }))
    }

    fn clone_sink(&mut self, w: usize, sink: bool) {
        let new = match self.sinks[w].as_ref().unwrap().as_ref() {
            Sink::W(x) => {
                if sink {
                    Sink::S(x.new_sink())
                } else {
                    Sink::W(x.clone())
                }
            }
            Sink::S(_) => unreachable!("the generator clones only SpillPoolWriter"),
        };
        self.sinks.push(Some(Arc::new(new)));
        self.cloned = true;
        self.live += 1;
        self.kinds.insert("clone");
    }

    fn drop_sink(&mut self, w: usize) {
        self.sinks[w] = None;
        self.live -= 1;
        self.kinds.insert(if self.live == 0 { "drop-last" } else { "drop-nonlast" });
    }

    fn poll_once(&mut self) -> PollRes {
        let mut cx = Context::from_waker(&self.waker);
        let _guard = self.rt.as_ref().map(|rt| rt.enter());
        match self.reader.poll_next_unpin(&mut cx) {
            Poll::Pending => PollRes::Pending,
            Poll::Ready(None) => PollRes::Eos,
            Poll::Ready(Some(Err(e))) => PollRes::Err(e.to_string()),
            Poll::Ready(Some(Ok(b))) => match batch_id(&b) {
                Some(id) => PollRes::Batch(id),
                None => PollRes::Err("delivered batch is not one of the pushed batches".into()),
            },
        }
    }

    /// one `poll_next` with the manual waker, plus the per-poll oracles
    fn poll(&mut self, hist: &str) -> PollRes {
        self.parked_unwoken_before_poll = self.last_pending && !self.flag.woken.load(SeqCst);
        self.flag.woken.store(false, SeqCst);
        let r = self.poll_once();
        self.observe(&r, hist);
        r
    }

    fn observe(&mut self, r: &PollRes, hist: &str) {
        match r {
            PollRes::Pending => {
                self.kinds.insert("poll-pending");
                if self.live == 0 {
                    self.fail("reader-stranded", format!("poll returned Pending although every sink had been dropped; history {hist}; delivered so far {:?}", self.delivered));
                }
            }
            PollRes::Batch(id) => {
                self.kinds.insert(if self.live > 0 { "poll-batch-live" } else { "poll-batch-after-drop" });
                let accepted = self.pushes.iter().any(|p| p.id == *id && p.accepted);
                if !accepted || self.delivered.contains(id) {
                    self.fail("delivered-once", format!("batch {id} delivered {} ; history {hist}", if accepted { "twice" } else { "although no push of it was accepted" }));
                }
                if !self.cloned && self.delivered.last().is_some_and(|l| l > id) {
                    self.fail("spsc-order", format!("single writer: batch {id} delivered after batch {:?}; history {hist}", self.delivered.last()));
                }
                self.delivered.push(*id);
            }
            PollRes::Eos => {
                self.kinds.insert("poll-eos");
                self.saw_eos = true;
                let missing: Vec<usize> = self.pushes.iter().filter(|p| p.ok && !self.delivered.contains(&p.id)).map(|p| p.id).collect();
                if self.live > 0 || !missing.is_empty() {
                    self.fail("eos-early", format!("EOS with {} live sink(s), undelivered accepted batches {:?}; history {hist}", self.live, missing));
                }
            }
            PollRes::Err(e) => {
                self.fail("reader-error", format!("poll returned Err({e}); history {hist}"));
            }
        }
        if self.parked_unwoken_before_poll && !matches!(r, PollRes::Pending) {
            self.fail("lost-wakeup", format!("reader was Pending and never woken, yet the next poll returned {}; history {hist}", r.show()));
        }
        self.last_pending = matches!(r, PollRes::Pending);
    }

    fn status(&self) -> String {
        let files = if self.disk.is_some() { "_".to_string() } else { self.faults.created.load(SeqCst).to_string() };
        format!("/{}/{}", if self.flag.woken.load(SeqCst) { "w" } else { "-" }, files)
    }

    fn live_sinks(&self) -> Vec<usize> {
        (0..self.sinks.len()).filter(|i| self.sinks[*i].is_some()).collect()
    }
    fn undelivered(&self) -> usize {
        self.pushes.iter().filter(|p| p.accepted && !self.delivered.contains(&p.id)).count()
    }
}

/// runs `ops` (then drops every remaining sink and drains) on a fresh `mem` world; returns the
/// request, the answers, and the world for inspection
fn run_mem(max: usize, mpsc: bool, chunk: usize, ops: &[Op]) -> (String, String, World) {
    PROGRESS.fetch_add(1, SeqCst);
    if PROGRESS.load(SeqCst) % 64 == 0 {
        *LAST_CASE.lock().unwrap() = format!("max={max} mpsc={mpsc} ops={ops:?}");
    }
    let mut wd = World::new(max, mpsc, chunk, false, None);
    let mut req = format!("({max} mem");
    let mut ans: Vec<String> = vec![];
    let mut step = |wd: &mut World, op: Op, req: &mut String, ans: &mut Vec<String>| {
        let (piece, res) = match op {
            Op::Push { w, id, rows, fault } => wd.push(w, id, rows, fault),
            Op::PushEmpty { w } => {
                let r = wd.sinks[w].as_ref().unwrap().push(&batch(0, 0));
                wd.kinds.insert("push-empty");
                (format!("(pushe {w})"), if r.is_ok() { "ok".into() } else { "err".into() })
            }
            Op::Clone { w, sink } => {
                wd.clone_sink(w, sink);
                (format!("(clone {w})"), "ok".into())
            }
            Op::Drop { w } => {
                wd.drop_sink(w);
                (format!("(drop {w})"), "ok".into())
            }
            Op::Poll => {
                let h = format!("{req} (poll))");
                let r = wd.poll(&h);
                ("(poll)".to_string(), r.show())
            }
            Op::PushBegin { w, id, rows, fault } => wd.push_begin(w, id, rows, fault),
            Op::PushCont { w, fault } => match wd.push_cont(w, fault) {
                Some(x) => x,
                None => return,
            },
        };
        req.push(' ');
        req.push_str(&piece);
        ans.push(format!("{res}{}", wd.status()));
    };
    for op in ops {
        step(&mut wd, *op, &mut req, &mut ans);
    }
    // closing phase: let stopped pushes finish, drop what is left, then the reader must reach EOS
    // without ever being Pending
    let stopped: Vec<usize> = wd.inflight.keys().copied().collect();
    for w in stopped {
        step(&mut wd, Op::PushCont { w, fault: Fault::None }, &mut req, &mut ans);
    }
    for w in wd.live_sinks() {
        step(&mut wd, Op::Drop { w }, &mut req, &mut ans);
    }
    let bound = wd.undelivered() + 1;
    let mut polls = 0;
    while !wd.saw_eos && polls < bound + 2 {
        step(&mut wd, Op::Poll, &mut req, &mut ans);
        polls += 1;
    }
    req.push(')');
    if !wd.saw_eos || polls > bound {
        let d = format!("after all sinks were dropped the reader did not reach EOS within {bound} poll(s) ({polls} made, EOS seen: {}); delivered {:?}; history {req}", wd.saw_eos, wd.delivered);
        wd.fail("reader-stranded", d);
    }
    (req, ans.join(" "), wd)
}

fn record(run: &mut Run, req: &str, ans: &str, wd: &World, tag: &str) {
    for k in &wd.kinds {
        run.count(k);
    }
    let files = wd.faults.created.load(SeqCst);
    if files > 1 {
        run.count("multi-file");
    }
    let mut kinds = wd.kinds.len();
    if files > 1 {
        kinds += 1;
    }
    run.case("run", req, ans, kinds >= 5);
    for kind in ["delivered-once", "spsc-order", "eos-early", "lost-wakeup", "reader-stranded", "reader-error"] {
        let f = wd.fails.iter().find(|(k, _)| k == kind);
        run.oracle(f.is_none(), &format!("{kind} {tag} hist={req}"), f.map(|x| x.1.as_str()).unwrap_or(""));
    }
}

// ------------------------------------------------------------------ watchdog (a deadlock between the two lock levels would hang the harness)

static PROGRESS: std::sync::atomic::AtomicU64 = std::sync::atomic::AtomicU64::new(0);
static LAST_CASE: Mutex<String> = Mutex::new(String::new());

fn start_watchdog() {
    std::thread::spawn(|| {
        let mut last = u64::MAX;
        let mut idle = 0;
        loop {
            std::thread::sleep(std::time::Duration::from_secs(5));
            let p = PROGRESS.load(SeqCst);
            if p == last {
                idle += 1;
            } else {
                idle = 0;
                last = p;
            }
            if idle >= 36 {
                eprintln!("C16 harness: no progress for 180 s (deadlock?) while running history: {}", LAST_CASE.lock().unwrap());
                std::process::exit(3);
            }
        }
    });
}

// ------------------------------------------------------------------ generators

const ROWS_SMALL: usize = 10;
const ROWS_LARGE: usize = 1000;

fn pick_fault(rng: &mut Rng) -> Fault {
    match rng.below(100) {
        0..=59 => Fault::None,
        60..=67 => Fault::Create,
        68..=75 => Fault::Write(0),
        76..=79 => Fault::Write(1),
        80..=83 => Fault::Write(2),
        84..=86 => Fault::Write(rng.range(3, 9)),
        87..=91 => Fault::Flush,
        _ => Fault::Finish,
    }
}

fn pick_max(rng: &mut Rng) -> usize {
    let s = batch(0, ROWS_SMALL).get_array_memory_size();
    let l = batch(0, ROWS_LARGE).get_array_memory_size();
    *rng.pick(&[0, s - 1, s, 2 * s, 2 * s + 1, 3 * s, l, l + s, 1 << 30, 1 << 30])
}

/// random sequential history; `disk_ok` restricts faults to those a disk limit can produce
fn random_history(rng: &mut Rng, len: usize, mpsc: bool, disk_ok: bool, gated: bool) -> Vec<Op> {
    let mut ops = vec![];
    // sinks whose push may be stopped inside create_in_progress_file: only `PushCont`/clone until continued
    let mut stopped: Vec<usize> = vec![];
    let mut live: Vec<usize> = vec![0];
    let mut is_writer: Vec<bool> = vec![mpsc]; // SpillPoolWriter (clonable) vs SpillPoolSink
    let mut next_id = 1usize;
    let mut eos_polls = 0;
    for _ in 0..len {
        let c = rng.below(100);
        if live.is_empty() {
            // only the reader is left
            if eos_polls > 3 {
                break;
            }
            ops.push(Op::Poll);
            eos_polls += 1;
            continue;
        }
        let w = *rng.pick(&live);
        if stopped.contains(&w) {
            if rng.chance(1, 2) {
                ops.push(Op::PushCont { w, fault: pick_fault(rng) });
                stopped.retain(|x| *x != w);
            } else {
                ops.push(Op::Poll);
            }
            continue;
        }
        if gated && c < 45 && rng.chance(1, 2) {
            let rows = if rng.chance(1, 5) { ROWS_LARGE } else { ROWS_SMALL };
            ops.push(Op::PushBegin { w, id: next_id, rows, fault: pick_fault(rng) });
            next_id += 1;
            stopped.push(w);
            continue;
        }
        if c < 45 {
            let rows = if rng.chance(1, 5) { ROWS_LARGE } else { ROWS_SMALL };
            let mut fault = pick_fault(rng);
            if disk_ok {
                fault = match fault {
                    Fault::None => Fault::None,
                    Fault::Create | Fault::Flush | Fault::Finish => Fault::None,
                    Fault::Write(k) if k <= 1 => Fault::Write(0),
                    _ => {
                        if rows == ROWS_LARGE {
                            Fault::DiskLimit(600)
                        } else {
                            Fault::Write(0)
                        }
                    }
                };
            }
            ops.push(Op::Push { w, id: next_id, rows, fault });
            next_id += 1;
        } else if c < 48 {
            ops.push(Op::PushEmpty { w });
        } else if c < 58 && mpsc && live.len() < 4 {
            let cands: Vec<usize> = live.iter().copied().filter(|i| is_writer[*i]).collect();
            if let Some(&src) = cands.first() {
                let src = if cands.len() > 1 { *rng.pick(&cands) } else { src };
                let sink = rng.chance(1, 3);
                ops.push(Op::Clone { w: src, sink });
                live.push(is_writer.len());
                is_writer.push(!sink);
            } else {
                ops.push(Op::Poll);
            }
        } else if c < 70 {
            ops.push(Op::Drop { w });
            live.retain(|x| *x != w);
        } else {
            ops.push(Op::Poll);
        }
    }
    ops
}

/// per-thread programs whose interleavings are enumerated exhaustively
#[derive(Clone, Debug)]
enum POp {
    Push { rows: usize, fault: Fault },
    /// gated push: begin …
    PushB { rows: usize, fault: Fault },
    /// … and its continuation (a no-op when the begin did not have to create a file)
    PushC { fault: Fault },
    /// activates thread `child`
    Clone { child: usize, sink: bool },
    Drop,
}

struct Config {
    max: usize,
    mpsc: bool,
    chunk: usize,
    progs: Vec<Vec<POp>>,
    polls: usize,
}

fn random_config(rng: &mut Rng, nwriters: usize, max_ops: usize, polls: usize) -> Config {
    let mpsc = nwriters > 1 || rng.chance(1, 2);
    let mut progs: Vec<Vec<POp>> = vec![vec![]; nwriters];
    // who clones whom: thread i>0 is cloned by a random earlier thread that is a SpillPoolWriter
    let mut is_writer = vec![true; nwriters];
    let mut clone_of: Vec<Vec<(usize, bool)>> = vec![vec![]; nwriters];
    for i in 1..nwriters {
        let cands: Vec<usize> = (0..i).filter(|j| is_writer[*j]).collect();
        let p = *rng.pick(&cands);
        let sink = rng.chance(1, 3);
        is_writer[i] = !sink;
        clone_of[p].push((i, sink));
    }
    for i in 0..nwriters {
        let n = rng.below(max_ops as u64 + 1) as usize;
        let mut prog = vec![];
        for _ in 0..n {
            let rows = if rng.chance(1, 5) { ROWS_LARGE } else { ROWS_SMALL };
            if rng.chance(2, 5) {
                prog.push(POp::PushB { rows, fault: pick_fault(rng) });
                prog.push(POp::PushC { fault: pick_fault(rng) });
            } else {
                prog.push(POp::Push { rows, fault: pick_fault(rng) });
            }
        }
        for (child, sink) in &clone_of[i] {
            // a clone may also be taken while the sink's push is stopped (between PushB and PushC)
            let at = rng.below(prog.len() as u64 + 1) as usize;
            prog.insert(at, POp::Clone { child: *child, sink: *sink });
        }
        if rng.chance(3, 4) {
            prog.push(POp::Drop);
        }
        progs[i] = prog;
    }
    Config { max: pick_max(rng), mpsc, chunk: *rng.pick(&[7usize, 64, 4096, 1 << 20]), progs, polls }
}

/// all interleavings of the thread programs + `polls` reader polls (thread id = progs.len()),
/// respecting program order and clone-before-child; stops after `cap` schedules
fn interleavings(cfg: &Config, cap: usize) -> Option<Vec<Vec<usize>>> {
    let n = cfg.progs.len();
    let mut out = vec![];
    let mut pos = vec![0usize; n + 1];
    let mut active = vec![false; n];
    active[0] = true;
    let mut cur = vec![];
    fn rec(cfg: &Config, n: usize, pos: &mut Vec<usize>, active: &mut Vec<bool>, cur: &mut Vec<usize>, out: &mut Vec<Vec<usize>>, cap: usize) -> bool {
        let mut any = false;
        for t in 0..=n {
            let enabled = if t == n { pos[n] < cfg.polls } else { active[t] && pos[t] < cfg.progs[t].len() };
            if !enabled {
                continue;
            }
            any = true;
            let mut activated = None;
            if t < n {
                if let POp::Clone { child, .. } = cfg.progs[t][pos[t]] {
                    active[child] = true;
                    activated = Some(child);
                }
            }
            pos[t] += 1;
            cur.push(t);
            let ok = rec(cfg, n, pos, active, cur, out, cap);
            cur.pop();
            pos[t] -= 1;
            if let Some(c) = activated {
                active[c] = false;
            }
            if !ok {
                return false;
            }
        }
        if !any {
            if out.len() >= cap {
                return false;
            }
            out.push(cur.clone());
        }
        true
    }
    if rec(cfg, n, &mut pos, &mut active, &mut cur, &mut out, cap) { Some(out) } else { None }
}

/// turn a schedule of thread ids into a sequential history (writer indices are assigned in the
/// order the clones actually happen, as in the model)
fn schedule_ops(cfg: &Config, sched: &[usize]) -> Vec<Op> {
    let n = cfg.progs.len();
    let mut pos = vec![0usize; n];
    let mut widx: Vec<Option<usize>> = vec![None; n];
    widx[0] = Some(0);
    let mut nw = 1;
    let mut ops = vec![];
    for &t in sched {
        if t == n {
            ops.push(Op::Poll);
            continue;
        }
        let w = widx[t].unwrap();
        match &cfg.progs[t][pos[t]] {
            POp::Push { rows, fault } => ops.push(Op::Push { w, id: 1 + t * 16 + pos[t], rows: *rows, fault: *fault }),
            POp::PushB { rows, fault } => ops.push(Op::PushBegin { w, id: 1 + t * 16 + pos[t], rows: *rows, fault: *fault }),
            POp::PushC { fault } => ops.push(Op::PushCont { w, fault: *fault }),
            POp::Clone { child, sink } => {
                ops.push(Op::Clone { w, sink: *sink });
                widx[*child] = Some(nw);
                nw += 1;
            }
            POp::Drop => ops.push(Op::Drop { w }),
        }
        pos[t] += 1;
    }
    ops
}

/// every sequential history of at most `depth` ops over a small alphabet (≤ 3 sinks): per live
/// sink {push small ok, push small with failing append, push large ok, push small with failing
/// rotation finish, drop, clone}, plus reader poll
fn exhaustive_short(run: &mut Run, depth: usize, max: usize) {
    fn rec(run: &mut Run, max: usize, depth: usize, ops: &mut Vec<Op>, live: &mut Vec<usize>, nw: usize, next_id: usize) {
        if !ops.is_empty() {
            let (req, ans, wd) = run_mem(max, true, 4096, ops);
            record(run, &req, &ans, &wd, "short");
            run.count("short-histories");
        }
        if ops.len() == depth {
            return;
        }
        let cur_live = live.clone();
        // sinks whose last op was a gated begin that has not been continued yet
        let mut stopped: Vec<usize> = vec![];
        for op in ops.iter() {
            match op {
                Op::PushBegin { w, .. } => stopped.push(*w),
                Op::PushCont { w, .. } => stopped.retain(|x| x != w),
                _ => {}
            }
        }
        for &w in &cur_live {
            if stopped.contains(&w) {
                for fault in [Fault::None, Fault::Write(0)] {
                    ops.push(Op::PushCont { w, fault });
                    rec(run, max, depth, ops, live, nw, next_id);
                    ops.pop();
                }
                continue;
            }
            ops.push(Op::PushBegin { w, id: next_id, rows: ROWS_SMALL, fault: Fault::None });
            rec(run, max, depth, ops, live, nw, next_id + 1);
            ops.pop();
            for (rows, fault) in [(ROWS_SMALL, Fault::None), (ROWS_SMALL, Fault::Write(0)), (ROWS_LARGE, Fault::None), (ROWS_SMALL, Fault::Finish)] {
                ops.push(Op::Push { w, id: next_id, rows, fault });
                rec(run, max, depth, ops, live, nw, next_id + 1);
                ops.pop();
            }
            ops.push(Op::Drop { w });
            live.retain(|x| *x != w);
            rec(run, max, depth, ops, live, nw, next_id);
            *live = cur_live.clone();
            ops.pop();
            if nw < 3 {
                ops.push(Op::Clone { w, sink: false });
                live.push(nw);
                rec(run, max, depth, ops, live, nw + 1, next_id);
                *live = cur_live.clone();
                ops.pop();
            }
        }
        ops.push(Op::Poll);
        rec(run, max, depth, ops, live, nw, next_id);
        ops.pop();
    }
    rec(run, max, depth, &mut vec![], &mut vec![0], 1, 1);
}

// ------------------------------------------------------------------ disk twin

/// the same history on real temp files; every push must answer like the `mem` twin and every
/// batch / EOS the twin delivered must arrive (generous deadline = hang detection only)
fn run_disk(max: usize, mpsc: bool, ops: &[Op], twin_ans: &[String], rt: &Arc<tokio::runtime::Runtime>) -> Vec<(String, String)> {
    PROGRESS.fetch_add(1, SeqCst);
    *LAST_CASE.lock().unwrap() = format!("disk max={max} mpsc={mpsc} ops={ops:?}");
    let mut wd = World::new(max, mpsc, 1, true, Some(Arc::clone(rt)));
    let mut fails: Vec<(String, String)> = vec![];
    let mut all: Vec<Op> = ops.to_vec();
    // closing phase identical to the twin's: its answers tell how many ops there were
    let mut live: Vec<usize> = vec![0];
    let mut nw = 1;
    for op in ops {
        match op {
            Op::Clone { .. } => {
                live.push(nw);
                nw += 1;
            }
            Op::Drop { w } => live.retain(|x| x != w),
            _ => {}
        }
    }
    for w in live {
        all.push(Op::Drop { w });
    }
    while all.len() < twin_ans.len() {
        all.push(Op::Poll);
    }
    for (i, op) in all.iter().enumerate() {
        let expect = twin_ans[i].split('/').next().unwrap_or("");
        match *op {
            Op::Push { w, id, rows, fault } => {
                let (_, res) = wd.push(w, id, rows, fault);
                if res != expect {
                    fails.push(("disk-push".into(), format!("op #{i} {op:?}: disk backend answered {res}, in-memory twin {expect}")));
                }
            }
            Op::PushEmpty { w } => {
                let _ = wd.sinks[w].as_ref().unwrap().push(&batch(0, 0));
            }
            Op::Clone { w, sink } => wd.clone_sink(w, sink),
            Op::Drop { w } => wd.drop_sink(w),
            Op::PushBegin { .. } | Op::PushCont { .. } => unreachable!("disk histories are not gated"),
            Op::Poll => {
                let got = if expect == "pending" {
                    // one poll; file I/O may also make it Pending, anything Ready is a divergence
                    let mut r = PollRes::Pending;
                    rt.block_on(async {
                        std::future::poll_fn(|cx| {
                            r = match wd.reader.poll_next_unpin(cx) {
                                Poll::Pending => PollRes::Pending,
                                Poll::Ready(None) => PollRes::Eos,
                                Poll::Ready(Some(Err(e))) => PollRes::Err(e.to_string()),
                                Poll::Ready(Some(Ok(b))) => batch_id(&b).map(PollRes::Batch).unwrap_or(PollRes::Err("foreign batch".into())),
                            };
                            Poll::Ready(())
                        })
                        .await
                    });
                    r
                } else {
                    let r = rt.block_on(async { tokio::time::timeout(std::time::Duration::from_secs(20), wd.reader.next()).await });
                    match r {
                        Err(_) => PollRes::Pending,
                        Ok(None) => PollRes::Eos,
                        Ok(Some(Err(e))) => PollRes::Err(e.to_string()),
                        Ok(Some(Ok(b))) => batch_id(&b).map(PollRes::Batch).unwrap_or(PollRes::Err("foreign batch".into())),
                    }
                };
                if got.show() != expect {
                    let kind = if got == PollRes::Pending { "reader-stranded" } else { "disk-poll" };
                    fails.push((kind.into(), format!("op #{i} poll: disk backend gave {:?} (20 s deadline), in-memory twin {expect}", got)));
                    if got == PollRes::Pending {
                        break;
                    }
                }
            }
        }
    }
    fails
}

// ------------------------------------------------------------------ entry

pub fn run(run: &mut Run, args: &Args) {
    let mut rng = Rng::new(args.seed);
    let thorough = run.thorough() || args.tier == "search";
    start_watchdog();

    // (0) the history that stranded the reader on the pinned upstream code (DESIGN §7.1), first
    {
        let ops = vec![
            Op::Push { w: 0, id: 1, rows: ROWS_SMALL, fault: Fault::None },
            Op::Push { w: 0, id: 2, rows: ROWS_LARGE, fault: Fault::Write(0) },
            Op::Clone { w: 0, sink: false },
            Op::Push { w: 1, id: 3, rows: ROWS_SMALL, fault: Fault::None },
        ];
        let (req, ans, wd) = run_mem(1 << 30, true, 4096, &ops);
        record(run, &req, &ans, &wd, "regression-afaa1b3");
    }

    // (0b) every short history (depth 3 quick / 4 thorough), rotation after two small batches and never
    {
        let s = batch(0, ROWS_SMALL).get_array_memory_size();
        exhaustive_short(run, if thorough { 4 } else { 3 }, s + 1);
        if thorough {
            exhaustive_short(run, 3, 1 << 30);
        }
    }

    // (1) random sequential histories
    let n_rand = if thorough { 250_000 } else { 40_000 };
    for i in 0..n_rand {
        let mpsc = rng.chance(3, 4);
        let len = 3 + rng.below(if thorough { 28 } else { 18 }) as usize;
        let ops = random_history(&mut rng, len, mpsc, false, i % 2 == 1);
        let max = pick_max(&mut rng);
        let chunk = *rng.pick(&[7usize, 64, 4096, 1 << 20]);
        let (req, ans, wd) = run_mem(max, mpsc, chunk, &ops);
        record(run, &req, &ans, &wd, &format!("rand#{i}"));
    }

    // (2) exhaustive interleavings of small thread programs
    let n_cfg = if thorough { 900 } else { 250 };
    let cap = if thorough { 4000 } else { 400 };
    let mut done_cfg = 0;
    let mut tries = 0;
    while done_cfg < n_cfg && tries < n_cfg * 20 {
        tries += 1;
        let nwriters = 1 + rng.below(3) as usize;
        let max_ops = if thorough { 4 } else { 3 };
        let polls = 1 + rng.below(if thorough { 4 } else { 3 }) as usize;
        let cfg = random_config(&mut rng, nwriters, max_ops, polls);
        let Some(scheds) = interleavings(&cfg, cap) else { continue };
        done_cfg += 1;
        run.count("configs");
        run.count(&format!("config-writers-{nwriters}"));
        run.add("interleavings", scheds.len() as u64);
        for (j, sched) in scheds.iter().enumerate() {
            let ops = schedule_ops(&cfg, sched);
            let (req, ans, wd) = run_mem(cfg.max, cfg.mpsc, cfg.chunk, &ops);
            record(run, &req, &ans, &wd, &format!("cfg#{done_cfg}.{j}"));
        }
    }

    // (3) real temp files in lockstep with an in-memory twin
    let n_disk = if thorough { 4000 } else { 500 };
    let rt = Arc::new(tokio::runtime::Builder::new_current_thread().enable_all().build().unwrap());
    for i in 0..n_disk {
        let mpsc = rng.chance(3, 4);
        let len = 3 + rng.below(14) as usize;
        let ops = random_history(&mut rng, len, mpsc, true, false);
        let max = pick_max(&mut rng);
        // twin: a disk limit makes the append fail, like `Write(0)`
        let twin_ops: Vec<Op> = ops
            .iter()
            .map(|op| match *op {
                Op::Push { w, id, rows, fault: Fault::DiskLimit(_) } => Op::Push { w, id, rows, fault: Fault::Write(0) },
                o => o,
            })
            .collect();
        let (req, ans, wd) = run_mem(max, mpsc, 4096, &twin_ops);
        record(run, &req, &ans, &wd, &format!("twin#{i}"));
        let twin_ans: Vec<String> = ans.split(' ').map(|s| s.to_string()).collect();
        let fails = run_disk(max, mpsc, &ops, &twin_ans, &rt);
        run.count("disk-histories");
        for kind in ["disk-push", "disk-poll", "reader-stranded"] {
            let f = fails.iter().find(|(k, _)| k == kind);
            run.oracle(f.is_none(), &format!("{kind} disk#{i} hist={req}"), f.map(|x| x.1.as_str()).unwrap_or(""));
        }
    }
    run.note("mem backend: custom TempFileFactory with injected create/write/flush/finish failures; disk backend: DiskManager temp files with max_temp_directory_size forced to 0 / usage+600 around failing pushes");
}
