//! C17 — memory pool accounting is exact and limits are enforced.
//!
//! (a) sequential: random histories (≤ 30 ops, ≤ 3 live consumers, sizes around 0 and the limit)
//!     on `TrackConsumersPool<PeakRecordingPool(inner)>` for inner ∈ {Unbounded, Greedy, FairSpill};
//!     after every op every observable is printed and compared with the Lean state machine
//!     `Sm.Pool.step` (equality): outcome (Ok/Err/panic/returned value), `reserved()`, every live
//!     reservation's `size()`, `metrics()` sorted by consumer, `peak_reserved()`, `max_reserved()`.
//!     Implementation-level oracles (no model): reserved = Σ sizes; zero after dropping everything;
//!     failed try_grow changes nothing; greedy grant ≤ limit; fair grant within the share
//!     (per reservation, and per consumer — the latter is violated by the real code when one
//!     consumer owns several reservations: signature `fair-consumer-share multi-reservation`);
//!     per-consumer metrics; peak = running max since reset.
//! (b) concurrent: 2–3 OS threads share reservations of a bare inner pool behind the wrapper pool
//!     `Gate`, which parks the calling thread at the pool-call boundary so that the controller
//!     enforces a schedule of *phases* (pool call / size update) exactly as in the micro-step model
//!     `Sm.Pool.cstep`; observables after every phase are compared with the model (equality), and
//!     the implementation-level oracles are evaluated at every grant (signature of the confirmed
//!     defect: `fair-concurrent-shared-reservation`).
use std::cell::Cell;
use std::collections::{BTreeMap, BTreeSet, VecDeque};
use std::fmt::{Display, Formatter};
use std::num::NonZeroUsize;
use std::panic::AssertUnwindSafe;
use std::sync::{Arc, Condvar, Mutex};
use std::time::Duration;

use datafusion_common::{DataFusionError, Result};
use datafusion_execution::memory_pool::{
    FairSpillPool, GreedyMemoryPool, MemoryConsumer, MemoryPool, MemoryReservation, PeakRecordingPool,
    TrackConsumersPool, UnboundedMemoryPool,
};
use hutil::{Args, Rng, Run};

#[derive(Clone, Copy, PartialEq, Debug)]
enum Kind {
    U,
    G(usize),
    F(usize),
}
impl Kind {
    fn sexp(&self) -> String {
        match self {
            Kind::U => "u 0".into(),
            Kind::G(l) => format!("g {l}"),
            Kind::F(l) => format!("f {l}"),
        }
    }
    fn limit(&self) -> usize {
        match self {
            Kind::U => 100,
            Kind::G(l) | Kind::F(l) => *l,
        }
    }
    fn inner(&self) -> Arc<dyn MemoryPool> {
        match self {
            Kind::U => Arc::new(UnboundedMemoryPool::default()),
            Kind::G(l) => Arc::new(GreedyMemoryPool::new(*l)),
            Kind::F(l) => Arc::new(FairSpillPool::new(*l)),
        }
    }
    fn name(&self) -> &'static str {
        match self {
            Kind::U => "unbounded",
            Kind::G(_) => "greedy",
            Kind::F(_) => "fair",
        }
    }
}

fn pick_kind(rng: &mut Rng) -> Kind {
    let lim = *rng.pick(&[100usize, 100, 64, 10, 1, 0, 1000]);
    match rng.below(10) {
        0 => Kind::U,
        1..=4 => Kind::G(lim),
        _ => Kind::F(lim),
    }
}

fn sizes_for(lim: usize) -> Vec<usize> {
    vec![0, 1, 2, 7, lim / 3, lim / 2, lim / 2 + 1, lim.saturating_sub(1), lim, lim + 1, 2 * lim, 3 * lim + 5]
}

fn err_class(e: &DataFusionError) -> &'static str {
    match e.find_root() {
        DataFusionError::ResourcesExhausted(_) => "err:resources",
        DataFusionError::Internal(_) => "err:internal",
        _ => "err:other",
    }
}

// ------------------------------------------------------------------------------------------------
// (a) sequential histories
// ------------------------------------------------------------------------------------------------

struct Live {
    rid: usize,
    cid: usize,
    spill: bool,
    r: MemoryReservation,
}

struct Snapshot {
    reserved: usize,
    sizes: Vec<(usize, usize, usize, bool)>, // rid, cid, size, spill
    metrics: Vec<(usize, bool, usize, usize)>, // cid, spill, reserved, peak
    peak: usize,
    max: usize,
}

fn snapshot(track: &TrackConsumersPool<PeakRecordingPool>, live: &[Live]) -> Snapshot {
    let mut metrics: Vec<(usize, bool, usize, usize)> = track
        .metrics()
        .iter()
        .map(|m| (m.name.trim_start_matches('c').parse::<usize>().unwrap_or(usize::MAX), m.can_spill, m.reserved, m.peak))
        .collect();
    metrics.sort();
    Snapshot {
        reserved: track.reserved(),
        sizes: live.iter().map(|l| (l.rid, l.cid, l.r.size(), l.spill)).collect(),
        metrics,
        peak: track.inner().peak_reserved(),
        max: track.inner().max_reserved(),
    }
}

impl Snapshot {
    fn show(&self, out: &str) -> String {
        let sizes: Vec<String> = self.sizes.iter().map(|(r, _, s, _)| format!("{r}:{s}")).collect();
        let ms: Vec<String> =
            self.metrics.iter().map(|(c, sp, r, p)| format!("{c}:{}:{r}:{p}", if *sp { "t" } else { "f" })).collect();
        format!("{out}/{}/{}/{}/{}/{}", self.reserved, sizes.join(","), ms.join(","), self.peak, self.max)
    }
    fn sum(&self) -> usize {
        self.sizes.iter().map(|x| x.2).sum()
    }
    fn sum_cid(&self, c: usize) -> usize {
        self.sizes.iter().filter(|x| x.1 == c).map(|x| x.2).sum()
    }
    fn n_res_of(&self, c: usize) -> usize {
        self.sizes.iter().filter(|x| x.1 == c).count()
    }
    fn unspillable(&self) -> usize {
        self.sizes.iter().filter(|x| !x.3).map(|x| x.2).sum()
    }
    fn num_spill(&self) -> usize {
        self.sizes.iter().filter(|x| x.3).map(|x| x.1).collect::<BTreeSet<_>>().len()
    }
    /// the fair pool's documented share `(pool_size - unspillable) / num_spillable consumers`
    fn fair_share(&self, lim: usize) -> usize {
        let avail = lim.saturating_sub(self.unspillable());
        avail.checked_div(self.num_spill()).unwrap_or(avail)
    }
    fn same_state(&self, o: &Snapshot) -> bool {
        self.reserved == o.reserved && self.sizes == o.sizes && self.metrics == o.metrics && self.peak == o.peak && self.max == o.max
    }
}

/// first failure per oracle category of one history
#[derive(Default)]
struct Fails(BTreeMap<&'static str, String>);
impl Fails {
    fn set(&mut self, cat: &'static str, detail: String) {
        self.0.entry(cat).or_insert(detail);
    }
}

const SEQ_CATS: [&str; 9] = [
    "reserved-ne-sum",
    "nonzero-after-drop",
    "failed-op-changed-state",
    "greedy-limit",
    "fair-reservation-share",
    "fair-consumer-share multi-reservation",
    "fair-unspillable-limit",
    "tracked-ne-consumer",
    "peak-ne-running-max",
];

/// One sequential history. `script`: fixed ops (directed case) or None = random.
fn seq_history(run: &mut Run, rng: &mut Rng, kind: Kind, script: Option<&[&str]>, tag: &str) {
    let lim = kind.limit();
    let peak = PeakRecordingPool::new(kind.inner());
    let track = Arc::new(TrackConsumersPool::new(peak, NonZeroUsize::new(3).unwrap()));
    let pool: Arc<dyn MemoryPool> = Arc::clone(&track) as _;
    let mut live: Vec<Live> = vec![];
    let (mut next_rid, mut next_cid) = (0usize, 0usize);
    let mut req = format!("({}", kind.sexp());
    let mut ans: Vec<String> = vec![];
    let mut kinds: BTreeSet<&'static str> = BTreeSet::new();
    let mut fails = Fails::default();
    let sizes = sizes_for(lim);
    let nops = match script {
        Some(s) => s.len(),
        None => 3 + rng.below(28) as usize,
    };
    // ground truth for the peak oracle, computed from reserved() after every op
    let (mut g_peak, mut g_max) = (0usize, 0usize);
    for step in 0..nops {
        // ---------------------------------------------------------------- choose the op
        let op: String = match script {
            Some(s) => s[step].to_string(),
            None => {
                let n_cons = live.iter().map(|l| l.cid).collect::<BTreeSet<_>>().len();
                let c = rng.below(100);
                if live.is_empty() || (c < 10 && n_cons < 3 && live.len() < 6) {
                    format!("(reg {})", if rng.chance(3, 5) { "t" } else { "f" })
                } else {
                    let l = &live[rng.below(live.len() as u64) as usize];
                    let sz = l.r.size();
                    let any = *rng.pick(&sizes);
                    let rel = *rng.pick(&[0, 1, sz / 2, sz.saturating_sub(1), sz, sz + 1, any]);
                    match c {
                        10..=17 => format!("(grow {} {})", l.rid, *rng.pick(&[0, 1, 7, lim / 3, lim / 2, lim + 1])),
                        18..=44 => format!("(trygrow {} {any})", l.rid),
                        45..=52 => format!("(shrink {} {rel})", l.rid),
                        53..=59 => format!("(tryshrink {} {rel})", l.rid),
                        60..=63 => format!("(resize {} {})", l.rid, *rng.pick(&[0, sz, sz + 1, sz.saturating_sub(1), lim / 2, lim])),
                        64..=71 => format!("(tryresize {} {})", l.rid, *rng.pick(&[0, sz, sz + 1, sz.saturating_sub(1), any, lim])),
                        72..=77 if live.len() < 6 => format!("(split {} {rel})", l.rid),
                        78..=82 if live.len() < 6 => format!("(newempty {})", l.rid),
                        83..=86 if live.len() < 6 => format!("(take {})", l.rid),
                        87..=90 => format!("(free {})", l.rid),
                        91..=96 => format!("(drop {})", l.rid),
                        97..=99 => "(resetpeak)".to_string(),
                        _ => format!("(trygrow {} {any})", l.rid),
                    }
                }
            }
        };
        req.push(' ');
        req.push_str(&op);
        let toks: Vec<&str> = op.trim_matches(|c| c == '(' || c == ')').split(' ').collect();
        let a1: usize = toks.get(1).and_then(|t| t.parse().ok()).unwrap_or(0);
        let a2: usize = toks.get(2).and_then(|t| t.parse().ok()).unwrap_or(0);
        let idx = live.iter().position(|l| l.rid == a1);
        let before = snapshot(&track, &live);
        // ---------------------------------------------------------------- run it on the real code
        let mut granted_growth: Option<(usize, usize)> = None; // (rid, n) of a granted fallible growth
        let mut failed = false;
        let out: String = match toks[0] {
            "reg" => {
                let spill = toks[1] == "t";
                let r = MemoryConsumer::new(format!("c{next_cid}")).with_can_spill(spill).register(&pool);
                live.push(Live { rid: next_rid, cid: next_cid, spill, r });
                next_rid += 1;
                next_cid += 1;
                kinds.insert("reg");
                format!("reg:{}:{}", next_rid - 1, next_cid - 1)
            }
            "resetpeak" => {
                track.inner().reset_peak();
                kinds.insert("resetpeak");
                "unit".into()
            }
            name => {
                let i = idx.expect("harness only addresses live reservations");
                match name {
                    "grow" => {
                        live[i].r.grow(a2);
                        kinds.insert("grow");
                        "unit".into()
                    }
                    "trygrow" => match live[i].r.try_grow(a2) {
                        Ok(()) => {
                            granted_growth = Some((a1, a2));
                            kinds.insert("trygrow-ok");
                            "ok".into()
                        }
                        Err(e) => {
                            failed = true;
                            kinds.insert("trygrow-err");
                            err_class(&e).into()
                        }
                    },
                    "shrink" => match hutil::catch(AssertUnwindSafe(|| live[i].r.shrink(a2))) {
                        Ok(()) => {
                            kinds.insert("shrink");
                            "unit".into()
                        }
                        Err(_) => {
                            failed = true;
                            kinds.insert("shrink-panic");
                            "panic".into()
                        }
                    },
                    "tryshrink" => match live[i].r.try_shrink(a2) {
                        Ok(n) => {
                            kinds.insert("tryshrink-ok");
                            format!("ok:{n}")
                        }
                        Err(e) => {
                            failed = true;
                            kinds.insert("tryshrink-err");
                            err_class(&e).into()
                        }
                    },
                    "resize" => {
                        live[i].r.resize(a2);
                        kinds.insert("resize");
                        "unit".into()
                    }
                    "tryresize" => {
                        let sz = live[i].r.size();
                        match live[i].r.try_resize(a2) {
                            Ok(()) => {
                                if a2 > sz {
                                    granted_growth = Some((a1, a2 - sz));
                                }
                                kinds.insert("tryresize-ok");
                                "ok".into()
                            }
                            Err(e) => {
                                failed = true;
                                kinds.insert("tryresize-err");
                                err_class(&e).into()
                            }
                        }
                    }
                    "split" => match hutil::catch(AssertUnwindSafe(|| live[i].r.split(a2))) {
                        Ok(r) => {
                            let (cid, spill) = (live[i].cid, live[i].spill);
                            live.push(Live { rid: next_rid, cid, spill, r });
                            next_rid += 1;
                            kinds.insert("split");
                            format!("new:{}", next_rid - 1)
                        }
                        Err(_) => {
                            failed = true;
                            kinds.insert("split-panic");
                            "panic".into()
                        }
                    },
                    "newempty" => {
                        let r = live[i].r.new_empty();
                        let (cid, spill) = (live[i].cid, live[i].spill);
                        live.push(Live { rid: next_rid, cid, spill, r });
                        next_rid += 1;
                        kinds.insert("newempty");
                        format!("new:{}", next_rid - 1)
                    }
                    "take" => {
                        let r = live[i].r.take();
                        let (cid, spill) = (live[i].cid, live[i].spill);
                        live.push(Live { rid: next_rid, cid, spill, r });
                        next_rid += 1;
                        kinds.insert("take");
                        format!("new:{}", next_rid - 1)
                    }
                    "free" => {
                        let n = live[i].r.free();
                        kinds.insert("free");
                        format!("freed:{n}")
                    }
                    "drop" => {
                        let l = live.remove(i);
                        drop(l);
                        kinds.insert("drop");
                        "unit".into()
                    }
                    other => panic!("harness: unknown op {other}"),
                }
            }
        };
        let after = snapshot(&track, &live);
        ans.push(after.show(&out));
        // ---------------------------------------------------------------- implementation-level oracles
        let here = || format!("{} after `{req})`", kind.name());
        if after.reserved != after.sum() {
            fails.set("reserved-ne-sum", format!("{}: reserved()={} but live reservations hold {}", here(), after.reserved, after.sum()));
        }
        if failed && !before.same_state(&after) {
            fails.set("failed-op-changed-state", format!("{}: the op answered `{out}` but changed an observable", here()));
        }
        for (c, _, r, p) in &after.metrics {
            if *r != after.sum_cid(*c) || p < r {
                fails.set("tracked-ne-consumer", format!("{}: metrics of consumer {c}: reserved={r} peak={p}, its reservations hold {}", here(), after.sum_cid(*c)));
            }
        }
        let tracked: BTreeSet<usize> = after.metrics.iter().map(|m| m.0).collect();
        let owners: BTreeSet<usize> = after.sizes.iter().map(|x| x.1).collect();
        if tracked != owners {
            fails.set("tracked-ne-consumer", format!("{}: tracked consumers {tracked:?} != consumers with live reservations {owners:?}", here()));
        }
        if toks[0] == "resetpeak" {
            g_peak = after.reserved;
        } else {
            g_peak = g_peak.max(after.reserved);
        }
        g_max = g_max.max(after.reserved);
        if after.peak != g_peak || after.max != g_max {
            fails.set("peak-ne-running-max", format!("{}: peak_reserved()={} max_reserved()={} but the running maxima of reserved() are {g_peak} / {g_max}", here(), after.peak, after.max));
        }
        if let Some((rid, n)) = granted_growth {
            let (_, cid, rsize, spill) = *after.sizes.iter().find(|x| x.0 == rid).unwrap();
            match kind {
                Kind::G(l) => {
                    if after.reserved > l {
                        fails.set("greedy-limit", format!("{}: granted fallible growth of {n} leaves reserved()={} > limit {l}", here(), after.reserved));
                    }
                }
                Kind::F(l) => {
                    if spill {
                        let share = after.fair_share(l);
                        let ctotal = after.sum_cid(cid);
                        if rsize > share {
                            fails.set("fair-reservation-share", format!("{}: granted try_grow({n}) leaves reservation {rid} at {rsize} > fair share {share}", here()));
                        } else if ctotal > share && after.n_res_of(cid) >= 2 {
                            run.count("finding:fair-consumer-share-multi-reservation");
                            fails.set(
                                "fair-consumer-share multi-reservation",
                                format!("{}: granted try_grow({n}) on reservation {rid}: spilling consumer {cid} now holds {ctotal} over {} reservations > its fair share {share} (pool limit {l})", here(), after.n_res_of(cid)),
                            );
                        } else if ctotal > share {
                            fails.set("fair-reservation-share", format!("{}: consumer {cid} holds {ctotal} > share {share} with one reservation", here()));
                        }
                        if after.reserved > l {
                            run.count("fair-total-above-limit-after-grant(by design)");
                        }
                    } else if n > 0 && after.reserved > l {
                        fails.set("fair-unspillable-limit", format!("{}: granted unspillable try_grow({n}) leaves reserved()={} > limit {l}", here(), after.reserved));
                    }
                }
                Kind::U => {}
            }
        }
    }
    req.push(')');
    // ---------------------------------------------------------------- release everything
    live.clear();
    let end = snapshot(&track, &live);
    if end.reserved != 0 || !end.metrics.is_empty() {
        fails.set("nonzero-after-drop", format!("{} after history `{req}` and dropping every reservation: reserved()={} tracked consumers={:?}", kind.name(), end.reserved, end.metrics));
    }
    for k in &kinds {
        run.count(&format!("seq:{k}"));
    }
    run.count(&format!("seq-kind:{}", kind.name()));
    let nontrivial = nops >= 3 && kinds.len() >= 3;
    run.case("run", &req, &ans.join(" "), nontrivial);
    for cat in SEQ_CATS {
        let f = fails.0.get(cat);
        run.oracle(f.is_none(), &format!("{cat} {tag} {req}"), f.map(|s| s.as_str()).unwrap_or(""));
    }
}

// ------------------------------------------------------------------------------------------------
// (b) concurrent phases, enforced by a wrapper pool
// ------------------------------------------------------------------------------------------------

thread_local! {
    /// worker index of the current thread; usize::MAX = controller (never parked)
    static TID: Cell<usize> = const { Cell::new(usize::MAX) };
}

#[derive(Debug, Clone, PartialEq)]
enum Evt {
    /// the thread is parked at the pool-call boundary (phase A done)
    Parked,
    /// the API call returned
    Done(String),
}

#[derive(Default)]
struct CtlState {
    tokens: Vec<u64>,
    events: VecDeque<(usize, Evt)>,
}
#[derive(Default)]
struct Ctl {
    m: Mutex<CtlState>,
    cv: Condvar,
}
impl Ctl {
    fn wait_token(&self, tid: usize) {
        let mut g = self.m.lock().unwrap();
        while g.tokens[tid] == 0 {
            g = self.cv.wait(g).unwrap();
        }
        g.tokens[tid] -= 1;
    }
    fn emit(&self, tid: usize, e: Evt) {
        self.m.lock().unwrap().events.push_back((tid, e));
        self.cv.notify_all();
    }
    /// controller: let `tid` run one phase and wait for what it reports (None = hang)
    fn give(&self, tid: usize) -> Option<(usize, Evt)> {
        let mut g = self.m.lock().unwrap();
        g.tokens[tid] += 1;
        self.cv.notify_all();
        loop {
            if let Some(e) = g.events.pop_front() {
                return Some(e);
            }
            let (g2, to) = self.cv.wait_timeout(g, Duration::from_secs(120)).unwrap();
            g = g2;
            if to.timed_out() && g.events.is_empty() {
                return None;
            }
        }
    }
}

/// Wrapper pool: delegates to `inner` and parks worker threads at the boundary between the pool
/// call and the reservation's own `size` update.
#[derive(Debug)]
struct Gate {
    inner: Arc<dyn MemoryPool>,
    ctl: Arc<Ctl>,
}
impl std::fmt::Debug for Ctl {
    fn fmt(&self, f: &mut Formatter<'_>) -> std::fmt::Result {
        write!(f, "Ctl")
    }
}
impl Display for Gate {
    fn fmt(&self, f: &mut Formatter<'_>) -> std::fmt::Result {
        write!(f, "gate({})", self.inner)
    }
}
impl Gate {
    fn park(&self) {
        let tid = TID.with(|t| t.get());
        if tid != usize::MAX {
            self.ctl.emit(tid, Evt::Parked);
            self.ctl.wait_token(tid);
        }
    }
}
impl MemoryPool for Gate {
    fn name(&self) -> &str {
        "gate"
    }
    fn register(&self, c: &MemoryConsumer) {
        self.inner.register(c)
    }
    fn unregister(&self, c: &MemoryConsumer) {
        self.inner.unregister(c)
    }
    fn grow(&self, r: &MemoryReservation, additional: usize) {
        self.inner.grow(r, additional);
        self.park(); // granted; `size.fetch_add` comes after the return
    }
    fn shrink(&self, r: &MemoryReservation, shrink: usize) {
        self.park(); // `size` has already been decreased by the caller
        self.inner.shrink(r, shrink);
    }
    fn try_grow(&self, r: &MemoryReservation, additional: usize) -> Result<()> {
        self.inner.try_grow(r, additional)?;
        self.park();
        Ok(())
    }
    fn reserved(&self) -> usize {
        self.inner.reserved()
    }
}

#[derive(Clone, Debug)]
enum COp {
    Grow(usize, usize),
    TryGrow(usize, usize),
    Shrink(usize, usize),
    TryShrink(usize, usize),
    Free(usize),
}
impl COp {
    fn sexp(&self) -> String {
        match self {
            COp::Grow(r, n) => format!("(grow {r} {n})"),
            COp::TryGrow(r, n) => format!("(trygrow {r} {n})"),
            COp::Shrink(r, n) => format!("(shrink {r} {n})"),
            COp::TryShrink(r, n) => format!("(tryshrink {r} {n})"),
            COp::Free(r) => format!("(free {r})"),
        }
    }
    fn rid(&self) -> usize {
        match self {
            COp::Grow(r, _) | COp::TryGrow(r, _) | COp::Shrink(r, _) | COp::TryShrink(r, _) | COp::Free(r) => *r,
        }
    }
}

struct Scenario {
    kind: Kind,
    /// reservation i belongs to consumer res[i].0 with spill flag res[i].1
    res: Vec<(usize, bool)>,
    progs: Vec<Vec<COp>>,
    /// thread ids; completed by the controller with a round-robin suffix
    sched: Vec<usize>,
}

#[derive(Clone, Copy, PartialEq)]
enum Fly {
    None,
    Grow(usize, usize),   // rid, n : granted by the pool, not yet in size
    Shrink(usize, usize), // rid, n : taken out of size, pool not yet told
}

const CONC_CATS: [&str; 8] = [
    "conc reserved-ne-sum-plus-inflight",
    "conc reserved-ne-sum-at-quiescence",
    "conc greedy-limit",
    "conc fair-reservation-share",
    "fair-concurrent-shared-reservation",
    "fair-consumer-share multi-reservation",
    "conc fair-unspillable-limit",
    "conc nonzero-after-drop",
];

fn conc_scenario(run: &mut Run, sc: &Scenario, tag: &str) {
    let ctl = Arc::new(Ctl::default());
    let nt = sc.progs.len();
    ctl.m.lock().unwrap().tokens = vec![0; nt];
    let gate: Arc<dyn MemoryPool> = Arc::new(Gate { inner: sc.kind.inner(), ctl: Arc::clone(&ctl) });
    // reservations: the first of a consumer registers it, later ones share the registration
    let mut rs: Vec<Arc<MemoryReservation>> = vec![];
    let mut first_of: BTreeMap<usize, usize> = BTreeMap::new();
    for (i, (cid, spill)) in sc.res.iter().enumerate() {
        let r = match first_of.get(cid) {
            Some(j) => rs[*j].new_empty(),
            None => {
                first_of.insert(*cid, i);
                MemoryConsumer::new(format!("c{cid}")).with_can_spill(*spill).register(&gate)
            }
        };
        rs.push(Arc::new(r));
    }
    // workers
    let mut handles = vec![];
    for (tid, prog) in sc.progs.iter().enumerate() {
        let (ctl, prog, rs) = (Arc::clone(&ctl), prog.clone(), rs.clone());
        handles.push(std::thread::spawn(move || {
            TID.with(|t| t.set(tid));
            for op in prog {
                ctl.wait_token(tid);
                let r = &rs[op.rid()];
                let out: String = match &op {
                    COp::Grow(_, n) => {
                        r.grow(*n);
                        "unit".into()
                    }
                    COp::TryGrow(_, n) => match r.try_grow(*n) {
                        Ok(()) => "ok".into(),
                        Err(e) => err_class(&e).into(),
                    },
                    COp::Shrink(_, n) => match hutil::catch(AssertUnwindSafe(|| r.shrink(*n))) {
                        Ok(()) => "unit".into(),
                        Err(_) => "panic".into(),
                    },
                    COp::TryShrink(_, n) => match r.try_shrink(*n) {
                        Ok(k) => format!("ok:{k}"),
                        Err(e) => err_class(&e).into(),
                    },
                    COp::Free(_) => format!("freed:{}", r.free()),
                };
                ctl.emit(tid, Evt::Done(out));
            }
        }));
    }
    // controller
    let lim = sc.kind.limit();
    let mut pc = vec![0usize; nt];
    let mut fly = vec![Fly::None; nt];
    let mut outs: Vec<Vec<String>> = vec![vec![]; nt];
    let mut sched_done: Vec<usize> = vec![];
    let mut lines: Vec<String> = vec![];
    let mut fails = Fails::default();
    let mut hang = false;
    let mut preempt = 0u64;
    let num_spill = sc.res.iter().filter(|x| x.1).map(|x| x.0).collect::<BTreeSet<_>>().len();
    let desc = scenario_sexp(sc, None);
    let mut plan: VecDeque<usize> = sc.sched.iter().copied().collect();
    loop {
        let t = match plan.pop_front() {
            Some(t) => t,
            None => match (0..nt).find(|&t| pc[t] < sc.progs[t].len()) {
                Some(t) => t, // completion suffix: finish the lowest unfinished thread phase by phase
                None => break,
            },
        };
        sched_done.push(t);
        let sizes_before: Vec<usize> = rs.iter().map(|r| r.size()).collect();
        if t < nt && pc[t] < sc.progs[t].len() {
            if fly.iter().enumerate().any(|(u, f)| u != t && *f != Fly::None) {
                preempt += 1;
            }
            let op = sc.progs[t][pc[t]].clone();
            let Some((who, evt)) = ctl.give(t) else {
                hang = true;
                break;
            };
            assert_eq!(who, t, "only the scheduled thread may move");
            match evt {
                Evt::Parked => {
                    fly[t] = match op {
                        COp::Grow(r, n) | COp::TryGrow(r, n) => Fly::Grow(r, n),
                        COp::Shrink(r, n) | COp::TryShrink(r, n) => Fly::Shrink(r, n),
                        COp::Free(r) => Fly::Shrink(r, sizes_before[r]),
                    };
                }
                Evt::Done(o) => {
                    fly[t] = Fly::None;
                    outs[t].push(o);
                    pc[t] += 1;
                }
            }
            // ---- oracles, evaluated while every thread is parked or idle
            let sizes: Vec<usize> = rs.iter().map(|r| r.size()).collect();
            let reserved = gate.reserved();
            let fly_g = |pred: &dyn Fn(usize) -> bool| -> usize {
                fly.iter().map(|f| match f { Fly::Grow(r, n) if pred(*r) => *n, _ => 0 }).sum()
            };
            let fly_all: usize = fly.iter().map(|f| match f { Fly::Grow(_, n) | Fly::Shrink(_, n) => *n, Fly::None => 0 }).sum();
            let sum: usize = sizes.iter().sum();
            let here = || format!("{} `{desc}` after schedule {:?}", sc.kind.name(), sched_done);
            if reserved != sum + fly_all {
                fails.set("conc reserved-ne-sum-plus-inflight", format!("{}: reserved()={reserved}, sizes sum to {sum}, in flight {fly_all}", here()));
            }
            if let (Fly::Grow(r, n), COp::TryGrow(..)) = (fly[t], &op) {
                // a fallible growth of `n` on reservation `r` has just been granted
                let held = |pred: &dyn Fn(usize) -> bool| -> usize {
                    sizes.iter().enumerate().filter(|(i, _)| pred(*i)).map(|(_, s)| *s).sum::<usize>() + fly_g(pred)
                };
                match sc.kind {
                    Kind::G(l) => {
                        if reserved > l || held(&|_| true) > l {
                            fails.set("conc greedy-limit", format!("{}: granted try_grow({n}) leaves reserved()={reserved} > limit {l}", here()));
                        }
                    }
                    Kind::F(l) => {
                        let (cid, spill) = sc.res[r];
                        if spill {
                            let unspill_held = held(&|i| !sc.res[i].1);
                            let avail = l.saturating_sub(unspill_held);
                            let share = avail.checked_div(num_spill).unwrap_or(avail);
                            let q_r = held(&|i| i == r);
                            let q_c = held(&|i| sc.res[i].0 == cid);
                            if sizes[r] + n > share {
                                fails.set("conc fair-reservation-share", format!("{}: granted try_grow({n}) with size()={} > share {share}", here(), sizes[r]));
                            } else if q_r > share {
                                run.count("finding:fair-concurrent-shared-reservation");
                                fails.set(
                                    "fair-concurrent-shared-reservation",
                                    format!("{}: try_grow({n}) granted on reservation {r} while another granted growth of the same reservation was still in flight: reservation holds/has been granted {q_r} > fair share {share} (limit {l}), reserved()={reserved}", here()),
                                );
                            } else if q_c > share {
                                run.count("finding:fair-consumer-share-multi-reservation");
                                fails.set(
                                    "fair-consumer-share multi-reservation",
                                    format!("{}: try_grow({n}) granted on reservation {r}: consumer {cid} holds/has been granted {q_c} over several reservations > fair share {share} (limit {l})", here()),
                                );
                            }
                        } else if n > 0 && held(&|_| true) > l {
                            fails.set("conc fair-unspillable-limit", format!("{}: granted unspillable try_grow({n}) leaves {} held > limit {l}", here(), held(&|_| true)));
                        }
                    }
                    Kind::U => {}
                }
            }
        }
        let sizes: Vec<String> = rs.iter().enumerate().map(|(i, r)| format!("{i}:{}", r.size())).collect();
        lines.push(format!("{}/{}", gate.reserved(), sizes.join(",")));
    }
    if hang {
        run.oracle(false, &format!("conc hang {tag} {desc}"), &format!("no progress within 120 s after schedule {sched_done:?}"));
        run.note("C17: a concurrent scenario hung; worker threads leaked");
        return;
    }
    for h in handles {
        let _ = h.join();
    }
    let sum: usize = rs.iter().map(|r| r.size()).sum();
    if gate.reserved() != sum {
        fails.set("conc reserved-ne-sum-at-quiescence", format!("{} `{desc}` schedule {sched_done:?}: reserved()={} but reservations hold {sum}", sc.kind.name(), gate.reserved()));
    }
    let req = scenario_sexp(sc, Some(&sched_done));
    let ans = format!("{} | {} | q", lines.join(" "), outs.iter().map(|o| o.join(",")).collect::<Vec<_>>().join(";"));
    drop(rs);
    if gate.reserved() != 0 {
        fails.set("conc nonzero-after-drop", format!("{} `{desc}`: reserved()={} after dropping every reservation", sc.kind.name(), gate.reserved()));
    }
    run.add("conc:preempted-phases", preempt);
    run.count(&format!("conc-kind:{}", sc.kind.name()));
    run.case("crun", &req, &ans, preempt > 0);
    for cat in CONC_CATS {
        let f = fails.0.get(cat);
        run.oracle(f.is_none(), &format!("{cat} {tag} {req}"), f.map(|s| s.as_str()).unwrap_or(""));
    }
}

fn scenario_sexp(sc: &Scenario, sched: Option<&[usize]>) -> String {
    let res: Vec<String> = sc.res.iter().map(|(c, s)| format!("({c} {})", if *s { "t" } else { "f" })).collect();
    let progs: Vec<String> = sc.progs.iter().map(|p| format!("({})", p.iter().map(|o| o.sexp()).collect::<Vec<_>>().join(" "))).collect();
    let sched: Vec<String> = sched.unwrap_or(&sc.sched).iter().map(|t| t.to_string()).collect();
    format!("({} ({}) ({}) ({}))", sc.kind.sexp(), res.join(" "), progs.join(" "), sched.join(" "))
}

fn random_scenario(rng: &mut Rng, max_ops: u64) -> Scenario {
    let lim = *rng.pick(&[100usize, 100, 64, 10]);
    let kind = match rng.below(10) {
        0 => Kind::U,
        1..=3 => Kind::G(lim),
        _ => Kind::F(lim),
    };
    let n_cons = 1 + rng.below(3) as usize;
    let mut res = vec![];
    for c in 0..n_cons {
        let spill = rng.chance(2, 3);
        res.push((c, spill));
        if rng.chance(1, 3) && res.len() < 4 {
            res.push((c, spill));
        }
    }
    let nt = 2 + rng.below(2) as usize;
    let sizes = [0usize, 1, lim / 3, lim / 2, lim / 2 + 1, lim * 3 / 5, lim - 1, lim, lim + 1];
    // most ops go to a "hot" reservation so that threads really share it
    let hot = rng.below(res.len() as u64) as usize;
    let mut progs = vec![];
    for _ in 0..nt {
        let n = 1 + rng.below(max_ops) as usize;
        let mut p = vec![];
        for _ in 0..n {
            let r = if rng.chance(2, 3) { hot } else { rng.below(res.len() as u64) as usize };
            let a = *rng.pick(&sizes);
            p.push(match rng.below(100) {
                0..=9 => COp::Grow(r, *rng.pick(&[0usize, 1, 7, lim / 2])),
                10..=54 => COp::TryGrow(r, a),
                55..=69 => COp::Shrink(r, *rng.pick(&[0usize, 1, lim / 3, lim / 2, a])),
                70..=84 => COp::TryShrink(r, *rng.pick(&[0usize, 1, lim / 3, lim / 2, a])),
                _ => COp::Free(r),
            });
        }
        progs.push(p);
    }
    let total: usize = progs.iter().map(|p| 2 * p.len()).sum();
    let sched = (0..total).map(|_| rng.below(nt as u64) as usize).collect();
    Scenario { kind, res, progs, sched }
}

/// all interleavings of `a` phases of thread 0 and `b` phases of thread 1
fn interleavings(a: usize, b: usize) -> Vec<Vec<usize>> {
    fn go(a: usize, b: usize, cur: &mut Vec<usize>, out: &mut Vec<Vec<usize>>) {
        if a == 0 && b == 0 {
            out.push(cur.clone());
            return;
        }
        if a > 0 {
            cur.push(0);
            go(a - 1, b, cur, out);
            cur.pop();
        }
        if b > 0 {
            cur.push(1);
            go(a, b - 1, cur, out);
            cur.pop();
        }
    }
    let mut out = vec![];
    go(a, b, &mut vec![], &mut out);
    out
}

// ------------------------------------------------------------------------------------------------
// (c) real-thread STRESS oracles.
//
// The Gate wrapper above interleaves threads only at the pool-call boundary, so it cannot see
//   class A: a limit check that is no longer atomic INSIDE a pool call (load → compare → add), nor
//   class B: a reservation-side read-modify-write that is no longer atomic (e.g. `free` doing
//            load → store(0) instead of swap(0)), which loses a concurrent update of `size`.
// These detectors run free-running OS threads on the real code.  Every predicate checked here is
// guaranteed by the property under EVERY schedule (reserved_eq_sum_live_at_quiescence,
// greedy_limit_concurrent, fair_grant_within_reservation_share with one reservation per consumer),
// so they cannot raise a false alarm on correct code; they are PROBABILISTIC detectors (they need the
// OS to produce the bad interleaving) — a silent run proves nothing.  Work is bounded by iteration
// counts, not by wall clock.  `stress_selftest` measures on every run how often they fire on
// harness-local re-implementations carrying the two defect classes (counters/notes only).
// ------------------------------------------------------------------------------------------------

use std::sync::Barrier;
use std::sync::atomic::{AtomicBool, AtomicUsize, Ordering as AO};

#[derive(Clone, Copy, PartialEq, Debug)]
enum Stack {
    Bare,
    TrackPeak,
}
impl Stack {
    fn name(&self) -> &'static str {
        match self {
            Stack::Bare => "bare",
            Stack::TrackPeak => "track+peak",
        }
    }
}

struct Built {
    pool: Arc<dyn MemoryPool>,
    track: Option<Arc<TrackConsumersPool<PeakRecordingPool>>>,
}

fn build(inner: Arc<dyn MemoryPool>, stack: Stack) -> Built {
    match stack {
        Stack::Bare => Built { pool: inner, track: None },
        Stack::TrackPeak => {
            let t = Arc::new(TrackConsumersPool::new(PeakRecordingPool::new(inner), NonZeroUsize::new(3).unwrap()));
            Built { pool: Arc::clone(&t) as _, track: Some(t) }
        }
    }
}

/// Harness-local greedy pool carrying defect class A: the limit check and the addition are two
/// separate atomic operations.  Used only by `stress_selftest`.
#[derive(Debug)]
struct RacyGreedy {
    limit: usize,
    used: AtomicUsize,
}
impl Display for RacyGreedy {
    fn fmt(&self, f: &mut Formatter<'_>) -> std::fmt::Result {
        write!(f, "racy-greedy({})", self.limit)
    }
}
impl MemoryPool for RacyGreedy {
    fn name(&self) -> &str {
        "racy-greedy"
    }
    fn grow(&self, _r: &MemoryReservation, additional: usize) {
        self.used.fetch_add(additional, AO::Relaxed);
    }
    fn shrink(&self, _r: &MemoryReservation, shrink: usize) {
        self.used.fetch_sub(shrink, AO::Relaxed);
    }
    fn try_grow(&self, _r: &MemoryReservation, additional: usize) -> Result<()> {
        let used = self.used.load(AO::Relaxed);
        if used + additional > self.limit {
            return Err(DataFusionError::ResourcesExhausted("racy-greedy".into()));
        }
        self.used.fetch_add(additional, AO::Relaxed);
        Ok(())
    }
    fn reserved(&self) -> usize {
        self.used.load(AO::Relaxed)
    }
}

struct AConfig {
    label: String,
    inner: Arc<dyn MemoryPool>,
    stack: Stack,
    limit: usize,
    n: usize,
    spill: bool,
    threads: usize,
    iters: usize,
}

/// Class A detector: `threads` threads, each with its OWN consumer and reservation, do nothing but
/// `try_grow(n)`; on Ok they count themselves as holder, read `pool.reserved()`, then `shrink(n)`.
/// Must hold at every observation: `reserved() ≤ limit` and `holders × n ≤ limit`; at the end
/// `reserved() = 0`.  Returns (witness, grants).
fn stress_a(cfg: &AConfig) -> (Option<(&'static str, String)>, usize) {
    let built = build(Arc::clone(&cfg.inner), cfg.stack);
    let pool = built.pool;
    let holders = Arc::new(AtomicUsize::new(0));
    let grants = Arc::new(AtomicUsize::new(0));
    let stop = Arc::new(AtomicBool::new(false));
    let witness: Arc<Mutex<Option<(&'static str, String)>>> = Arc::new(Mutex::new(None));
    let barrier = Arc::new(Barrier::new(cfg.threads));
    let mut handles = vec![];
    for t in 0..cfg.threads {
        let r = MemoryConsumer::new(format!("c{t}")).with_can_spill(cfg.spill).register(&pool);
        let (pool, holders, grants, stop, witness, barrier) =
            (Arc::clone(&pool), Arc::clone(&holders), Arc::clone(&grants), Arc::clone(&stop), Arc::clone(&witness), Arc::clone(&barrier));
        let (n, limit, iters) = (cfg.n, cfg.limit, cfg.iters);
        handles.push(std::thread::spawn(move || {
            barrier.wait();
            let body = hutil::catch(AssertUnwindSafe(|| {
                for _ in 0..iters {
                    if stop.load(AO::Relaxed) {
                        break;
                    }
                    if r.try_grow(n).is_ok() {
                        let c = holders.fetch_add(1, AO::SeqCst) + 1;
                        let seen = pool.reserved();
                        if seen > limit || c * n > limit {
                            witness.lock().unwrap().get_or_insert((
                                "limit-exceeded",
                                format!("thread {t}: after a granted try_grow({n}): reserved()={seen}, {c} simultaneous holders of {n} bytes, limit {limit}"),
                            ));
                            stop.store(true, AO::Relaxed);
                        }
                        grants.fetch_add(1, AO::Relaxed);
                        holders.fetch_sub(1, AO::SeqCst);
                        r.shrink(n);
                    }
                }
            }));
            if let Err(m) = body {
                witness.lock().unwrap().get_or_insert(("unexpected-panic", format!("thread {t} panicked: {m}")));
                stop.store(true, AO::Relaxed);
            }
            r // keep the registration alive until every thread is done
        }));
    }
    let rs: Vec<MemoryReservation> = handles.into_iter().filter_map(|h| h.join().ok()).collect();
    let mut w = witness.lock().unwrap().take();
    let sum: usize = rs.iter().map(|r| r.size()).sum();
    if w.is_none() && pool.reserved() != sum {
        w = Some(("reserved-ne-sum-at-quiescence", format!("after all threads finished: reserved()={} but reservations hold {sum}", pool.reserved())));
    }
    drop(rs);
    if w.is_none() && pool.reserved() != 0 {
        w = Some(("nonzero-after-drop", format!("reserved()={} after dropping every reservation", pool.reserved())));
    }
    (w, grants.load(AO::Relaxed))
}

/// the reservation API as the stress threads use it (panics are caught per call)
trait ResApi: Send + Sync {
    fn size(&self) -> usize;
    fn grow(&self, n: usize);
    fn try_grow(&self, n: usize) -> bool;
    fn shrink(&self, n: usize) -> bool;
    fn try_shrink(&self, n: usize) -> bool;
    fn free(&self) -> usize;
    fn resize(&self, cap: usize) -> bool;
    fn try_resize(&self, cap: usize) -> bool;
    fn split(&self, n: usize) -> Option<Box<dyn ResApi>>;
    fn new_empty(&self) -> Box<dyn ResApi>;
}

impl ResApi for MemoryReservation {
    fn size(&self) -> usize {
        MemoryReservation::size(self)
    }
    fn grow(&self, n: usize) {
        MemoryReservation::grow(self, n)
    }
    fn try_grow(&self, n: usize) -> bool {
        MemoryReservation::try_grow(self, n).is_ok()
    }
    fn shrink(&self, n: usize) -> bool {
        hutil::catch(AssertUnwindSafe(|| MemoryReservation::shrink(self, n))).is_ok()
    }
    fn try_shrink(&self, n: usize) -> bool {
        MemoryReservation::try_shrink(self, n).is_ok()
    }
    fn free(&self) -> usize {
        MemoryReservation::free(self)
    }
    fn resize(&self, cap: usize) -> bool {
        hutil::catch(AssertUnwindSafe(|| MemoryReservation::resize(self, cap))).is_ok()
    }
    fn try_resize(&self, cap: usize) -> bool {
        MemoryReservation::try_resize(self, cap).is_ok()
    }
    fn split(&self, n: usize) -> Option<Box<dyn ResApi>> {
        hutil::catch(AssertUnwindSafe(|| MemoryReservation::split(self, n))).ok().map(|r| Box::new(r) as Box<dyn ResApi>)
    }
    fn new_empty(&self) -> Box<dyn ResApi> {
        Box::new(MemoryReservation::new_empty(self))
    }
}

/// defect class B variants for the harness-local reservation
#[derive(Clone, Copy, PartialEq, Debug)]
enum Defect {
    /// `free`: load → store(0) instead of swap(0)
    FreeLoadStore,
    /// `grow/try_grow`: load → store(+n) instead of fetch_add
    GrowLoadStore,
    /// `shrink/try_shrink/split`: load → check → store(−n) instead of fetch_update
    ShrinkLoadStore,
}

/// Harness-local re-implementation of `MemoryReservation` (same order of pool call and size update
/// as memory_pool/mod.rs) with ONE read-modify-write made non-atomic.  The pool is the real one;
/// `anchor` is a real reservation that only provides the consumer identity.  Used by `stress_selftest`.
struct RacyRes {
    anchor: Arc<MemoryReservation>,
    pool: Arc<dyn MemoryPool>,
    size: AtomicUsize,
    defect: Defect,
}
impl RacyRes {
    fn add(&self, n: usize) {
        if self.defect == Defect::GrowLoadStore {
            let v = self.size.load(AO::Relaxed);
            self.size.store(v + n, AO::Relaxed);
        } else {
            self.size.fetch_add(n, AO::Relaxed);
        }
    }
    fn sub_checked(&self, n: usize) -> bool {
        if self.defect == Defect::ShrinkLoadStore {
            let v = self.size.load(AO::Relaxed);
            match v.checked_sub(n) {
                Some(x) => {
                    self.size.store(x, AO::Relaxed);
                    true
                }
                None => false,
            }
        } else {
            self.size.fetch_update(AO::Relaxed, AO::Relaxed, |p| p.checked_sub(n)).is_ok()
        }
    }
}
impl ResApi for RacyRes {
    fn size(&self) -> usize {
        self.size.load(AO::Relaxed)
    }
    fn grow(&self, n: usize) {
        self.pool.grow(&self.anchor, n);
        self.add(n);
    }
    fn try_grow(&self, n: usize) -> bool {
        if self.pool.try_grow(&self.anchor, n).is_err() {
            return false;
        }
        self.add(n);
        true
    }
    fn shrink(&self, n: usize) -> bool {
        if !self.sub_checked(n) {
            return false;
        }
        self.pool.shrink(&self.anchor, n);
        true
    }
    fn try_shrink(&self, n: usize) -> bool {
        self.shrink(n)
    }
    fn free(&self) -> usize {
        let v = if self.defect == Defect::FreeLoadStore {
            let v = self.size.load(AO::Relaxed);
            self.size.store(0, AO::Relaxed);
            v
        } else {
            self.size.swap(0, AO::Relaxed)
        };
        if v != 0 {
            self.pool.shrink(&self.anchor, v);
        }
        v
    }
    fn resize(&self, cap: usize) -> bool {
        let s = self.size.load(AO::Relaxed);
        if cap > s {
            self.grow(cap - s);
            true
        } else if cap < s {
            self.shrink(s - cap)
        } else {
            true
        }
    }
    fn try_resize(&self, cap: usize) -> bool {
        let s = self.size.load(AO::Relaxed);
        if cap > s {
            self.try_grow(cap - s)
        } else if cap < s {
            self.shrink(s - cap)
        } else {
            true
        }
    }
    fn split(&self, n: usize) -> Option<Box<dyn ResApi>> {
        if !self.sub_checked(n) {
            return None;
        }
        Some(Box::new(RacyRes { anchor: Arc::clone(&self.anchor), pool: Arc::clone(&self.pool), size: AtomicUsize::new(n), defect: self.defect }))
    }
    fn new_empty(&self) -> Box<dyn ResApi> {
        Box::new(RacyRes { anchor: Arc::clone(&self.anchor), pool: Arc::clone(&self.pool), size: AtomicUsize::new(0), defect: self.defect })
    }
}
impl Drop for RacyRes {
    fn drop(&mut self) {
        ResApi::free(self);
    }
}

const B_OPS: [&str; 8] = ["grow", "try_grow", "shrink", "try_shrink", "free", "resize", "try_resize", "split"];

/// one call of op number `op` on the shared reservation; split-off reservations go to `mine`
fn b_call(r: &dyn ResApi, op: usize, rng: &mut Rng, mine: &mut Vec<Box<dyn ResApi>>) {
    let n = *rng.pick(&[1usize, 2, 3, 5, 8]);
    match op {
        0 => r.grow(n),
        1 => {
            r.try_grow(n);
        }
        2 => {
            r.shrink(n);
        }
        3 => {
            r.try_shrink(n);
        }
        4 => {
            r.free();
        }
        5 => {
            r.resize(*rng.pick(&[0usize, 4, 16, 64]));
        }
        6 => {
            r.try_resize(*rng.pick(&[0usize, 4, 16, 64]));
        }
        _ => {
            if let Some(x) = r.split(*rng.pick(&[1usize, 2, 5])) {
                mine.push(x);
            } else if rng.chance(1, 8) {
                let e = r.new_empty();
                e.try_grow(n);
                mine.push(e);
            }
            if mine.len() > 6 {
                // dropping a sibling reservation = free + (not last) no unregister, concurrently
                let i = rng.below(mine.len() as u64) as usize;
                drop(mine.swap_remove(i));
            }
        }
    }
}

/// Class B detector, one round: three threads hammer ONE shared reservation — thread 0 mostly op
/// `a`, thread 1 mostly op `b`, thread 2 keeps it filled — then, at quiescence:
/// `reserved() = Σ size()` of the live reservations, tracked consumer = Σ, peak ≥ current, and
/// 0 / nothing tracked after dropping everything.
fn stress_b_round(
    inner: Arc<dyn MemoryPool>,
    stack: Stack,
    make: &dyn Fn(&Arc<dyn MemoryPool>) -> Box<dyn ResApi>,
    a: usize,
    b: usize,
    iters: usize,
    seed: u64,
) -> Option<(&'static str, String)> {
    let built = build(inner, stack);
    let pool = built.pool;
    let shared: Arc<dyn ResApi> = Arc::from(make(&pool));
    let barrier = Arc::new(Barrier::new(3));
    let mut handles = vec![];
    for t in 0..3usize {
        let (shared, barrier) = (Arc::clone(&shared), Arc::clone(&barrier));
        let mut rng = Rng::new(seed.wrapping_mul(3).wrapping_add(t as u64));
        handles.push(std::thread::spawn(move || {
            let mut mine: Vec<Box<dyn ResApi>> = vec![];
            barrier.wait();
            let body = hutil::catch(AssertUnwindSafe(|| {
                for _ in 0..iters {
                    let op = match t {
                        0 if rng.chance(3, 4) => a,
                        1 if rng.chance(3, 4) => b,
                        2 => *rng.pick(&[0usize, 0, 1, 1, 1, 4, 7]),
                        _ => *rng.pick(&[0usize, 1, 1, 2, 3, 4, 5, 6, 7]),
                    };
                    b_call(&*shared, op, &mut rng, &mut mine);
                }
            }));
            (mine, body.err())
        }));
    }
    let mut live: Vec<Box<dyn ResApi>> = vec![];
    let mut w: Option<(&'static str, String)> = None;
    for h in handles {
        match h.join() {
            Ok((mine, perr)) => {
                live.extend(mine);
                if let Some(m) = perr {
                    w.get_or_insert(("unexpected-panic", format!("a stress thread panicked outside a caught call: {m}")));
                }
            }
            Err(_) => {
                w.get_or_insert(("unexpected-panic", "a stress thread died".to_string()));
            }
        }
    }
    // ---- quiescence
    let sum: usize = shared.size() + live.iter().map(|r| r.size()).sum::<usize>();
    let reserved = pool.reserved();
    if w.is_none() && reserved != sum {
        w = Some(("reserved-ne-sum-at-quiescence", format!("at quiescence reserved()={reserved} but the {} live reservations hold {sum}", live.len() + 1)));
    }
    if let Some(track) = &built.track {
        let ms = track.metrics();
        if w.is_none() && (ms.len() != 1 || ms[0].reserved != sum || ms[0].peak < ms[0].reserved) {
            w = Some(("tracked-ne-consumer", format!("at quiescence metrics()={:?} but the consumer's reservations hold {sum}", ms.iter().map(|m| (m.reserved, m.peak)).collect::<Vec<_>>())));
        }
        let (pk, mx) = (track.inner().peak_reserved(), track.inner().max_reserved());
        if w.is_none() && (pk < reserved || mx < pk) {
            w = Some(("peak-lt-reserved", format!("at quiescence peak_reserved()={pk} max_reserved()={mx} reserved()={reserved}")));
        }
    }
    drop(live);
    drop(shared);
    if w.is_none() && pool.reserved() != 0 {
        w = Some(("nonzero-after-drop", format!("reserved()={} after dropping every reservation", pool.reserved())));
    }
    if let Some(track) = &built.track {
        if w.is_none() && !track.metrics().is_empty() {
            w = Some(("nonzero-after-drop", "a consumer is still tracked after dropping every reservation".to_string()));
        }
    }
    w
}

/// all unordered pairs of reservation operations
fn b_pairs() -> Vec<(usize, usize)> {
    let mut v = vec![];
    for a in 0..B_OPS.len() {
        for b in a..B_OPS.len() {
            v.push((a, b));
        }
    }
    v
}

const STRESS_A_CATS: [&str; 4] = ["limit-exceeded", "reserved-ne-sum-at-quiescence", "nonzero-after-drop", "unexpected-panic"];
const STRESS_B_CATS: [&str; 5] = ["reserved-ne-sum-at-quiescence", "tracked-ne-consumer", "peak-lt-reserved", "nonzero-after-drop", "unexpected-panic"];

fn stress(run: &mut Run, rng: &mut Rng) {
    let t0 = std::time::Instant::now();
    // ---------------- class A: limit checks under free-running threads
    let a_iters = run.budget(6_000, 40_000) as usize;
    let a_rounds = run.budget(3, 8);
    let threads = 4usize;
    for stack in [Stack::Bare, Stack::TrackPeak] {
        // (label, limit, n, spill)
        let mut cfgs: Vec<(String, usize, usize, bool)> = vec![];
        for n in [60usize, 34, 26] {
            cfgs.push((format!("greedy limit=100 n={n}"), 100, n, false));
            // fair, every consumer unspillable: first come first served within the pool size
            cfgs.push((format!("fair-unspillable limit=100 n={n}"), 100, n, false));
        }
        // fair, one spilling consumer per thread: each may hold its share, together ≤ pool size
        cfgs.push(("fair-spillable limit=100 n=25".to_string(), 100, 25, true));
        cfgs.push(("fair-spillable limit=103 n=25".to_string(), 103, 25, true));
        for (label, limit, n, spill) in &cfgs {
            let mut w = None;
            let mut grants = 0usize;
            for _ in 0..a_rounds {
                // a fresh pool per round
                let inner: Arc<dyn MemoryPool> = if label.starts_with("greedy") { Arc::new(GreedyMemoryPool::new(*limit)) } else { Arc::new(FairSpillPool::new(*limit)) };
                let cfg = AConfig { label: label.clone(), inner, stack, limit: *limit, n: *n, spill: *spill, threads, iters: a_iters };
                let (ww, g) = stress_a(&cfg);
                grants += g;
                if ww.is_some() {
                    w = ww.map(|x| (x, cfg.label.clone()));
                    break;
                }
            }
            run.add("stress-A:grants", grants as u64);
            run.count("stress-A:configs");
            for cat in STRESS_A_CATS {
                let hit = w.as_ref().filter(|((c, _), _)| *c == cat);
                run.oracle(
                    hit.is_none(),
                    &format!("stress-A {cat} pool={label} stack={} threads={threads}", stack.name()),
                    &hit.map(|((_, d), _)| format!("{threads} threads doing only try_grow({n})/shrink({n}), one consumer each, on {label} ({}): {d}", stack.name())).unwrap_or_default(),
                );
            }
        }
    }
    let t_a = t0.elapsed().as_millis();
    // ---------------- class B: every pair of reservation operations on one shared reservation
    let b_iters = run.budget(1_500, 6_000) as usize;
    let b_sweeps = run.budget(1, 4);
    for stack in [Stack::Bare, Stack::TrackPeak] {
        for kind in [Kind::U, Kind::G(20_000), Kind::F(20_000)] {
            let mut w: Option<((&'static str, String), (usize, usize))> = None;
            'sweep: for sweep in 0..b_sweeps {
                for (i, (a, b)) in b_pairs().into_iter().enumerate() {
                    let spill = (i + sweep as usize) % 2 == 0;
                    let make = move |pool: &Arc<dyn MemoryPool>| -> Box<dyn ResApi> { Box::new(MemoryConsumer::new("c0").with_can_spill(spill).register(pool)) };
                    let ww = stress_b_round(kind.inner(), stack, &make, a, b, b_iters, rng.next());
                    run.count("stress-B:rounds");
                    if let Some(x) = ww {
                        w = Some((x, (a, b)));
                        break 'sweep;
                    }
                }
            }
            for cat in STRESS_B_CATS {
                let hit = w.as_ref().filter(|((c, _), _)| *c == cat);
                run.oracle(
                    hit.is_none(),
                    &format!(
                        "stress-B {cat} pool={} stack={} pair={}",
                        kind.name(),
                        stack.name(),
                        hit.map(|(_, (a, b))| format!("{}/{}", B_OPS[*a], B_OPS[*b])).unwrap_or_default()
                    ),
                    &hit.map(|((_, d), (a, b))| format!("3 threads on ONE shared reservation of a {} pool ({}), thread 0 mostly {}, thread 1 mostly {}, thread 2 refilling: {d}", kind.name(), stack.name(), B_OPS[*a], B_OPS[*b])).unwrap_or_default(),
                );
            }
        }
    }
    let t_b = t0.elapsed().as_millis() - t_a;
    let cpus = std::thread::available_parallelism().map(|n| n.get()).unwrap_or(1);
    run.note(&format!(
        "C17 stress: class A {t_a} ms, class B {t_b} ms (iteration-bounded; wall time is informative only); {cpus} hardware threads available{}",
        if cpus < 2 { " — the stress detectors need at least 2 to have any power" } else { "" }
    ));
}

/// How often do the detectors fire on code that HAS the defect?  Harness-local re-implementations
/// only (`RacyGreedy`, `RacyRes`); results go to counters / notes, never to the verdict.
fn stress_selftest(run: &mut Run, rng: &mut Rng) {
    let trials: u64 = std::env::var("VERIF_C17_SELFTEST_TRIALS").ok().and_then(|s| s.parse().ok()).unwrap_or(run.budget(3, 10));
    let t0 = std::time::Instant::now();
    let a_iters = run.budget(6_000, 40_000) as usize;
    let a_rounds = run.budget(3, 8);
    let mut a_fired = 0u64;
    for _ in 0..trials {
        // exactly what `stress` does for one greedy configuration (n = 60, bare)
        for _ in 0..a_rounds {
            let cfg = AConfig { label: "racy-greedy".into(), inner: Arc::new(RacyGreedy { limit: 100, used: AtomicUsize::new(0) }), stack: Stack::Bare, limit: 100, n: 60, spill: false, threads: 4, iters: a_iters };
            if stress_a(&cfg).0.is_some() {
                a_fired += 1;
                break;
            }
        }
    }
    run.add("stress-selftest:A(load-compare-add greedy) trials", trials);
    run.add("stress-selftest:A(load-compare-add greedy) fired", a_fired);
    let b_iters = run.budget(1_500, 6_000) as usize;
    let mut summary = vec![format!("A load→compare→add: {a_fired}/{trials}")];
    for defect in [Defect::FreeLoadStore, Defect::GrowLoadStore, Defect::ShrinkLoadStore] {
        let mut fired = 0u64;
        let mut rounds_hit = 0u64;
        let mut rounds = 0u64;
        for _ in 0..trials {
            // one sweep over all pairs on one pool kind (what `stress` does per kind × stack), not stopping early
            let mut any = false;
            for (a, b) in b_pairs() {
                let make = move |pool: &Arc<dyn MemoryPool>| -> Box<dyn ResApi> {
                    let anchor = Arc::new(MemoryConsumer::new("c0").register(pool));
                    Box::new(RacyRes { anchor, pool: Arc::clone(pool), size: AtomicUsize::new(0), defect })
                };
                let w = stress_b_round(Kind::G(20_000).inner(), Stack::Bare, &make, a, b, b_iters, rng.next());
                rounds += 1;
                if w.is_some() {
                    rounds_hit += 1;
                    any = true;
                }
            }
            if any {
                fired += 1;
            }
        }
        run.add(&format!("stress-selftest:B({defect:?}) trials"), trials);
        run.add(&format!("stress-selftest:B({defect:?}) fired"), fired);
        run.add(&format!("stress-selftest:B({defect:?}) rounds-with-witness"), rounds_hit);
        summary.push(format!("B {defect:?}: {fired}/{trials} sweeps, {rounds_hit}/{rounds} rounds"));
    }
    run.note(&format!("C17 stress selftest on harness-local defective re-implementations (detections / trials): {} [{} ms]", summary.join("; "), t0.elapsed().as_millis()));
}

pub fn run(run: &mut Run, args: &Args) {
    let mut rng = Rng::new(args.seed);
    hutil::quiet_panics();
    // ---- directed cases first (the confirmed findings and their neighbours)
    // fair pool, one spilling consumer with two reservations: each is granted the whole share
    seq_history(run, &mut rng, Kind::F(100), Some(&["(reg t)", "(trygrow 0 100)", "(newempty 0)", "(trygrow 1 100)"]), "directed");
    // same through split and take
    seq_history(run, &mut rng, Kind::F(100), Some(&["(reg t)", "(trygrow 0 100)", "(split 0 100)", "(trygrow 0 100)"]), "directed");
    seq_history(run, &mut rng, Kind::F(100), Some(&["(reg t)", "(trygrow 0 60)", "(take 0)", "(trygrow 0 60)", "(drop 0)", "(drop 1)"]), "directed");
    // neighbours that must hold: one reservation per consumer
    seq_history(run, &mut rng, Kind::F(100), Some(&["(reg t)", "(trygrow 0 100)", "(trygrow 0 1)", "(reg t)", "(trygrow 1 50)", "(trygrow 1 1)", "(reg f)", "(trygrow 2 1)"]), "directed");
    seq_history(run, &mut rng, Kind::G(100), Some(&["(reg t)", "(trygrow 0 100)", "(newempty 0)", "(trygrow 1 1)", "(trygrow 1 0)", "(shrink 0 101)", "(split 0 101)", "(tryshrink 0 101)"]), "directed");
    // two threads share one reservation of a fair pool: both pass the check before either adds to `size`
    let shared = Scenario { kind: Kind::F(100), res: vec![(0, true)], progs: vec![vec![COp::TryGrow(0, 60)], vec![COp::TryGrow(0, 60)]], sched: vec![0, 1, 0, 1] };
    conc_scenario(run, &shared, "directed");
    // the same calls one after the other: the second is refused
    let serial = Scenario { sched: vec![0, 0, 1, 1], ..shared };
    conc_scenario(run, &serial, "directed");
    // the greedy pool's fetch_update is atomic: same schedule, second call refused
    let greedy = Scenario { kind: Kind::G(100), res: vec![(0, true)], progs: vec![vec![COp::TryGrow(0, 60)], vec![COp::TryGrow(0, 60)]], sched: vec![0, 1, 0, 1] };
    conc_scenario(run, &greedy, "directed");

    // ---- random sequential histories
    let n_seq = run.budget(20_000, 200_000);
    for _ in 0..n_seq {
        let kind = pick_kind(&mut rng);
        seq_history(run, &mut rng, kind, None, "random");
    }
    // ---- random concurrent scenarios
    let n_conc = run.budget(3_000, 15_000);
    for _ in 0..n_conc {
        let sc = random_scenario(&mut rng, 4);
        conc_scenario(run, &sc, "random");
    }
    // ---- thorough: all interleavings of two threads with two calls each
    if run.thorough() {
        for _ in 0..100 {
            let mut sc = random_scenario(&mut rng, 2);
            sc.progs.truncate(2);
            let (a, b) = (2 * sc.progs[0].len(), 2 * sc.progs[1].len());
            for il in interleavings(a, b) {
                sc.sched = il;
                conc_scenario(run, &sc, "exhaustive");
                run.count("conc:exhaustive-interleavings");
            }
        }
    }
    // ---- real-thread stress oracles (classes A and B), then the detectors' self-test
    stress(run, &mut rng);
    stress_selftest(run, &mut rng);
    let _ = std::panic::take_hook();
}
