//! C05 — every join operator computes its join type's result.
//!
//! For small generated inputs (0–6 rows a side, keys from {NULL,0,1,1,2}, 1–2 key columns,
//! optional residual filter `l.x < r.y`) × 10 join types × 2 NULL-equalities × batch sizes
//! {1,2,8192} the real operators are built directly and executed:
//!   HashJoinExec (CollectLeft and Partitioned; dense ArrayMap and hash-map paths),
//!   NestedLoopJoinExec, SortMergeJoinExec, CrossJoinExec, SymmetricHashJoinExec,
//!   PiecewiseMergeJoinExec.
//! Correspondence (equality of sorted bags):
//!   op `join`     — the operator's output vs the Lean nested-loop spec `Mech.Join.join`;
//!   op `hashjoin` — HashJoinExec's output vs the Lean mechanism model `Mech.HashJoin.hashJoin`
//!                   run on the same probe batches / limit (proved ~ spec);
//!   op `table`    — the `JoinType` decision tables vs the Lean tables.
//! Implementation-level oracle: every operator's bag must equal the real NestedLoopJoinExec's bag
//! on the same input (no model involved).
use std::sync::Arc;

use arrow::array::{Array, ArrayRef, BooleanArray, Int64Array, RecordBatch};
use arrow::compute::SortOptions;
use arrow::datatypes::{DataType, Field, Schema, SchemaRef};
use datafusion_common::{JoinSide, JoinType, NullEquality};
use datafusion_datasource::memory::MemorySourceConfig;
use datafusion_execution::TaskContext;
use datafusion_execution::config::SessionConfig;
use datafusion_execution::disk_manager::{DiskManagerBuilder, DiskManagerMode};
use datafusion_execution::memory_pool::GreedyMemoryPool;
use datafusion_execution::runtime_env::RuntimeEnvBuilder;
use datafusion_expr::Operator;
use datafusion_physical_expr::expressions::{BinaryExpr, Column};
use datafusion_physical_expr::{LexOrdering, Partitioning, PhysicalExpr, PhysicalSortExpr};
use datafusion_physical_plan::joins::utils::{ColumnIndex, JoinFilter, JoinOn};
use datafusion_physical_plan::joins::{
    CrossJoinExec, HashJoinExec, NestedLoopJoinExec, PartitionMode, PiecewiseMergeJoinExec,
    SortMergeJoinExec, StreamJoinPartitionMode, SymmetricHashJoinExec,
};
use datafusion_physical_plan::repartition::RepartitionExec;
use datafusion_physical_plan::sorts::sort::SortExec;
use datafusion_physical_plan::{ExecutionPlan, collect};
use hutil::{Args, Rng, Run};

type Row = Vec<Option<i64>>;

const JOIN_TYPES: [JoinType; 10] = [
    JoinType::Inner,
    JoinType::Left,
    JoinType::Right,
    JoinType::Full,
    JoinType::LeftSemi,
    JoinType::RightSemi,
    JoinType::LeftAnti,
    JoinType::RightAnti,
    JoinType::LeftMark,
    JoinType::RightMark,
];

fn schema(names: [&str; 3]) -> SchemaRef {
    Arc::new(Schema::new(names.iter().map(|n| Field::new(*n, DataType::Int64, true)).collect::<Vec<_>>()))
}

fn batch_of(schema: &SchemaRef, rows: &[Row]) -> RecordBatch {
    let cols: Vec<ArrayRef> = (0..3).map(|c| Arc::new(rows.iter().map(|r| r[c]).collect::<Int64Array>()) as ArrayRef).collect();
    RecordBatch::try_new(schema.clone(), cols).unwrap()
}

fn gen_rows(rng: &mut Rng, max: u64) -> Vec<Row> {
    let n = rng.below(max + 1) as usize;
    let keys = [None, Some(0), Some(1), Some(1), Some(2)];
    let pay = [None, Some(0), Some(1), Some(2), Some(3)];
    (0..n).map(|_| vec![*rng.pick(&keys), *rng.pick(&keys), *rng.pick(&pay)]).collect()
}

/// split rows into `nparts` partitions of batches (batch boundaries random, occasional empty batch)
fn split(rng: &mut Rng, rows: &[Row], nparts: usize) -> Vec<Vec<Vec<Row>>> {
    let mut parts: Vec<Vec<Vec<Row>>> = vec![vec![]; nparts];
    let mut i = 0;
    while i < rows.len() {
        let k = 1 + rng.below(3) as usize;
        let end = (i + k).min(rows.len());
        let p = rng.below(nparts as u64) as usize;
        parts[p].push(rows[i..end].to_vec());
        if rng.chance(1, 8) {
            parts[p].push(vec![]);
        }
        i = end;
    }
    parts
}

fn mem_exec(schema: &SchemaRef, parts: &[Vec<Vec<Row>>]) -> Arc<dyn ExecutionPlan> {
    let ps: Vec<Vec<RecordBatch>> = parts.iter().map(|p| p.iter().map(|b| batch_of(schema, b)).collect()).collect();
    MemorySourceConfig::try_new_exec(&ps, schema.clone(), None).unwrap()
}

fn col(name: &str, idx: usize) -> Arc<dyn PhysicalExpr> {
    Arc::new(Column::new(name, idx))
}

fn show_row(r: &[Option<i64>]) -> String {
    r.iter().map(|v| v.map(|x| x.to_string()).unwrap_or_else(|| "N".into())).collect::<Vec<_>>().join(",")
}

fn rows_sexp(rows: &[Row]) -> String {
    let mut s = String::from("(");
    for (i, r) in rows.iter().enumerate() {
        if i > 0 {
            s.push(' ');
        }
        s.push('(');
        s.push_str(&r.iter().map(|v| v.map(|x| x.to_string()).unwrap_or_else(|| "N".into())).collect::<Vec<_>>().join(" "));
        s.push(')');
    }
    s.push(')');
    s
}

/// canonical bag of an operator's output
fn bag(batches: &[RecordBatch]) -> String {
    let mut out: Vec<String> = vec![];
    for b in batches {
        for r in 0..b.num_rows() {
            let mut cells: Vec<Option<i64>> = vec![];
            for c in b.columns() {
                if let Some(a) = c.as_any().downcast_ref::<Int64Array>() {
                    cells.push(if a.is_null(r) { None } else { Some(a.value(r)) });
                } else if let Some(a) = c.as_any().downcast_ref::<BooleanArray>() {
                    cells.push(if a.is_null(r) { None } else { Some(a.value(r) as i64) });
                } else {
                    panic!("unexpected column type {:?}", c.data_type());
                }
            }
            out.push(show_row(&cells));
        }
    }
    out.sort();
    if out.is_empty() { "-".into() } else { out.join(";") }
}

#[derive(Clone)]
struct Input {
    jt: JoinType,
    ne: bool,
    nkeys: usize,
    filter: bool,
    l: Vec<Row>,
    r: Vec<Row>,
}

impl Input {
    fn null_eq(&self) -> NullEquality {
        if self.ne { NullEquality::NullEqualsNull } else { NullEquality::NullEqualsNothing }
    }
    fn on(&self) -> JoinOn {
        let mut v: JoinOn = vec![(col("a", 0), col("c", 0))];
        if self.nkeys == 2 {
            v.push((col("b", 1), col("d", 1)));
        }
        v
    }
    /// residual filter `l.x < r.y` over the intermediate schema (x, y)
    fn join_filter(&self) -> Option<JoinFilter> {
        if !self.filter {
            return None;
        }
        let fs = Arc::new(Schema::new(vec![Field::new("x", DataType::Int64, true), Field::new("y", DataType::Int64, true)]));
        let e: Arc<dyn PhysicalExpr> = Arc::new(BinaryExpr::new(col("x", 0), Operator::Lt, col("y", 1)));
        Some(JoinFilter::new(e, vec![ColumnIndex { index: 2, side: JoinSide::Left }, ColumnIndex { index: 2, side: JoinSide::Right }], fs))
    }
    /// the whole match predicate as one filter (for the nested-loop join): key equality under the
    /// NULL-equality mode AND the residual filter; intermediate schema (a,b,x,c,d,y)
    fn full_filter(&self, nkeys: usize, with_lt: bool) -> Option<JoinFilter> {
        let fs = Arc::new(Schema::new(
            ["a", "b", "x", "c", "d", "y"].iter().map(|n| Field::new(*n, DataType::Int64, true)).collect::<Vec<_>>(),
        ));
        let eqop = if self.ne { Operator::IsNotDistinctFrom } else { Operator::Eq };
        let mut conj: Vec<Arc<dyn PhysicalExpr>> = vec![];
        for k in 0..nkeys {
            conj.push(Arc::new(BinaryExpr::new(col(["a", "b"][k], k), eqop, col(["c", "d"][k], 3 + k))));
        }
        if with_lt {
            conj.push(Arc::new(BinaryExpr::new(col("x", 2), Operator::Lt, col("y", 5))));
        }
        let e = conj.into_iter().reduce(|a, b| Arc::new(BinaryExpr::new(a, Operator::And, b)) as Arc<dyn PhysicalExpr>)?;
        let ci = (0..3)
            .map(|i| ColumnIndex { index: i, side: JoinSide::Left })
            .chain((0..3).map(|i| ColumnIndex { index: i, side: JoinSide::Right }))
            .collect();
        Some(JoinFilter::new(e, ci, fs))
    }
    /// request s-expression for the model (probe batches given explicitly)
    fn sexp(&self, nkeys: usize, filter: bool, batches: &[Vec<Row>]) -> String {
        let on = match nkeys {
            0 => "()",
            1 => "((0 0))",
            _ => "((0 0) (1 1))",
        };
        let f = if filter { "(lt 2 2)" } else { "none" };
        let bs = batches.iter().map(|b| rows_sexp(b)).collect::<Vec<_>>().join(" ");
        format!("({:?} {} {} {} 3 3 {} ({}))", self.jt, if self.ne { "t" } else { "f" }, on, f, rows_sexp(&self.l), bs)
    }
    fn nontrivial(&self) -> bool {
        let dup_or_null = |rows: &[Row]| {
            rows.iter().any(|r| r[0].is_none()) || {
                let mut ks: Vec<_> = rows.iter().map(|r| r[0]).collect();
                ks.sort();
                ks.windows(2).any(|w| w[0] == w[1])
            }
        };
        !self.l.is_empty() && !self.r.is_empty() && (dup_or_null(&self.l) || dup_or_null(&self.r))
    }
}

fn ctx(batch_size: usize, phj: bool) -> Arc<TaskContext> {
    let mut cfg = SessionConfig::new().with_batch_size(batch_size);
    if !phj {
        // force the JoinHashMap path: never dense enough for the ArrayMap
        cfg.options_mut().execution.perfect_hash_join_small_build_threshold = 0;
        cfg.options_mut().execution.perfect_hash_join_min_key_density = 1.0e18;
    }
    Arc::new(TaskContext::default().with_session_config(cfg))
}

fn exec(rt: &tokio::runtime::Runtime, plan: Arc<dyn ExecutionPlan>, ctx: Arc<TaskContext>) -> Result<String, String> {
    let r = hutil::catch(std::panic::AssertUnwindSafe(|| {
        rt.block_on(async { tokio::time::timeout(std::time::Duration::from_secs(20), collect(plan, ctx)).await })
    }));
    match r {
        Err(p) => Err(format!("panic:{p}")),
        Ok(Err(_)) => Err("hang".into()),
        Ok(Ok(Err(e))) => Err(format!("err:{}", e.to_string().lines().next().unwrap_or(""))),
        Ok(Ok(Ok(bs))) => Ok(bag(&bs)),
    }
}

fn repart(input: Arc<dyn ExecutionPlan>, keys: Vec<Arc<dyn PhysicalExpr>>, n: usize) -> Arc<dyn ExecutionPlan> {
    Arc::new(RepartitionExec::try_new(input, Partitioning::Hash(keys, n)).unwrap())
}

fn sorted(input: Arc<dyn ExecutionPlan>, keys: Vec<Arc<dyn PhysicalExpr>>) -> Arc<dyn ExecutionPlan> {
    let ord = LexOrdering::new(keys.into_iter().map(|e| PhysicalSortExpr::new(e, SortOptions::default()))).unwrap();
    Arc::new(SortExec::new(ord, input))
}

fn tables(run: &mut Run) {
    for jt in JOIN_TYPES {
        let b = |x: bool| if x { "t" } else { "f" };
        run.case("table", &format!("(swap {jt:?})"), &format!("{:?}", jt.swap()), true);
        let (l, r) = jt.on_lr_is_preserved();
        run.case("table", &format!("(on_lr_is_preserved {jt:?})"), &format!("{}{}", b(l), b(r)), true);
        run.case("table", &format!("(empty_build {jt:?})"), b(jt.empty_build_side_produces_empty_result()), true);
        run.case("table", &format!("(empty_map {jt:?})"), b(jt.empty_map_produces_empty_result()), true);
    }
}

/// Directed case (runs first): the exact input on which SymmetricHashJoinExec lost NULL = NULL
/// matches before /repo fix b4ab834 (stale build-side hash buffer, notes/C05.md): NULL = NULL inner
/// join, each side arriving as two batches, the NULL key in the second one; and the same rows
/// in one batch per side.  Compared strictly with the Lean spec and with the expected row.
fn shj_stale_hash_probe(run: &mut Run, rt: &tokio::runtime::Runtime) {
    let ls = schema(["a", "b", "x"]);
    let rs = schema(["c", "d", "y"]);
    for (name, lparts) in [("one-batch", vec![vec![vec![Some(5), Some(0), Some(0)], vec![None, Some(0), Some(1)]]]), ("two-batches", vec![vec![vec![Some(5), Some(0), Some(0)]], vec![vec![None, Some(0), Some(1)]]])] {
        // the right side has the same batch structure: [9] first, the NULL key in a later batch
        let r: Vec<Vec<Row>> = if lparts.len() == 1 { vec![vec![vec![Some(9), Some(7), Some(7)], vec![None, Some(7), Some(7)]]] } else { vec![vec![vec![Some(9), Some(7), Some(7)]], vec![vec![None, Some(7), Some(7)]]] };
        let plan = SymmetricHashJoinExec::try_new(
            mem_exec(&ls, &[lparts.clone()]),
            mem_exec(&rs, &[r.clone()]),
            vec![(col("a", 0), col("c", 0))],
            None,
            &JoinType::Inner,
            NullEquality::NullEqualsNull,
            None,
            None,
            StreamJoinPartitionMode::SinglePartition,
        )
        .unwrap();
        let got = exec(rt, Arc::new(plan), ctx(8192, true)).unwrap_or_else(|e| e);
        run.count(&format!("shj_probe_{name}_{}", if got == "N,0,1,N,7,7" { "correct" } else { "wrong" }));
        run.oracle(
            got == "N,0,1,N,7,7",
            &format!("SymmetricHashJoinExec directed case {name}: left batches {lparts:?} right {r:?} Inner NullEqualsNull on a=c"),
            &format!("expected `N,0,1,N,7,7`, got `{got}`"),
        );
        let lrows: Vec<Row> = lparts.iter().flatten().cloned().collect();
        let rbatches: Vec<String> = r.iter().map(|b| rows_sexp(b)).collect();
        run.case("join.symmetric_hash", &format!("(Inner t ((0 0)) none 3 3 {} ({}))", rows_sexp(&lrows), rbatches.join(" ")), &got, true);
    }
}

// ------------------------------------------------------------------------------------------------
// operators under a memory budget (memory-dependent paths): NestedLoopJoinExec's OOM fallback that
// processes the left side in chunks with spilled/replayed inputs, SortMergeJoinExec's spilling of
// buffered batches, HashJoinExec / SymmetricHashJoinExec whose reservations can only fail.

fn ctx_mem(batch_size: usize, limit: usize, spill: bool) -> Arc<TaskContext> {
    let cfg = SessionConfig::new().with_batch_size(batch_size);
    let mode = if spill { DiskManagerMode::OsTmpDirectory } else { DiskManagerMode::Disabled };
    let rt = RuntimeEnvBuilder::new()
        .with_memory_pool(Arc::new(GreedyMemoryPool::new(limit)))
        .with_disk_manager_builder(DiskManagerBuilder::default().with_mode(mode))
        .build_arc()
        .unwrap();
    Arc::new(TaskContext::default().with_session_config(cfg).with_runtime(rt))
}

/// rows cut into consecutive batches of exactly `k` rows (the last one may be shorter)
fn fixed_batches(rows: &[Row], k: usize) -> Vec<Vec<Vec<Row>>> {
    vec![rows.chunks(k).map(|c| c.to_vec()).collect()]
}

fn is_resources(e: &str) -> bool {
    e.contains("Resources exhausted") || e.contains("ResourcesExhausted") || e.contains("Failed to allocate") || e.contains("Memory Exhausted")
}

/// record one memory-limited run: spec correspondence + oracle against the unlimited nested loop join
#[allow(clippy::too_many_arguments)]
fn record_mem(run: &mut Run, opname: &str, tag: &str, got: &Result<String, String>, want: &str, req: &str, cfg: &str, nt: bool) {
    match got {
        Err(e) if is_resources(e) => run.count(&format!("mem_{tag}_resources_exhausted")),
        Err(e) => {
            run.count(&format!("mem_{tag}_other_error"));
            run.oracle(false, &format!("{opname}[memory-limited {cfg}] failed with a non-resource error {req}"), e);
        }
        Ok(g) => {
            run.count(&format!("mem_{tag}_completed"));
            run.case(&format!("join.{tag}_memlimit"), req, g, nt);
            run.oracle(g == want, &format!("{opname}[memory-limited] vs NestedLoopJoinExec(unlimited) {cfg} {req}"), &format!("memory-limited `{g}`, unlimited `{want}`"));
        }
    }
}

/// Directed case (runs first): the exact input of notes/external/nlj_two_left_batches_memory_limited.rs in
/// this harness's schema — left = 2 batches of 2 rows, tiny memory limit, spilling on — on which the
/// chunked fallback skipped the global right-side emission before /repo fix c1e5d66 (notes/C05.md)
fn nlj_memlimit_directed(run: &mut Run, rt: &tokio::runtime::Runtime) {
    let ls = schema(["a", "b", "x"]);
    let rs = schema(["c", "d", "y"]);
    let l: Vec<Row> = vec![vec![Some(1), Some(0), Some(10)], vec![Some(2), Some(0), Some(20)], vec![Some(3), Some(0), Some(30)], vec![Some(4), Some(0), Some(40)]];
    let r: Vec<Row> = vec![vec![Some(5), Some(0), Some(500)], vec![Some(7), Some(0), Some(700)], vec![Some(1), Some(0), Some(100)], vec![Some(3), Some(0), Some(300)]];
    for jt in JOIN_TYPES {
        let inp = Input { jt, ne: false, nkeys: 1, filter: false, l: l.clone(), r: r.clone() };
        let mk = || -> Arc<dyn ExecutionPlan> {
            Arc::new(NestedLoopJoinExec::try_new(mem_exec(&ls, &fixed_batches(&l, 2)), mem_exec(&rs, &fixed_batches(&r, 2)), inp.full_filter(1, false), &jt, None).unwrap())
        };
        let want = exec(rt, mk(), ctx(16, true)).unwrap_or_else(|e| e);
        let got = exec(rt, mk(), ctx_mem(16, 50, true));
        let req = inp.sexp(1, false, &[r.clone()]);
        run.count("mem_nlj_directed");
        record_mem(run, "NestedLoopJoinExec", "nlj", &got, &want, &req, "limit=50 spill=true batch_size=16 left_batches=2x2 right_batches=2x2 directed", true);
    }
}

fn memory_limited(run: &mut Run, rng: &mut Rng, rt: &tokio::runtime::Runtime) {
    let ls = schema(["a", "b", "x"]);
    let rs = schema(["c", "d", "y"]);
    let n = run.budget(40, 1200);
    let limits = [1usize, 50, 300, 700, 1500, 4000, 20_000, 1 << 30];
    for _ in 0..n {
        let l = gen_rows(rng, 8);
        let r = gen_rows(rng, 8);
        let (lk, rk) = (1 + rng.below(3) as usize, 1 + rng.below(3) as usize);
        for jt in JOIN_TYPES {
            let inp = Input { jt, ne: rng.chance(1, 2), nkeys: 1 + rng.below(2) as usize, filter: rng.chance(1, 2), l: l.clone(), r: r.clone() };
            let nt = inp.nontrivial();
            let limit = *rng.pick(&limits);
            let spill = rng.chance(3, 4);
            let bsz = *rng.pick(&[1usize, 2, 3, 8192]);
            let cfg = format!("limit={limit} spill={spill} batch_size={bsz} left_batch_rows={lk} right_batch_rows={rk}");
            run.count(&format!("mem_limit_{limit}"));
            run.count(if spill { "mem_spill_enabled" } else { "mem_spill_disabled" });
            let req = inp.sexp(inp.nkeys, inp.filter, &[inp.r.clone()]);
            let lb = fixed_batches(&inp.l, lk);
            let rb = fixed_batches(&inp.r, rk);
            // reference: the nested loop join without any limit
            let refp: Arc<dyn ExecutionPlan> =
                Arc::new(NestedLoopJoinExec::try_new(mem_exec(&ls, &lb), mem_exec(&rs, &rb), inp.full_filter(inp.nkeys, inp.filter), &jt, None).unwrap());
            let want = match exec(rt, refp, ctx(bsz, true)) {
                Ok(w) => w,
                Err(e) => {
                    run.oracle(false, &format!("NestedLoopJoinExec(unlimited) failed {req}"), &e);
                    continue;
                }
            };
            // nested loop join (chunked fallback when the left side does not fit)
            {
                let plan: Arc<dyn ExecutionPlan> =
                    Arc::new(NestedLoopJoinExec::try_new(mem_exec(&ls, &lb), mem_exec(&rs, &rb), inp.full_filter(inp.nkeys, inp.filter), &jt, None).unwrap());
                let got = exec(rt, plan.clone(), ctx_mem(bsz, limit, spill));
                if got.is_ok() && plan.metrics().and_then(|m| m.spill_count()).unwrap_or(0) > 0 {
                    run.count("mem_nlj_completed_after_chunked_fallback");
                }
                record_mem(run, "NestedLoopJoinExec", "nlj", &got, &want, &req, &cfg, nt);
            }
            // sort-merge join over pre-sorted inputs (no SortExec: the budget is the join's alone)
            {
                let sort_rows = |rows: &[Row]| {
                    let mut v = rows.to_vec();
                    v.sort_by(|a, b| a[..inp.nkeys].cmp(&b[..inp.nkeys])); // None < Some: ascending, NULLs first
                    v
                };
                let (sl, sr) = (sort_rows(&inp.l), sort_rows(&inp.r));
                if let Ok(plan) = SortMergeJoinExec::try_new(
                    mem_exec(&ls, &fixed_batches(&sl, lk)),
                    mem_exec(&rs, &fixed_batches(&sr, rk)),
                    inp.on(),
                    inp.join_filter(),
                    inp.jt,
                    vec![SortOptions::default(); inp.nkeys],
                    inp.null_eq(),
                ) {
                    let plan: Arc<dyn ExecutionPlan> = Arc::new(plan);
                    let got = exec(rt, plan.clone(), ctx_mem(bsz, limit, spill));
                    if got.is_ok() && plan.metrics().and_then(|m| m.spill_count()).unwrap_or(0) > 0 {
                        run.count("mem_smj_completed_after_spilling");
                    }
                    record_mem(run, "SortMergeJoinExec", "smj", &got, &want, &req, &cfg, nt);
                }
            }
            // hash join, both modes
            for (mode, tag) in [(PartitionMode::CollectLeft, "hash_collect_left"), (PartitionMode::Partitioned, "hash_partitioned")] {
                let (lsrc, rsrc): (Arc<dyn ExecutionPlan>, Arc<dyn ExecutionPlan>) = if mode == PartitionMode::Partitioned {
                    let lkeys: Vec<Arc<dyn PhysicalExpr>> = inp.on().iter().map(|p| p.0.clone()).collect();
                    let rkeys: Vec<Arc<dyn PhysicalExpr>> = inp.on().iter().map(|p| p.1.clone()).collect();
                    (repart(mem_exec(&ls, &lb), lkeys, 2), repart(mem_exec(&rs, &rb), rkeys, 2))
                } else {
                    (mem_exec(&ls, &lb), mem_exec(&rs, &rb))
                };
                let plan = HashJoinExec::try_new(lsrc, rsrc, inp.on(), inp.join_filter(), &inp.jt, None, mode, inp.null_eq(), false).unwrap();
                let got = exec(rt, Arc::new(plan), ctx_mem(bsz, limit, spill));
                record_mem(run, "HashJoinExec", tag, &got, &want, &req, &cfg, nt);
            }
            // symmetric hash join
            if let Ok(plan) = SymmetricHashJoinExec::try_new(
                mem_exec(&ls, &lb),
                mem_exec(&rs, &rb),
                inp.on(),
                inp.join_filter(),
                &inp.jt,
                inp.null_eq(),
                None,
                None,
                StreamJoinPartitionMode::SinglePartition,
            ) {
                let got = exec(rt, Arc::new(plan), ctx_mem(bsz, limit, spill));
                record_mem(run, "SymmetricHashJoinExec", "symmetric_hash", &got, &want, &req, &cfg, nt);
            }
        }
    }
}

pub fn run(run: &mut Run, args: &Args) {
    hutil::quiet_panics();
    let mut rng = Rng::new(args.seed);
    let rt = tokio::runtime::Builder::new_multi_thread().worker_threads(2).enable_all().build().unwrap();
    shj_stale_hash_probe(run, &rt);
    nlj_memlimit_directed(run, &rt);
    tables(run);
    memory_limited(run, &mut rng.fork(), &rt);
    let ls = schema(["a", "b", "x"]);
    let rs = schema(["c", "d", "y"]);
    let n_inputs = run.budget(160, 5000);
    for it in 0..n_inputs {
        // one (L, R) pair is used for all ten join types; the rest of the configuration is random
        let l = gen_rows(&mut rng, 6);
        let r = gen_rows(&mut rng, 6);
        for jt in JOIN_TYPES {
            let inp = Input { jt, ne: rng.chance(1, 2), nkeys: 1 + rng.below(2) as usize, filter: rng.chance(1, 2), l: l.clone(), r: r.clone() };
            let bsz = *rng.pick(&[1usize, 2, 8192]);
            let phj = rng.chance(1, 2);
            let nt = inp.nontrivial();
            run.count(&format!("jt_{jt:?}"));
            run.count(&format!("batch_size_{bsz}"));
            run.count(if inp.ne { "null_equals_null" } else { "null_equals_nothing" });
            run.count(if inp.filter { "with_filter" } else { "no_filter" });
            run.count(&format!("nkeys_{}", inp.nkeys));
            if l.is_empty() || r.is_empty() {
                run.count("empty_side");
            }
            let one_batch = vec![inp.r.clone()];
            let req_spec = inp.sexp(inp.nkeys, inp.filter, &one_batch);

            // ---- reference run: the real nested-loop join (implementation-level oracle)
            let l1 = split(&mut rng, &inp.l, 1);
            let rparts_n = 1 + rng.below(3) as usize;
            let rp = split(&mut rng, &inp.r, rparts_n);
            let nlj_plan: Arc<dyn ExecutionPlan> = Arc::new(
                NestedLoopJoinExec::try_new(mem_exec(&ls, &l1), mem_exec(&rs, &rp), inp.full_filter(inp.nkeys, inp.filter), &inp.jt, None).unwrap(),
            );
            let nlj = exec(&rt, nlj_plan, ctx(bsz, phj));
            let nlj_ans = nlj.clone().unwrap_or_else(|e| e);
            run.case("join.nlj", &req_spec, &nlj_ans, nt);
            run.count("op_nlj");
            let mut check = |run: &mut Run, opname: &str, got: &Result<String, String>| {
                let g = got.clone().unwrap_or_else(|e| e);
                run.oracle(
                    g == nlj_ans && got.is_ok(),
                    &format!("{opname} vs NestedLoopJoinExec batch_size={bsz} {req_spec}"),
                    &format!("{opname} produced `{g}`, NestedLoopJoinExec `{nlj_ans}` (iteration {it})"),
                );
            };

            // ---- hash join, collect-left
            {
                let nrp = 1 + rng.below(3) as usize;
                let rparts = split(&mut rng, &inp.r, nrp);
                let plan = HashJoinExec::try_new(
                    mem_exec(&ls, &split(&mut rng, &inp.l, 1)),
                    mem_exec(&rs, &rparts),
                    inp.on(),
                    inp.join_filter(),
                    &inp.jt,
                    None,
                    PartitionMode::CollectLeft,
                    inp.null_eq(),
                    false,
                )
                .unwrap();
                let got = exec(&rt, Arc::new(plan), ctx(bsz, phj));
                let g = got.clone().unwrap_or_else(|e| e);
                run.case("join.hash_collect_left", &req_spec, &g, nt);
                // the mechanism model on the very same probe batches and limit
                let probe_batches: Vec<Vec<Row>> = rparts.iter().flatten().cloned().collect();
                let mk = if phj && inp.nkeys == 1 { "array" } else if rng.chance(1, 2) { "hash0" } else { "hashsum" };
                let body = inp.sexp(inp.nkeys, inp.filter, &probe_batches);
                run.case("hashjoin", &format!("({mk} {bsz} {}", &body[1..]), &g, nt);
                run.count(&format!("op_hash_collect_left_{}", if phj { "phj" } else { "map" }));
                check(run, "HashJoinExec(CollectLeft)", &got);
            }
            // ---- hash join, partitioned
            {
                let n = 1 + rng.below(3) as usize;
                let lk: Vec<Arc<dyn PhysicalExpr>> = inp.on().iter().map(|p| p.0.clone()).collect();
                let rk: Vec<Arc<dyn PhysicalExpr>> = inp.on().iter().map(|p| p.1.clone()).collect();
                let (nl, nr) = (1 + rng.below(2) as usize, 1 + rng.below(2) as usize);
                let lsrc = mem_exec(&ls, &split(&mut rng, &inp.l, nl));
                let rsrc = mem_exec(&rs, &split(&mut rng, &inp.r, nr));
                let plan = HashJoinExec::try_new(
                    repart(lsrc, lk, n),
                    repart(rsrc, rk, n),
                    inp.on(),
                    inp.join_filter(),
                    &inp.jt,
                    None,
                    PartitionMode::Partitioned,
                    inp.null_eq(),
                    false,
                )
                .unwrap();
                let got = exec(&rt, Arc::new(plan), ctx(bsz, phj));
                run.case("join.hash_partitioned", &req_spec, &got.clone().unwrap_or_else(|e| e), nt);
                run.count(&format!("op_hash_partitioned_{n}"));
                check(run, "HashJoinExec(Partitioned)", &got);
            }
            // ---- sort-merge join (one sorted partition per side)
            {
                let lk: Vec<Arc<dyn PhysicalExpr>> = inp.on().iter().map(|p| p.0.clone()).collect();
                let rk: Vec<Arc<dyn PhysicalExpr>> = inp.on().iter().map(|p| p.1.clone()).collect();
                let lsrc = sorted(mem_exec(&ls, &split(&mut rng, &inp.l, 1)), lk);
                let rsrc = sorted(mem_exec(&rs, &split(&mut rng, &inp.r, 1)), rk);
                match SortMergeJoinExec::try_new(lsrc, rsrc, inp.on(), inp.join_filter(), inp.jt, vec![SortOptions::default(); inp.nkeys], inp.null_eq()) {
                    Ok(plan) => {
                        let got = exec(&rt, Arc::new(plan), ctx(bsz, phj));
                        run.case("join.sort_merge", &req_spec, &got.clone().unwrap_or_else(|e| e), nt);
                        run.count("op_sort_merge");
                        check(run, "SortMergeJoinExec", &got);
                    }
                    Err(_) => run.count("op_sort_merge_rejected"),
                }
            }
            // ---- symmetric hash join (single partition)
            {
                match SymmetricHashJoinExec::try_new(
                    mem_exec(&ls, &split(&mut rng, &inp.l, 1)),
                    mem_exec(&rs, &split(&mut rng, &inp.r, 1)),
                    inp.on(),
                    inp.join_filter(),
                    &inp.jt,
                    inp.null_eq(),
                    None,
                    None,
                    StreamJoinPartitionMode::SinglePartition,
                ) {
                    Ok(plan) => {
                        let got = exec(&rt, Arc::new(plan), ctx(bsz, phj));
                        run.case("join.symmetric_hash", &req_spec, &got.clone().unwrap_or_else(|e| e), nt);
                        run.count("op_symmetric_hash");
                        check(run, "SymmetricHashJoinExec", &got);
                    }
                    Err(_) => run.count("op_symmetric_hash_rejected"),
                }
            }
            // ---- operators without equality keys: the match predicate is the filter alone
            if it % 2 == 0 {
                // cross join = inner join with the always-true predicate
                if jt == JoinType::Inner {
                    let ncr = 1 + rng.below(2) as usize;
                    let plan = CrossJoinExec::new(mem_exec(&ls, &split(&mut rng, &inp.l, 1)), mem_exec(&rs, &split(&mut rng, &inp.r, ncr)));
                    let got = exec(&rt, Arc::new(plan), ctx(bsz, phj));
                    let req = inp.sexp(0, false, &one_batch);
                    run.case("join.cross", &req, &got.clone().unwrap_or_else(|e| e), nt);
                    run.count("op_cross");
                    // NLJ without a filter as the implementation-level reference
                    let refp: Arc<dyn ExecutionPlan> =
                        Arc::new(NestedLoopJoinExec::try_new(mem_exec(&ls, &l1), mem_exec(&rs, &rp), None, &JoinType::Inner, None).unwrap());
                    let want = exec(&rt, refp, ctx(bsz, phj)).unwrap_or_else(|e| e);
                    let g = got.unwrap_or_else(|e| e);
                    run.oracle(g == want, &format!("CrossJoinExec vs NestedLoopJoinExec batch_size={bsz} {req}"), &format!("cross `{g}` nlj `{want}`"));
                }
                // piecewise merge join on the single inequality l.x < r.y; its buffered (left) input
                // must be sorted on x with the operator's own sort options (required_input_ordering)
                let mk = |left: Arc<dyn ExecutionPlan>, right: Arc<dyn ExecutionPlan>| {
                    PiecewiseMergeJoinExec::try_new(left, right, (col("x", 2), col("y", 2)), Operator::Lt, inp.jt, 1)
                };
                let lraw = mem_exec(&ls, &split(&mut rng, &inp.l, 1));
                let rraw = mem_exec(&rs, &split(&mut rng, &inp.r, 1));
                let built = mk(lraw.clone(), rraw.clone()).and_then(|probe| {
                    let ord = LexOrdering::new(vec![PhysicalSortExpr::new(col("x", 2), *probe.sort_options())]).unwrap();
                    mk(Arc::new(SortExec::new(ord, lraw.clone())), rraw.clone())
                });
                match built {
                    Ok(plan) => {
                        let got = exec(&rt, Arc::new(plan), ctx(bsz, phj));
                        let req = inp.sexp(0, true, &one_batch);
                        let g = got.clone().unwrap_or_else(|e| e);
                        run.case("join.piecewise_merge", &req, &g, nt);
                        run.count("op_piecewise_merge");
                        let refp: Arc<dyn ExecutionPlan> = Arc::new(
                            NestedLoopJoinExec::try_new(mem_exec(&ls, &l1), mem_exec(&rs, &rp), inp.full_filter(0, true), &inp.jt, None).unwrap(),
                        );
                        let want = exec(&rt, refp, ctx(bsz, phj)).unwrap_or_else(|e| e);
                        run.oracle(
                            g == want && got.is_ok(),
                            &format!("PiecewiseMergeJoinExec vs NestedLoopJoinExec batch_size={bsz} {req}"),
                            &format!("pwmj `{g}` nlj `{want}`"),
                        );
                    }
                    Err(_) => run.count("op_piecewise_merge_rejected"),
                }
            }
        }
    }
}
